#!/usr/bin/env python3
"""MANIFEST.setup_cmd: build everything from files on disk (offline)."""
import os, sys
sys.path.insert(0, os.path.dirname(os.path.abspath(__file__)))
from vlib import common as C
from vlib import gen as G

G.generate_all()
ok, out = C.lake_build(["ArgoVerif", "driver"])
print(out[-3000:])
if not ok:
    sys.exit(1)
for v in ("plain", "san", "hooks"):
    try:
        C.build_lib(v)
    except Exception as e:
        print("lib build failed:", v, e)
        sys.exit(1)
print("setup ok")
