/* F13: after ABT_self_suspend_to(T) the ULT T runs while its state still reads READY: ABTI_ythread_suspend_to is the
 * only directed switch that does not store ABT_THREAD_STATE_RUNNING into the target before switching to it
 * (yield_to, resume_yield_to, resume_suspend_to, exit_to, resume_exit_to all do).
 * exit 0: T observed RUNNING while running; exit 1: another state. */
#include <abt.h>
#include <stdio.h>
static ABT_thread thA;
static int seen = -1;
static void fT(void *arg)
{
    (void)arg;
    ABT_thread self;
    ABT_thread_state st, sa;
    ABT_thread_self(&self);
    ABT_thread_get_state(self, &st);
    seen = (int)st;
    do {
        ABT_thread_get_state(thA, &sa);
    } while (sa != ABT_THREAD_STATE_BLOCKED);
    ABT_thread_resume(thA);
}
static void fA(void *arg)
{
    ABT_pool pool = (ABT_pool)arg;
    ABT_thread t, p;
    ABT_thread_create(pool, fT, NULL, ABT_THREAD_ATTR_NULL, &t);
    ABT_pool_pop_thread(pool, &p);
    if (p != t) {
        fprintf(stderr, "unexpected unit popped\n");
        seen = -2;
        if (p != ABT_THREAD_NULL)
            ABT_pool_push_thread(pool, p);
    } else {
        ABT_self_suspend_to(p);
    }
    ABT_thread_free(&t);
}
int main(void)
{
    ABT_init(0, NULL);
    ABT_xstream xs;
    ABT_pool pool;
    ABT_xstream_self(&xs);
    ABT_xstream_get_main_pools(xs, 1, &pool);
    ABT_thread_create(pool, fA, (void *)pool, ABT_THREAD_ATTR_NULL, &thA);
    ABT_thread_join(thA);
    ABT_thread_free(&thA);
    ABT_finalize();
    printf("state of the target while it runs after ABT_self_suspend_to: %d (RUNNING = %d)\n", seen, (int)ABT_THREAD_STATE_RUNNING);
    return seen == (int)ABT_THREAD_STATE_RUNNING ? 0 : 1;
}
