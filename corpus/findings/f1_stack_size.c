/* F1 (C15): ULT with a non-default stack size that is not a multiple of 64.
 * Unfixed tree: ABT_thread_free -> free(): invalid pointer (abort). */
#include <abt.h>
#include <stdio.h>
#include <stdlib.h>
static void fn(void *a) { volatile char buf[256]; buf[0] = 1; (void)a; (void)buf; }
int main(int argc, char **argv)
{
    size_t sz = argc > 1 ? strtoul(argv[1], 0, 0) : 16400;
    ABT_init(0, 0);
    ABT_pool pool; ABT_xstream xs; ABT_xstream_self(&xs); ABT_xstream_get_main_pools(xs, 1, &pool);
    ABT_thread_attr attr; ABT_thread_attr_create(&attr); ABT_thread_attr_set_stacksize(attr, sz);
    ABT_thread t;
    int r = ABT_thread_create(pool, fn, 0, attr, &t);
    if (r) { printf("create err %d\n", r); return 2; }
    ABT_thread_join(t);
    ABT_thread_free(&t);
    ABT_thread_attr_free(&attr);
    ABT_finalize();
    printf("ok %zu\n", sz);
    return 0;
}
