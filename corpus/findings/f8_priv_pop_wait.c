/* F8 (C07): pop_wait / pop_timedwait on a FIFO or RANDWS pool created with ABT_POOL_ACCESS_PRIV
 * take a spinlock that pool_init() never initialised (it clears data_t.mutex only when
 * access != PRIV, while pool_pop_wait()/pool_pop_timedwait() are installed for every access
 * mode and call thread_queue_acquire_spinlock_if_not_empty(&queue, &mutex)).
 * data_t comes from malloc: whenever that memory is not zero the call spins for ever on a
 * NON-EMPTY pool (the lock looks taken and nobody will ever release it).
 *
 *   gcc f8_priv_pop_wait.c -I/repo/src/include <libabt.a> -lpthread -lm -o f8
 *   MALLOC_PERTURB_=165 ./f8 fifo      -> "HANG: pop_wait on a non-empty PRIV pool did not return"
 *   MALLOC_PERTURB_=165 ./f8 randws    -> same;   ./f8 fifo_wait -> "ok"
 * (under ASan the allocator poisons fresh memory itself; no MALLOC_PERTURB_ needed) */
#include <abt.h>
#include <stdio.h>
#include <stdlib.h>
#include <string.h>
#include <signal.h>
#include <unistd.h>

static void never_run(void *arg) { (void)arg; }

static void on_alarm(int sig)
{
    (void)sig;
    static const char msg[] = "HANG: pop_wait on a non-empty PRIV pool did not return\n";
    if (write(1, msg, sizeof msg - 1)) {}
    _exit(1);
}

int main(int argc, char **argv)
{
    ABT_pool_kind kind = ABT_POOL_FIFO;
    ABT_pool pool;
    ABT_thread t, got = ABT_THREAD_NULL;
    if (argc > 1 && !strcmp(argv[1], "randws"))
        kind = ABT_POOL_RANDWS;
    if (argc > 1 && !strcmp(argv[1], "fifo_wait"))
        kind = ABT_POOL_FIFO_WAIT;
    ABT_init(0, NULL);
    ABT_pool_create_basic(kind, ABT_POOL_ACCESS_PRIV, ABT_FALSE, &pool);
    ABT_thread_create(pool, never_run, NULL, ABT_THREAD_ATTR_NULL, &t);
    signal(SIGALRM, on_alarm);
    alarm(3);
    ABT_pool_pop_wait_thread(pool, &got, 0.01);
    alarm(0);
    printf(got == t ? "ok\n" : "pop_wait returned another unit / nothing\n");
    return got == t ? 0 : 2;
}
