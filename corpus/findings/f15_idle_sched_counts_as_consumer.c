/* a scheduler object that exists but is used by nobody counts as a consumer of its pools:
 * the only stream that schedules pool p terminates at join while a ULT of p is blocked */
#include <abt.h>
#include <stdio.h>
#include <unistd.h>
#include <pthread.h>
static ABT_eventual ev;
static volatile int started, finished;
static void fn(void *a) { (void)a; started = 1; ABT_eventual_wait(ev, NULL); finished = 1; }
static void *setter(void *a) { (void)a; usleep(300000); ABT_eventual_set(ev, NULL, 0); return NULL; }
int main(int argc, char **argv)
{
    int with_idle = argc > 1;
    ABT_init(0, NULL);
    ABT_pool p;
    ABT_sched idle = ABT_SCHED_NULL;
    ABT_xstream x;
    ABT_eventual_create(0, &ev);
    ABT_pool_create_basic(ABT_POOL_FIFO, ABT_POOL_ACCESS_MPMC, ABT_FALSE, &p);
    if (with_idle) {
        /* e.g. prepared for a stream that is created later, or left over from a freed stream */
        ABT_sched_config cfg;
        ABT_sched_config_create(&cfg, ABT_sched_config_automatic, ABT_FALSE, ABT_sched_config_var_end);
        ABT_sched_create_basic(ABT_SCHED_BASIC, 1, &p, cfg, &idle);
        ABT_sched_config_free(&cfg);
    }
    ABT_xstream_create_basic(ABT_SCHED_BASIC, 1, &p, ABT_SCHED_CONFIG_NULL, &x);
    ABT_thread_create(p, fn, NULL, ABT_THREAD_ATTR_NULL, NULL);
    while (!started) usleep(1000);
    size_t tot = 0, sz = 9;
    do { ABT_pool_get_total_size(p, &tot); ABT_pool_get_size(p, &sz); } while (!(tot == 1 && sz == 0));
    pthread_t t; pthread_create(&t, NULL, setter, NULL);
    int rc = ABT_xstream_join(x);
    int f = finished;
    printf("idle sched=%d: join rc=%d, unit blocked in the stream's pool finished at return of join: %d\n", with_idle, rc, f);
    pthread_join(t, NULL);
    return f ? 0 : 1;
}
