/* C18-A: a failed ABT_pool_add_sched() frees the caller's scheduler.
 * A user-defined pool whose create_unit callback reports failure (returns ABT_UNIT_NULL, e.g. because its
 * own allocation failed) makes ythread_create() fail after the scheduler has been registered under
 * g_thread_sched_key; the failure branch calls ABTI_ktable_free(), whose destructor for that key
 * (thread_key_destructor_stackable_sched) frees the *caller's* automatic scheduler.  ABT_pool_add_sched()
 * then writes p_sched->used into freed memory and returns an error; the handle the caller still holds dangles.
 * Build:  gcc -g -fsanitize=address -DHAVE_CONFIG_H -I/repo/src/include c18a_add_sched_unit_failure.c <libabt.a (san)> -lpthread -lm
 * Expected on the unchanged tree: AddressSanitizer heap-use-after-free (or a double free in ABT_sched_free). */
#include <abt.h>
#include <stdio.h>
#include <stdlib.h>

static ABT_unit create_unit(ABT_pool p, ABT_thread t) { (void)p; (void)t; return ABT_UNIT_NULL; }
static void free_unit(ABT_pool p, ABT_unit u) { (void)p; (void)u; }
static ABT_bool is_empty(ABT_pool p) { (void)p; return ABT_TRUE; }
static ABT_thread pop(ABT_pool p, ABT_pool_context c) { (void)p; (void)c; return ABT_THREAD_NULL; }
static void push(ABT_pool p, ABT_unit u, ABT_pool_context c) { (void)p; (void)u; (void)c; }

int main(void)
{
    ABT_pool_user_def def;
    ABT_pool pool;
    ABT_sched sched;
    ABT_pool none = ABT_POOL_NULL;
    ABT_init(0, NULL);
    ABT_pool_user_def_create(create_unit, free_unit, is_empty, pop, push, &def);
    ABT_pool_create(def, ABT_POOL_CONFIG_NULL, &pool);
    ABT_sched_create_basic(ABT_SCHED_BASIC, 1, &none, ABT_SCHED_CONFIG_NULL, &sched);
    int rc = ABT_pool_add_sched(pool, sched);
    printf("ABT_pool_add_sched -> %d (an error is expected)\n", rc);
    rc = ABT_sched_free(&sched); /* the caller still owns sched after the error */
    printf("ABT_sched_free -> %d\n", rc);
    ABT_pool_free(&pool);
    ABT_pool_user_def_free(&def);
    ABT_finalize();
    return 0;
}
