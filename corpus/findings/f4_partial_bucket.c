/* F4 (C15): mem_pool_return_partial_bucket computes the size of the new partial
 * bucket as per_bucket - (partial + bucket) instead of (partial + bucket) - per_bucket.
 * White box: 4 headers per bucket; local pool A takes a bucket, keeps 1 block, is
 * destroyed (partial = 3); local pool B takes a bucket, keeps 2, destroyed (3+2 = 5
 * >= 4): one full bucket goes back, 1 header must remain in partial_bucket. */
#include "abti.h"
#include <stdio.h>
int main(void)
{
    ABTI_mem_pool_global_pool g;
    ABTU_MEM_LARGEPAGE_TYPE req[1] = { ABTU_MEM_LARGEPAGE_MALLOC };
    ABTI_mem_pool_init_global_pool(&g, 4, 128, 0, 4096, req, 1, 64, NULL);
    ABTI_mem_pool_local_pool a, b;
    void *pa[4], *pb[4];
    if (ABTI_mem_pool_init_local_pool(&a, &g)) return 2;
    ABTI_mem_pool_alloc(&a, &pa[0]);
    ABTI_mem_pool_destroy_local_pool(&a);
    long p1 = g.partial_bucket ? (long)g.partial_bucket->bucket_info.num_headers : 0;
    if (ABTI_mem_pool_init_local_pool(&b, &g)) return 2;
    ABTI_mem_pool_alloc(&b, &pb[0]);
    ABTI_mem_pool_alloc(&b, &pb[1]);
    ABTI_mem_pool_destroy_local_pool(&b);
    long p2 = g.partial_bucket ? (long)g.partial_bucket->bucket_info.num_headers : 0;
    /* count the chain really hanging off partial_bucket */
    long chain = 0; ABTI_mem_pool_header *h = g.partial_bucket;
    while (h && chain < 100) { chain++; h = h->p_next; }
    printf("partial after A=%ld after B=%ld\n", p1, p2);
    return (p1 == 3 && p2 == 1) ? 0 : 1;
}
