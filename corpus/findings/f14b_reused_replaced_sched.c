/* a non-automatic scheduler that was replaced as main scheduler keeps ABTI_SCHED_REQ_REPLACE and its
 * p_replace_sched / p_replace_waiter; using it for a new stream makes that stream "replace" it again by the other
 * stream's current scheduler and resume the (terminated) waiter */
#include <abt.h>
#include <stdio.h>
#include <unistd.h>
static ABT_xstream es1;
static ABT_pool p1, p2, p3;
static volatile int ran;
static void repl(void *a) { (void)a; ABT_xstream_set_main_sched_basic(es1, ABT_SCHED_BASIC, 1, &p2); }
static void fn(void *a) { (void)a; ran = 1; }
int main(void)
{
    ABT_sched s; ABT_xstream es2; ABT_thread t; ABT_sched_config cfg;
    ABT_init(0, NULL);
    ABT_pool_create_basic(ABT_POOL_FIFO, ABT_POOL_ACCESS_MPMC, ABT_FALSE, &p1);
    ABT_pool_create_basic(ABT_POOL_FIFO, ABT_POOL_ACCESS_MPMC, ABT_FALSE, &p2);
    ABT_sched_config_create(&cfg, ABT_sched_config_automatic, ABT_FALSE, ABT_sched_config_var_end);
    ABT_sched_create_basic(ABT_SCHED_BASIC, 1, &p1, cfg, &s);
    ABT_sched_config_free(&cfg);
    ABT_xstream_create(s, &es1);
    ABT_thread_create(p1, repl, NULL, ABT_THREAD_ATTR_NULL, &t);
    ABT_thread_free(&t);                       /* es1 now runs a BASIC scheduler over p2; s is unused again */
    int rc = ABT_xstream_create(s, &es2);      /* accepted: s->used == NOT_USED */
    printf("create es2 with the replaced scheduler rc=%d\n", rc);
    usleep(200000);
    ABT_thread_create(p1, fn, NULL, ABT_THREAD_ATTR_NULL, NULL);
    usleep(300000);
    ABT_sched m1, m2; ABT_xstream_get_main_sched(es1, &m1); ABT_xstream_get_main_sched(es2, &m2);
    printf("unit pushed to es2's pool ran: %d; es1 and es2 have the same main scheduler: %d\n", ran, m1 == m2);
    fflush(stdout);
    ABT_xstream_join(es2); ABT_xstream_join(es1);
    printf("joined\n");
    return ran ? 0 : 1;
}
