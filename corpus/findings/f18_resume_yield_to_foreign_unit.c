/* a suspended ULT of pool p1 (scheduled only by stream x1) that is resumed by ABT_self_resume_yield_to from a ULT of another
 * stream runs there while it is counted nowhere: p1 is empty, its blocked count is back to 0, so the join of x1 returns while
 * the unit is still running (and a later yield would push it into the pool of a terminated stream).
 * argv[1] = "1": resume through ABT_self_resume_yield_to on the primary stream (finding); without: ABT_thread_resume (control). */
#include <abt.h>
#include <stdio.h>
#include <unistd.h>
#include <time.h>
static ABT_xstream x1;
static ABT_pool p0, p1;
static ABT_thread u1;
static volatile int directed, join_called, u1_resumed, u1_finished, seen_terminated, u1_xrank = -1;
static double now(void)
{
    struct timespec ts;
    clock_gettime(CLOCK_MONOTONIC, &ts);
    return ts.tv_sec + ts.tv_nsec * 1e-9;
}
static void u1_fn(void *a)
{
    (void)a;
    ABT_self_suspend();
    int r = -1;
    ABT_xstream_self_rank(&r);
    u1_xrank = r;
    u1_resumed = 1;
    /* keep running (no yield) for a while: does the stream whose pool this unit belongs to terminate meanwhile? */
    double t0 = now();
    while (now() - t0 < 2.0) {
        ABT_xstream_state st;
        ABT_xstream_get_state(x1, &st);
        if (st == ABT_XSTREAM_STATE_TERMINATED) {
            seen_terminated = 1;
            break;
        }
    }
    u1_finished = 1;
}
static void resumer_fn(void *a)
{
    (void)a;
    ABT_thread_state st;
    do {
        ABT_thread_yield();
        ABT_thread_get_state(u1, &st);
    } while (st != ABT_THREAD_STATE_BLOCKED || !join_called);
    for (int i = 0; i < 20; i++)
        ABT_thread_yield(); /* the primary ULT is blocked in ABT_xstream_join by now */
    if (directed)
        ABT_self_resume_yield_to(u1);
    else
        ABT_thread_resume(u1);
}
int main(int argc, char **argv)
{
    directed = argc > 1;
    ABT_init(0, NULL);
    ABT_xstream x0;
    ABT_xstream_self(&x0);
    ABT_xstream_get_main_pools(x0, 1, &p0);
    ABT_pool_create_basic(ABT_POOL_FIFO, ABT_POOL_ACCESS_MPMC, ABT_TRUE, &p1);
    ABT_xstream_create_basic(ABT_SCHED_BASIC, 1, &p1, ABT_SCHED_CONFIG_NULL, &x1);
    ABT_thread_create(p1, u1_fn, NULL, ABT_THREAD_ATTR_NULL, &u1);
    ABT_thread r;
    ABT_thread_create(p0, resumer_fn, NULL, ABT_THREAD_ATTR_NULL, &r);
    join_called = 1;
    int rc = ABT_xstream_join(x1);
    int fin = u1_finished;
    printf("directed=%d: ABT_xstream_join rc=%d; unit of the stream's pool: resumed=%d on stream %d, finished at return of join: %d, "
           "saw the stream TERMINATED while running: %d\n",
           directed, rc, u1_resumed, u1_xrank, fin, seen_terminated);
    ABT_thread_free(&r);
    ABT_thread_free(&u1);
    ABT_xstream_free(&x1);
    ABT_finalize();
    return (fin && !seen_terminated) ? 0 : 1;
}
