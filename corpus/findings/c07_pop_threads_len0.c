/* ABT_pool_pop_threads(pool, threads, 0, &num): the documentation says "The number of popped work units is set to num",
 * but pool_pop_threads_ex() (src/pool/pool.c) skips the pool call when len == 0 and never writes *num. */
#include <abt.h>
#include <stdio.h>
int main(void)
{
    ABT_init(0, NULL);
    ABT_pool pool;
    ABT_pool_create_basic(ABT_POOL_FIFO, ABT_POOL_ACCESS_MPMC, ABT_FALSE, &pool);
    size_t num = 12345;
    ABT_thread dummy[1];
    int rc = ABT_pool_pop_threads(pool, dummy, 0, &num);
    printf("rc=%d num=%zu (expected 0)\n", rc, num);
    ABT_pool_free(&pool);
    ABT_finalize();
    return num == 0 ? 0 : 1;
}
