/* Candidate finding (C16 failure path / C18): ABTI_ktable_set() dereferences NULL when the
 * caller that took the creation lock (NULL -> LOCKED) fails to allocate the table.
 *
 *   creator:  CAS(NULL -> LOCKED) ok; ABTI_ktable_create() fails; release-store NULL; return error
 *   waiter :  CAS fails; load == LOCKED; spins `while (p_ktable == LOCKED)`; the loop ends when it
 *             reads NULL; `break` leaves the outer loop with p_ktable == NULL;
 *             ABTI_ktable_set_impl(NULL, ...) -> SIGSEGV.
 * (Props.C16.ktable_create_race_failure_path is this trace in the model.)
 *
 * Two external pthreads call ABT_thread_set_specific() on the same work unit (external threads
 * allocate with ABTU_malloc).  posix_memalign is wrapped: the first allocation made by the
 * creator thread waits until the waiter is spinning, then fails.
 *
 * build: gcc -O1 -g -DHAVE_CONFIG_H -I/repo/src/include -I/repo/src f9_ktable_create_fail_race.c \
 *        <libabt.a> -Wl,--wrap=posix_memalign -lpthread -lm
 * expected on the unchanged tree: "waiter: ..." never printed, process dies with SIGSEGV. */
#include "abti.h"
#include <pthread.h>
#include <stdio.h>
#include <unistd.h>

int __real_posix_memalign(void **p, size_t a, size_t n);
static __thread int is_creator;
static volatile int creator_in_alloc, waiter_started;

int __wrap_posix_memalign(void **p, size_t a, size_t n)
{
    if (is_creator && !creator_in_alloc) {
        creator_in_alloc = 1;
        while (!waiter_started)
            ;
        usleep(200000); /* let the waiter reach its spin loop */
        return 12;      /* ENOMEM */
    }
    return __real_posix_memalign(p, a, n);
}

static ABT_thread target;
static ABT_key key;

static void *creator(void *arg)
{
    (void)arg;
    is_creator = 1;
    int r = ABT_thread_set_specific(target, key, (void *)0x10);
    is_creator = 0;
    printf("creator: set_specific returned %d (ABT_ERR_MEM=%d)\n", r, ABT_ERR_MEM);
    fflush(stdout);
    return NULL;
}
static void *waiter(void *arg)
{
    (void)arg;
    while (!creator_in_alloc)
        ;
    waiter_started = 1;
    int r = ABT_thread_set_specific(target, key, (void *)0x20);
    printf("waiter: set_specific returned %d\n", r);
    fflush(stdout);
    return NULL;
}
static void noop(void *a) { (void)a; }

int main(void)
{
    ABT_init(0, NULL);
    ABT_pool pool;
    ABT_pool_create_basic(ABT_POOL_FIFO, ABT_POOL_ACCESS_MPMC, ABT_FALSE, &pool);
    ABT_thread_create(pool, noop, NULL, ABT_THREAD_ATTR_NULL, &target);
    ABT_key_create(NULL, &key);
    pthread_t a, b;
    pthread_create(&a, NULL, creator, NULL);
    pthread_create(&b, NULL, waiter, NULL);
    pthread_join(a, NULL);
    pthread_join(b, NULL);
    printf("both returned\n");
    return 0;
}
