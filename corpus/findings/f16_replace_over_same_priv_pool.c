/* ABT_xstream_set_main_sched_basic() with a new scheduler whose first pool is a PRIV pool that the current main
 * scheduler also uses never completes: the caller is re-associated with that pool and counted there as blocked; the
 * current scheduler lists the pool too, and for a PRIV pool blocked units always count in ABTI_sched_has_unit, so it
 * never stops and the pending replacement is never carried out.  Everything happens on the primary stream (no access
 * mode is violated).   usage: replace_priv [mpmc]   (mpmc = control: completes) */
#include <abt.h>
#include <stdio.h>
#include <stdlib.h>
#include <unistd.h>
#include <pthread.h>
static volatile int done;
static void *wd(void *a) { (void)a; sleep(5); if (!done) { printf("HANG: the second replacement has not completed after 5 s\n"); fflush(stdout); _exit(3); } return NULL; }
int main(int argc, char **argv)
{
    pthread_t t;
    ABT_pool p;
    ABT_xstream self;
    ABT_init(0, NULL);
    ABT_xstream_self(&self);
    ABT_pool_create_basic(ABT_POOL_FIFO, argc > 1 ? ABT_POOL_ACCESS_MPMC : ABT_POOL_ACCESS_PRIV, ABT_FALSE, &p);
    int rc = ABT_xstream_set_main_sched_basic(self, ABT_SCHED_BASIC, 1, &p);
    printf("first replacement (default scheduler -> BASIC over the pool) rc=%d\n", rc);
    pthread_create(&t, NULL, wd, NULL);
    rc = ABT_xstream_set_main_sched_basic(self, ABT_SCHED_PRIO, 1, &p);
    done = 1;
    printf("second replacement (BASIC -> PRIO over the same pool) rc=%d\n", rc);
    return 0;
}
