/* F7 (C17): two ULTs of one secondary stream each call
 * ABT_xstream_set_main_sched_basic(self-stream, ABT_SCHED_BASIC, 1, &X_i) back to back.
 * The first caller (A) suspends with its replacement scheduler pending; the old main
 * scheduler still has ULT B in its pool, runs it, and B requests a replacement too.
 * xstream_update_main_sched() ("overwrite" branch) discards A's pending scheduler and
 * resumes A by pushing it to a pool of that discarded scheduler:
 *   user pools      (default)      -> A is stranded in X0 which nobody serves: done=01, X0 size 1
 *   automatic pools (argv[1]=auto) -> the push goes to a freed pool (crash / corruption)
 * Exit 0 iff both callers returned from set_main_sched_basic and the stream still runs work. */
#include <abt.h>
#include <stdio.h>
#include <string.h>
#include <unistd.h>

static ABT_xstream S;
static ABT_pool P, X[2];
static volatile int done[2], rcs[2] = { -1, -1 }, after;
static int automatic;

static void after_fn(void *a) { (void)a; after = 1; }

static void caller(void *arg)
{
    int me = (int)(long)arg;
    if (me == 0) /* B is pending in the old scheduler's pool when A asks for the replacement */
        ABT_thread_create(P, caller, (void *)1L, ABT_THREAD_ATTR_NULL, NULL);
    if (automatic)
        rcs[me] = ABT_xstream_set_main_sched_basic(S, ABT_SCHED_BASIC, 0, NULL);
    else
        rcs[me] = ABT_xstream_set_main_sched_basic(S, ABT_SCHED_BASIC, 1, &X[me]);
    __sync_synchronize();
    done[me] = 1;
}

int main(int argc, char **argv)
{
    automatic = argc > 1 && strcmp(argv[1], "auto") == 0;
    setvbuf(stdout, NULL, _IOLBF, 0);
    ABT_init(0, 0);
    ABT_pool_create_basic(ABT_POOL_FIFO, ABT_POOL_ACCESS_MPMC, ABT_FALSE, &P);
    ABT_pool_create_basic(ABT_POOL_FIFO, ABT_POOL_ACCESS_MPMC, ABT_FALSE, &X[0]);
    ABT_pool_create_basic(ABT_POOL_FIFO, ABT_POOL_ACCESS_MPMC, ABT_FALSE, &X[1]);
    ABT_sched s0;
    ABT_sched_create_basic(ABT_SCHED_BASIC, 1, &P, ABT_SCHED_CONFIG_NULL, &s0);
    ABT_xstream_create(s0, &S);
    ABT_thread_create(P, caller, (void *)0L, ABT_THREAD_ATTR_NULL, NULL);
    int i;
    for (i = 0; i < 1500 && !(done[0] && done[1]); i++)
        usleep(1000);
    size_t x0 = 99, x1 = 99;
    if (!automatic) {
        ABT_pool_get_total_size(X[0], &x0);
        ABT_pool_get_total_size(X[1], &x1);
    }
    /* does the stream still run work under whatever scheduler it ended up with? */
    ABT_pool cur = ABT_POOL_NULL;
    ABT_xstream_get_main_pools(S, 1, &cur);
    if (cur != ABT_POOL_NULL)
        ABT_thread_create(cur, after_fn, NULL, ABT_THREAD_ATTR_NULL, NULL);
    for (i = 0; i < 1500 && !after; i++)
        usleep(1000);
    printf("f7 pools=%s done=%d%d rc=%d,%d X0.size=%zu X1.size=%zu stream-runs-work=%d\n",
           automatic ? "automatic" : "user", done[0], done[1], rcs[0], rcs[1], x0, x1, after);
    if (done[0] && done[1] && after) {
        ABT_xstream_free(&S);
        ABT_finalize();
        return 0;
    }
    fflush(stdout);
    _exit(1); /* a stranded ULT cannot be joined: do not try to finalize */
}
