/* after f7cc1b7: a non-automatic scheduler that was replaced keeps p_replace_sched / p_replace_waiter.  Reused as the main
 * scheduler of another stream and replaced there again, xstream_update_main_sched takes the "overwrite" branch:
 * it discards+frees the stale p_replace_sched (the scheduler that now RUNS the first stream) and resumes the stale waiter. */
#include <abt.h>
#include <stdio.h>
#include <unistd.h>
static ABT_xstream es1, es2;
static ABT_pool p1, p2, p3;
static volatile int ran;
static void repl1(void *a) { (void)a; ABT_xstream_set_main_sched_basic(es1, ABT_SCHED_BASIC, 1, &p2); }
static void repl2(void *a) { (void)a; int rc = ABT_xstream_set_main_sched_basic(es2, ABT_SCHED_BASIC, 1, &p3); printf("second replacement rc=%d\n", rc); }
static void fn(void *a) { (void)a; ran = 1; }
int main(void)
{
    ABT_sched s; ABT_thread t; ABT_sched_config cfg;
    ABT_init(0, NULL);
    ABT_pool_create_basic(ABT_POOL_FIFO, ABT_POOL_ACCESS_MPMC, ABT_FALSE, &p1);
    ABT_pool_create_basic(ABT_POOL_FIFO, ABT_POOL_ACCESS_MPMC, ABT_FALSE, &p2);
    ABT_pool_create_basic(ABT_POOL_FIFO, ABT_POOL_ACCESS_MPMC, ABT_FALSE, &p3);
    ABT_sched_config_create(&cfg, ABT_sched_config_automatic, ABT_FALSE, ABT_sched_config_var_end);
    ABT_sched_create_basic(ABT_SCHED_BASIC, 1, &p1, cfg, &s);
    ABT_sched_config_free(&cfg);
    ABT_xstream_create(s, &es1);
    ABT_thread_create(p1, repl1, NULL, ABT_THREAD_ATTR_NULL, &t);
    ABT_thread_free(&t);                       /* es1 runs a BASIC scheduler B over p2; s is unused again */
    printf("create es2 with the replaced scheduler rc=%d\n", ABT_xstream_create(s, &es2));
    ABT_thread_create(p1, repl2, NULL, ABT_THREAD_ATTR_NULL, &t);
    ABT_thread_free(&t);
    ABT_thread_create(p2, fn, NULL, ABT_THREAD_ATTR_NULL, &t);   /* es1 must still serve p2 */
    ABT_thread_free(&t);
    printf("unit on es1's pool ran: %d\n", ran); fflush(stdout);
    ABT_xstream_join(es2); ABT_xstream_join(es1);
    printf("joined\n");
    return ran ? 0 : 1;
}
