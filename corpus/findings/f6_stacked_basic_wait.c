/* F6 (C01): a stacked BASIC_WAIT scheduler leaves sched_run() after running the first
 * unit obtained through pop_wait, with units still in its pool.
 * Unfixed tree: prints ran<3 and a non-empty pool; never runs the remaining units. */
#include <abt.h>
#include <pthread.h>
#include <stdio.h>
#include <unistd.h>
static int ran;
static ABT_pool P;
static void fn(void *a) { (void)a; __sync_fetch_and_add(&ran, 1); }
static void *pusher(void *a)
{
    (void)a;
    usleep(20000);
    for (int i = 0; i < 3; i++)
        ABT_thread_create(P, fn, 0, ABT_THREAD_ATTR_NULL, NULL);
    return 0;
}
int main(void)
{
    ABT_init(0, 0);
    ABT_xstream xs; ABT_pool mainpool; ABT_xstream_self(&xs); ABT_xstream_get_main_pools(xs, 1, &mainpool);
    ABT_pool_create_basic(ABT_POOL_FIFO_WAIT, ABT_POOL_ACCESS_MPMC, ABT_FALSE, &P);
    ABT_sched s; ABT_sched_create_basic(ABT_SCHED_BASIC_WAIT, 1, &P, ABT_SCHED_CONFIG_NULL, &s);
    pthread_t th; pthread_create(&th, 0, pusher, 0);
    ABT_pool_add_sched(mainpool, s);
    /* let the stacked scheduler run; ask it to finish once it has drained */
    for (int i = 0; i < 200 && ran < 3; i++) { ABT_thread_yield(); usleep(1000); }
    pthread_join(th, 0);
    size_t left; ABT_pool_get_size(P, &left);
    printf("ran=%d left=%zu\n", ran, left); fflush(stdout);
    int bad = !(ran == 3 && left == 0);
    ABT_sched_finish(s);
    if (!bad) { ABT_thread_yield(); }
    if (bad) _exit(1);
    ABT_sched_free(&s);
    ABT_pool_free(&P);
    ABT_finalize();
    return 0;
}
