/* reuse of a non-automatic scheduler after its stream was freed: stale FINISH request? */
#include <abt.h>
#include <stdio.h>
#include <unistd.h>
static volatile int ran;
static void fn(void *a) { (void)a; ran = 1; }
int main(void)
{
    ABT_init(0, NULL);
    ABT_pool p;
    ABT_sched s;
    ABT_xstream x;
    ABT_pool_create_basic(ABT_POOL_FIFO, ABT_POOL_ACCESS_MPMC, ABT_FALSE, &p);
    ABT_sched_config cfg;
    ABT_sched_config_create(&cfg, ABT_sched_config_automatic, ABT_FALSE, ABT_sched_config_var_end);
    ABT_sched_create_basic(ABT_SCHED_BASIC, 1, &p, cfg, &s);
    ABT_sched_config_free(&cfg);
    int rc = ABT_xstream_create(s, &x);
    printf("create1 %d\n", rc);
    rc = ABT_xstream_free(&x);
    printf("free1 %d\n", rc);
    rc = ABT_xstream_create(s, &x);
    printf("create2 %d\n", rc);
    usleep(200000);
    ABT_xstream_state st;
    ABT_xstream_get_state(x, &st);
    printf("state of the new stream after 200 ms without any request: %s\n", st == ABT_XSTREAM_STATE_RUNNING ? "RUNNING" : "TERMINATED");
    rc = ABT_thread_create(p, fn, NULL, ABT_THREAD_ATTR_NULL, NULL);
    usleep(200000);
    printf("unit pushed to its pool ran: %d\n", ran);
    rc = ABT_xstream_join(x);
    printf("join %d ran=%d\n", rc, ran);
    return ran ? 0 : 1;
}
