/* F3 (C06): a ULT that suspends with a pending migration request is counted as blocked
 * in its old pool, but the resume decrements the new pool's counter.
 * Unfixed tree: pool1 total_size stays 1 (stream join would hang), pool2 total_size wraps. */
#include <abt.h>
#include <stdio.h>
#include <unistd.h>
static ABT_pool p1, p2;
static ABT_thread victim;
static volatile int suspended, done;
static void fn(void *a)
{
    (void)a;
    ABT_thread self; ABT_thread_self(&self);
    ABT_thread_migrate_to_pool(self, p2);
    suspended = 1;
    ABT_self_suspend();
    done = 1;
}
int main(void)
{
    ABT_init(0, 0);
    ABT_xstream x1, x2;
    ABT_pool_create_basic(ABT_POOL_FIFO, ABT_POOL_ACCESS_MPMC, ABT_TRUE, &p1);
    ABT_pool_create_basic(ABT_POOL_FIFO, ABT_POOL_ACCESS_MPMC, ABT_TRUE, &p2);
    ABT_xstream_create_basic(ABT_SCHED_BASIC, 1, &p1, ABT_SCHED_CONFIG_NULL, &x1);
    ABT_xstream_create_basic(ABT_SCHED_BASIC, 1, &p2, ABT_SCHED_CONFIG_NULL, &x2);
    ABT_thread_create(p1, fn, 0, ABT_THREAD_ATTR_NULL, &victim);
    ABT_thread_state st;
    do { usleep(1000); ABT_thread_get_state(victim, &st); } while (!(suspended && st == ABT_THREAD_STATE_BLOCKED));
    size_t t1, t2;
    ABT_pool_get_total_size(p1, &t1); ABT_pool_get_total_size(p2, &t2);
    printf("blocked: total p1=%ld p2=%ld\n", (long)t1, (long)t2);
    ABT_thread_resume(victim);
    ABT_thread_join(victim);
    ABT_pool_get_total_size(p1, &t1); ABT_pool_get_total_size(p2, &t2);
    printf("after join: total p1=%ld p2=%ld done=%d\n", (long)t1, (long)t2, done); fflush(stdout);
    if (t1 != 0 || t2 != 0) _exit(1);
    ABT_thread_free(&victim);
    ABT_xstream_join(x1); ABT_xstream_free(&x1);
    ABT_xstream_join(x2); ABT_xstream_free(&x2);
    ABT_finalize();
    return 0;
}
