/* White-box differential driver for src/arch/abtd_env.c (C20).
 * Includes the .c file (its definitions then replace the archive member).
 * Lines: env cores=<n> page=<n> NAME=<hex> ...
 * Every ABT_* variable is removed from the environment, the listed ones are set,
 * the tree's ABTD_env_init() runs on a fresh ABTI_global, and every setting the
 * generated table knows is printed in alphabetical order (`driver env` prints the same). */
#include "arch/abtd_env.c"
#include <stdio.h>
#include "wb_hex.h"

extern char **environ;

static void clear_abt_env(void)
{
    for (;;) {
        int found = 0;
        char **e;
        for (e = environ; e && *e; e++) {
            if (strncmp(*e, "ABT_", 4) == 0) {
                char name[256];
                const char *eq = strchr(*e, '=');
                size_t n = eq ? (size_t)(eq - *e) : strlen(*e);
                if (n >= sizeof name)
                    n = sizeof name - 1;
                memcpy(name, *e, n);
                name[n] = '\0';
                unsetenv(name);
                found = 1;
                break;
            }
        }
        if (!found)
            return;
    }
}

int main(void)
{
    setvbuf(stdout, NULL, _IOLBF, 0);
    static char line[1 << 20];
    while (fgets(line, sizeof line, stdin)) {
        if (line[0] == '\n')
            continue;
        char *save = NULL;
        char *tok = strtok_r(line, " \n", &save);
        if (!tok || strcmp(tok, "env") != 0) {
            printf("bad-op\n");
            continue;
        }
        clear_abt_env();
        int bad = 0, k = 0;
        while ((tok = strtok_r(NULL, " \n", &save))) {
            char *eq = strchr(tok, '=');
            if (!eq) {
                bad = 1;
                break;
            }
            *eq = '\0';
            if (k++ < 2)
                continue; /* cores= page= are for the model only */
            char *v = wb_unhex(eq + 1);
            if (!v) {
                bad = 1;
                break;
            }
            setenv(tok, v, 1);
            free(v);
        }
        if (bad || k < 2) {
            printf("bad-op\n");
            continue;
        }
        ABTI_global *g = (ABTI_global *)calloc(1, sizeof(ABTI_global));
        ABTD_env_init(g);
        printf("HUGE_PAGE_SIZE=%zu", g->huge_page_size);
        printf(" KEY_TABLE_SIZE=%u", g->key_table_size);
        printf(" MAX_NUM_XSTREAMS=%d", g->max_xstreams);
        printf(" MEM_MAX_NUM_DESCS=%u", g->mem_max_descs);
        printf(" MEM_MAX_NUM_STACKS=%u", g->mem_max_stacks);
        printf(" MEM_PAGE_SIZE=%zu", g->mem_page_size);
        printf(" MEM_STACK_PAGE_SIZE=%zu", g->mem_sp_size);
        printf(" MUTEX_MAX_HANDOVERS=%u", g->mutex_max_handovers);
        printf(" MUTEX_MAX_WAKEUPS=%u", g->mutex_max_wakeups);
        printf(" PRINT_CONFIG=%d", (int)g->print_config);
        printf(" PRINT_RAW_STACK=%d", (int)g->print_raw_stack);
        printf(" SCHED_EVENT_FREQ=%u", g->sched_event_freq);
        printf(" SCHED_SLEEP_NSEC=%llu", (unsigned long long)g->sched_sleep_nsec);
        printf(" SCHED_STACKSIZE=%zu", g->sched_stacksize);
        printf(" STACK_OVERFLOW_CHECK=%d", (int)g->stack_guard_kind);
        printf(" SYS_PAGE_SIZE=%zu", g->sys_page_size);
        printf(" THREAD_STACKSIZE=%zu", g->thread_stacksize);
        printf(" USE_DEBUG=%d", (int)g->use_debug);
        printf(" USE_LOG=%d\n", (int)g->use_logging);
        if (g->set_affinity)
            ABTD_affinity_finalize(g);
        free(g);
    }
    return 0;
}
