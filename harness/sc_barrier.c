/* vsched scenario family for C08: ABT_barrier (wait / reinit, mixed waiter kinds, fast re-entry) and
 * ABT_xstream_barrier.
 * usage: sc_barrier <seed> <mode> <log> <family bar|xbar> <nes> <nw1> <extra1> <rounds1> <nw2> <extra2> <rounds2> [ext%] [ntask] [reinit]
 *   bar : phase 1 runs nw1+extra1 waiters (ULT / external thread) on B0 (num_waiters = nw1, 1 .. ~150); together they make
 *         nw1*rounds1 calls of ABT_barrier_wait, i.e. rounds1 barrier rounds: a waiter that has returned takes the next
 *         call from a shared budget (with extra1 = 0 every waiter takes part in every round), plus ntask tasklets, created
 *         at random positions among the waiters, whose calls (1-2 each) must be rejected whatever their arrival position;
 *         then ABT_barrier_reinit(B0, nw2) (preceded by a reinit with 0 that must fail) and phase 2.
 *         reinit = 0: the main ULT re-initialises after every phase-1 caller was joined;
 *         reinit = 1: the first caller that returns from the last round of phase 1 re-initialises at once, while the
 *                     slower waiters of that round are still leaving the barrier (the round is complete: counter = 0).
 *   xbar: <nes> <n> <create> <rounds>: n callers (one per stream / external threads, kinds mixed incl. tasklets) call
 *         ABT_xstream_barrier_wait rounds times on X0 created with num_waiters = create (0: = n; or 1: the guard).
 * Monitors are plain C counters: under vsched a statement sequence without a hook point is atomic. */
#include "sc_common.h"
#include <sched.h>

#define MAXR 64
#define MAXA 176 /* actors of this family (the large-barrier configurations need > 129 waiters) */
#define MAXEXT 40 /* external threads over the whole run (vsched controls at most 96 OS threads) */
static actor acts[MAXA];
static const char *family = "bar";
static ABT_barrier B0;
static ABT_xstream_barrier X0;

/* monitor state of the current phase */
static int m_nw;               /* num_waiters in effect */
static int m_rounds;           /* rounds in this phase (xbar: calls per waiter) */
static long m_budget;          /* calls still to be made in this phase (bar) */
static int m_exact;            /* 1: exactly m_nw waiters, so a waiter's r-th call belongs to round r */
static long m_calls, m_rets;   /* calls begun / returned */
static int m_arrived[MAXR];    /* per-round arrivals (m_exact only) */
static int m_left[MAXR];       /* per-round returns (m_exact only) */
static int m_reinit_inline;    /* 1: the first returner of the phase's last round re-initialises the barrier */
static int m_reinit_done;
static int m_next_nw;          /* num_waiters of the next phase */

static void relax(actor *a)
{
    if (a->kind == AK_ULT)
        ABT_thread_yield();
    else if (a->kind == AK_EXT)
        sched_yield();
}

static const char *rcname(int rc, char *buf)
{
    switch (rc) {
        case ABT_SUCCESS: return "ok";
        case ABT_ERR_BARRIER: return "ERR_BARRIER";
        case ABT_ERR_INV_ARG: return "ERR_INV_ARG";
        default: sprintf(buf, "rc%d", rc); return buf;
    }
}

/* the property monitor, run right after a wait returned */
static void after_return(actor *a, const char *obj, int r)
{
    m_rets++;
    /* nobody returns before the group of num_waiters callers it belongs to is complete: at any time the number of
     * returns is at most num_waiters * (complete groups of calls) */
    VSA_CHECK(m_rets <= (long)m_nw * (m_calls / m_nw),
              "%s: A%d returned from a wait early: %ld returns but only %ld calls begun (num_waiters=%d)", obj, a->id, m_rets,
              m_calls, m_nw);
    if (m_exact) {
        VSA_CHECK(m_arrived[r] == m_nw, "%s: A%d returned from round %d after only %d of %d arrivals", obj, a->id, r,
                  m_arrived[r], m_nw);
        m_left[r]++;
    }
}

/* ABT_barrier_reinit as the API documents it: a zero count is refused and changes nothing, then the real one */
static void do_reinit(int oldnw, int newnw)
{
    char b[16];
    int rc0 = ABT_barrier_reinit(B0, 0);
    vs_note("reinit B0 0 %s", rcname(rc0, b));
    VSA_CHECK(rc0 == ABT_ERR_INV_ARG, "ABT_barrier_reinit(0) returned %d", rc0);
    uint32_t got = 0;
    ABT_OK(ABT_barrier_get_num_waiters(B0, &got));
    VSA_CHECK((int)got == oldnw, "ABT_barrier_reinit(0) changed num_waiters to %u", got);
    int rc = ABT_barrier_reinit(B0, (uint32_t)newnw);
    vs_note("reinit B0 %d %s", newnw, rcname(rc, b));
    VSA_CHECK(rc == ABT_SUCCESS, "ABT_barrier_reinit returned %d", rc);
    ABT_OK(ABT_barrier_get_num_waiters(B0, &got));
    VSA_CHECK((int)got == newnw, "num_waiters after reinit is %u, expected %d", got, newnw);
}

static int b_migrate, b_early;
static void barrier_body(actor *a)
{
    char b[16];
    if (a->kind == AK_TASK) {
        /* 1.x API: a tasklet is refused, whatever its arrival position, and must not count as an arrival (the round
         * monitors of the real waiters and the deadlock detection see it if it does) */
        int ncalls = 1 + sc_rnd(2);
        for (int k = 0; k < ncalls; k++) {
            vs_log("apiCall wait B0");
            int rc = ABT_barrier_wait(B0);
            vs_note("apiRet wait B0 %s", rcname(rc, b));
            VSA_CHECK(rc == ABT_ERR_BARRIER, "ABT_barrier_wait by tasklet A%d returned %d, expected ABT_ERR_BARRIER", a->id, rc);
        }
        return;
    }
    if (b_migrate && a->kind == AK_ULT && a->es >= 1 && a->user == NULL && sc_rnd(3) == 0) {
        /* a migration request is pending when this waiter blocks in the barrier: the blocked count must follow it to the
         * new pool (only towards the primary stream's pool, whose stream outlives every other one) */
        ABT_thread self;
        ABT_OK(ABT_self_get_thread(&self));
        a->migrates = 1;
        ABT_OK(ABT_thread_migrate_to_pool(self, sc_pool[0]));
    }
    for (int r = 0;; r++) {
        /* take the next call from the budget (no hook point between the test and the decrement) */
        if (m_budget == 0)
            break;
        m_budget--;
        vs_log("apiCall wait B0");
        m_calls++;
        if (m_exact)
            m_arrived[r]++;
        int rc = ABT_barrier_wait(B0);
        after_return(a, "B0", r);
        vs_note("apiRet wait B0 %s", rcname(rc, b));
        VSA_CHECK(rc == ABT_SUCCESS, "ABT_barrier_wait returned %d", rc);
        if (m_reinit_inline && !m_reinit_done && m_rets > (long)m_nw * (m_rounds - 1)) {
            /* this return belongs to the last round of the phase: every call of the phase has been counted.  Once the
             * last arrival has left its critical section (counter reset, lock free) nobody is inside the barrier any
             * more; the other waiters of the round are still leaving.  (ABT_barrier_reinit requires counter = 0.) */
            ABTI_barrier *pb = ABTI_barrier_get_ptr(B0);
            if (pb->counter == 0 && pb->lock.val.val == 0) {
                m_reinit_done = 1;
                do_reinit(m_nw, m_next_nw);
            }
        }
        if (sc_rnd(3) == 0) /* mostly: fast re-entry */
            relax(a);
    }
}

static void xbarrier_body(actor *a)
{
    char b[16];
    for (int r = 0; r < m_rounds; r++) {
        vs_log("apiCall xwait X0");
        m_calls++;
        m_arrived[r]++;
        int rc = ABT_xstream_barrier_wait(X0);
        after_return(a, "X0", r);
        vs_note("apiRet xwait X0 %s", rcname(rc, b));
        VSA_CHECK(rc == ABT_SUCCESS, "ABT_xstream_barrier_wait returned %d", rc);
        if (a->kind == AK_ULT && sc_rnd(3) == 0)
            relax(a);
    }
}

/* the secondary streams are joined while the waiters of the last phase are still blocked in / leaving the barrier: a join
 * returns only after every work unit that lives in the pool only that stream serves has finished */
static void early_join(int lo, int hi, int nes)
{
    for (int x = 1; x < nes; x++) {
        vs_log("apiCall xstream_join X%d", x);
        ABT_OK(ABT_xstream_join(sc_xs[x]));
        vs_note("apiRet xstream_join X%d", x);
        for (int i = lo; i < hi; i++)
            if (acts[i].kind != AK_EXT && acts[i].es == x && !acts[i].migrates && acts[i].user == NULL)
                VSA_CHECK(acts[i].finished == 1, "ABT_xstream_join of X%d returned but A%d of its pool has started=%d finished=%d",
                          x, i, acts[i].started, acts[i].finished);
    }
}

/* own copies of sc_launch / sc_join_all working on an index range, so that actor ids stay unique over phases */
static void launch(int lo, int hi)
{
    for (int i = lo; i < hi; i++) {
        actor *a = &acts[i];
        a->id = i;
        ABT_pool pl = sc_pool[a->es];
        if (sc_shpool != ABT_POOL_NULL && a->kind != AK_EXT && a->es >= 1 && sc_rnd(2)) {
            pl = sc_shpool;
            a->user = (void *)1; /* lives in the pool that all secondary streams serve */
        }
        if (a->kind == AK_ULT) {
            ABT_OK(ABT_thread_create(pl, sc_actor_entry, a, ABT_THREAD_ATTR_NULL, &a->th));
            vsa_name_thread(a->th, "A%d", i);
        } else if (a->kind == AK_TASK) {
            ABT_OK(ABT_task_create(pl, sc_actor_entry, a, (ABT_task *)&a->th));
            vsa_name_thread(a->th, "A%d", i);
        } else {
            pthread_create(&a->pt, NULL, sc_actor_entry_pt, a);
        }
    }
}
static void join(int lo, int hi)
{
    for (int i = lo; i < hi; i++) {
        actor *a = &acts[i];
        if (a->kind == AK_EXT)
            continue;
        ABT_OK(ABT_thread_join(a->th));
        VSA_CHECK(a->finished == 1, "join of A%d returned but finished=%d", i, a->finished);
        vs_unname(ABTI_thread_get_ptr(a->th));
        ABT_OK(ABT_thread_free(&a->th));
    }
    for (int i = lo; i < hi; i++) {
        actor *a = &acts[i];
        if (a->kind == AK_EXT)
            pthread_join(a->pt, NULL);
        VSA_CHECK(a->started == 1 && a->finished == 1, "actor A%d started=%d finished=%d", i, a->started, a->finished);
    }
}

static void phase_reset(int nw, int extra, int rounds)
{
    m_nw = nw;
    m_rounds = rounds;
    m_budget = (long)nw * rounds;
    m_exact = (extra == 0);
    m_calls = m_rets = 0;
    memset(m_arrived, 0, sizeof m_arrived);
    memset(m_left, 0, sizeof m_left);
}
static void phase_end(const char *obj, long expected)
{
    VSA_CHECK(m_calls == expected && m_rets == m_calls, "%s: %ld calls, %ld returns, expected %ld", obj, m_calls, m_rets, expected);
    if (m_exact)
        for (int r = 0; r < m_rounds; r++)
            VSA_CHECK(m_left[r] == m_nw, "%s: round %d: %d of %d waiters returned", obj, r, m_left[r], m_nw);
}

int main(int argc, char **argv)
{
    char b[16];
    vsa_setup(argc, argv);
    if (vsa_argc > 0)
        family = vsa_argv[0];
    int nes = (int)vsa_param(1, 2);
    int nw[2] = { (int)vsa_param(2, 2), (int)vsa_param(5, 2) };
    int extra[2] = { (int)vsa_param(3, 0), (int)vsa_param(6, 0) };
    int rounds[2] = { (int)vsa_param(4, 2), (int)vsa_param(7, 2) };
    int extpct = (int)vsa_param(8, 30), ntask = (int)vsa_param(9, 0), reinit_mode = (int)vsa_param(10, 0);
    int flags = (int)vsa_param(11, 0); /* 1: a pool shared by the secondary streams  2: early stream join  4: migration requests */
    sc_shared = flags & 1;
    b_early = (flags & 2) != 0 && !(flags & 1); /* (units blocked in a pool with several consumers keep no stream alive) */
    b_migrate = (flags & 4) != 0;
    int next_total = 0;
    if (nes > MAX_ES)
        nes = MAX_ES;
    for (int p = 0; p < 2; p++) {
        if (rounds[p] > MAXR)
            rounds[p] = MAXR;
        if (nw[p] < 1)
            nw[p] = 1;
    }
    ABT_init(0, NULL);
    vsa_begin();
    vs_note("O ABTI_barrier num_waiters %zu %zu", offsetof(ABTI_barrier, num_waiters), sizeof(size_t));
    vs_note("O ABTI_waitlist p_head %zu %zu", offsetof(ABTI_waitlist, p_head), sizeof(void *));
    vs_note("scenario barrier family=%s nes=%d", family, nes);
    sc_streams(nes, ABT_SCHED_BASIC);
    int base = 0;
    if (!strcmp(family, "bar")) {
        ABT_OK(ABT_barrier_create((uint32_t)nw[0], &B0));
        vs_name_ex(ABTI_barrier_get_ptr(B0), sizeof(ABTI_barrier), VS_SNAP, "B0");
        vs_note("obj B0 nw=%d", nw[0]);
        int inline_done = 0;
        for (int p = 0; p < 2; p++) {
            int nwait = nw[p] + extra[p];
            if (p == 1 && !inline_done)
                do_reinit(nw[0], nw[1]);
            if (rounds[p] == 0)
                continue;
            if (base + nwait + ntask > MAXA) {
                fprintf(stderr, "too many actors\n");
                return 2;
            }
            phase_reset(nw[p], extra[p], rounds[p]);
            m_reinit_inline = (p == 0 && reinit_mode == 1);
            m_reinit_done = 0;
            m_next_nw = nw[1];
            vs_note("phase %d nw=%d waiters=%d rounds=%d tasklets=%d", p, nw[p], nwait, rounds[p], ntask);
            int n = nwait + ntask;
            /* the tasklets sit at random positions of the creation order: they run before, between and after the
             * arrivals of the real waiters */
            int istask[MAXA];
            memset(istask, 0, sizeof istask);
            for (int k = 0; k < ntask; k++) {
                int pos;
                do
                    pos = sc_rnd(n);
                while (istask[pos]);
                istask[pos] = 1;
            }
            for (int i = base; i < base + n; i++) {
                actor *a = &acts[i];
                a->kind = istask[i - base] ? AK_TASK : (sc_rnd(100) < extpct && next_total < MAXEXT ? AK_EXT : AK_ULT);
                if (a->kind == AK_EXT)
                    next_total++;
                a->es = sc_rnd(nes);
                a->body = barrier_body;
                vs_note("actor A%d kind=%s es=%d", i, AKN[a->kind], a->es);
            }
            launch(base, base + n);
            if (b_early && (p == 1 || rounds[1] == 0))
                early_join(base, base + n, nes);
            join(base, base + n);
            phase_end("B0", (long)nw[p] * rounds[p]);
            if (m_reinit_inline)
                inline_done = m_reinit_done; /* otherwise the main ULT re-initialises below */
            base += n;
        }
        vs_note("apiCall free B0");
        ABT_OK(ABT_barrier_free(&B0));
    } else if (!strcmp(family, "xbar")) {
        int create = (int)vsa_param(3, 0) ? (int)vsa_param(3, 0) : nw[0]; /* num_waiters given to create */
        int n = nw[0];                                                      /* participants */
        ABT_OK(ABT_xstream_barrier_create((uint32_t)create, &X0));
        vs_note("obj X0 nw=%d", create);
        phase_reset(create, 0, rounds[0]);
        m_exact = (create == n);
        vs_note("phase 0 nw=%d waiters=%d rounds=%d tasklets=0", create, n, rounds[0]);
        /* at most one work unit per stream blocks in the barrier (it blocks the whole stream); the rest are
         * external threads */
        for (int i = 0; i < n; i++) {
            actor *a = &acts[i];
            if (i < nes) {
                a->kind = sc_rnd(3) == 0 ? AK_TASK : AK_ULT;
                a->es = i;
            } else {
                a->kind = AK_EXT;
                a->es = 0;
            }
            if (sc_rnd(100) < extpct / 2)
                a->kind = AK_EXT;
            a->body = xbarrier_body;
            vs_note("actor A%d kind=%s es=%d", i, AKN[a->kind], a->es);
        }
        launch(0, n);
        join(0, n);
        phase_end("X0", (long)n * rounds[0]);
        vs_note("apiCall free X0");
        ABT_OK(ABT_xstream_barrier_free(&X0));
    } else {
        fprintf(stderr, "unknown family %s\n", family);
        return 2;
    }
    sc_stop_streams();
    ABT_finalize();
    int rc = vsa_end();
    if (rc)
        fprintf(stderr, "MONITOR: %s\n", vs_first_failure());
    return rc;
}
