/* C19, native part: the controlled scheduler virtualises the clock, the futex and pthread condition variables, so two
 * things about timed waits are only visible with the real OS primitives:
 *   pools  — ABT_pool_pop_wait(t) / ABT_pool_pop_timedwait(abs) on a pool that stays empty return empty-handed, not before
 *            the time has passed and within a generous bound after it (every pool kind; the absolute variant lives in
 *            the ABT_get_wtime() clock domain);
 *   cond   — ABT_cond_timedwait by an external thread whose sleep is interrupted by signal handlers every few
 *            milliseconds still times out at its deadline (the remaining time is recomputed after an interruption).
 * usage: nat_timed pools|cond      exit 0 ok, 1 property failure (reason on stdout), 3 watchdog (hang) */
#define _GNU_SOURCE
#include <abt.h>
#include <errno.h>
#include <pthread.h>
#include <signal.h>
#include <stdio.h>
#include <stdlib.h>
#include <string.h>
#include <time.h>
#include <unistd.h>

static volatile int finished;
static const char *phase = "start";
static double now(void)
{
    struct timespec ts;
    clock_gettime(CLOCK_MONOTONIC, &ts);
    return ts.tv_sec + 1e-9 * ts.tv_nsec;
}
static void *watchdog(void *a)
{
    double limit = *(double *)a, t0 = now();
    while (!finished && now() - t0 < limit)
        usleep(20000);
    if (!finished) {
        printf("HANG: `%s` has not returned %.1f s after it started\n", phase, limit);
        fflush(stdout);
        _exit(3);
    }
    return NULL;
}
#define SLACK 2.5 /* seconds a wait may overshoot on a loaded machine before it counts as unbounded */

static int pools(void)
{
    static const struct { ABT_pool_kind k; const char *n; } K[] = { { ABT_POOL_FIFO, "FIFO" }, { ABT_POOL_FIFO_WAIT, "FIFO_WAIT" },
                                                                    { ABT_POOL_RANDWS, "RANDWS" } };
    static char what[128];
    int bad = 0;
    for (unsigned i = 0; i < sizeof K / sizeof K[0]; i++) {
        ABT_pool p;
        if (ABT_pool_create_basic(K[i].k, ABT_POOL_ACCESS_MPMC, ABT_FALSE, &p) != ABT_SUCCESS)
            return 1;
        ABT_thread th = (ABT_thread)(void *)0x1;
        snprintf(what, sizeof what, "ABT_pool_pop_wait(%s, 0.15)", K[i].n);
        phase = what;
        double t0 = now();
        int rc = ABT_pool_pop_wait_thread(p, &th, 0.15);
        double dt = now() - t0;
        if (rc != ABT_SUCCESS || th != ABT_THREAD_NULL || dt < 0.14 || dt > 0.15 + SLACK) {
            printf("%s on an empty pool: rc=%d unit=%p after %.3f s (expected nothing after 0.15 s)\n", what, rc, (void *)th, dt);
            bad = 1;
        }
        ABT_unit u = (ABT_unit)(void *)0x1;
        snprintf(what, sizeof what, "ABT_pool_pop_timedwait(%s, ABT_get_wtime()+0.15)", K[i].n);
        phase = what;
        t0 = now();
        rc = ABT_pool_pop_timedwait(p, &u, ABT_get_wtime() + 0.15);
        dt = now() - t0;
        if (rc != ABT_SUCCESS || u != ABT_UNIT_NULL || dt < 0.14 || dt > 0.15 + SLACK) {
            printf("%s on an empty pool: rc=%d unit=%p after %.3f s (expected nothing after 0.15 s)\n", what, rc, (void *)u, dt);
            bad = 1;
        }
        ABT_pool_free(&p);
    }
    return bad;
}

static void on_sig(int s) { (void)s; }
static pthread_t waiter_pt;
static volatile int stop_sig;
static void *signaller(void *a)
{
    (void)a;
    while (!stop_sig) {
        pthread_kill(waiter_pt, SIGUSR1);
        usleep(4000);
    }
    return NULL;
}
static int cond_result;
static void *ext_waiter(void *a)
{
    (void)a;
    ABT_mutex m;
    ABT_cond c;
    ABT_mutex_create(&m);
    ABT_cond_create(&c);
    struct timespec ts;
    clock_gettime(CLOCK_REALTIME, &ts);
    ts.tv_nsec += 300000000L;
    if (ts.tv_nsec >= 1000000000L)
        ts.tv_nsec -= 1000000000L, ts.tv_sec++;
    ABT_mutex_lock(m);
    double t0 = now();
    int rc = ABT_cond_timedwait(c, m, &ts);
    double dt = now() - t0;
    ABT_mutex_unlock(m);
    if (rc != ABT_ERR_COND_TIMEDOUT || dt < 0.29 || dt > 0.3 + SLACK) {
        printf("ABT_cond_timedwait by an external thread interrupted by signals every 4 ms: rc=%d after %.3f s "
               "(expected ABT_ERR_COND_TIMEDOUT after 0.3 s)\n", rc, dt);
        cond_result = 1;
    }
    ABT_cond_free(&c);
    ABT_mutex_free(&m);
    return NULL;
}
static int cond(void)
{
    struct sigaction sa;
    memset(&sa, 0, sizeof sa);
    sa.sa_handler = on_sig; /* no SA_RESTART: a sleeping futex wait returns EINTR */
    sigaction(SIGUSR1, &sa, NULL);
    phase = "ABT_cond_timedwait(300 ms) under a signal storm";
    pthread_t sg;
    pthread_create(&waiter_pt, NULL, ext_waiter, NULL);
    pthread_create(&sg, NULL, signaller, NULL);
    pthread_join(waiter_pt, NULL);
    stop_sig = 1;
    pthread_join(sg, NULL);
    return cond_result;
}

int main(int argc, char **argv)
{
    double limit = 12.0;
    pthread_t wd;
    ABT_init(0, NULL);
    pthread_create(&wd, NULL, watchdog, &limit);
    int bad = 0;
    if (argc > 1 && !strcmp(argv[1], "pools"))
        bad = pools();
    else if (argc > 1 && !strcmp(argv[1], "cond"))
        bad = cond();
    else
        return 2;
    finished = 1;
    pthread_join(wd, NULL);
    ABT_finalize();
    return bad;
}
