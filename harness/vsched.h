/* vsched — controlled scheduler for the hooked Argobots build (T3).
 *
 * Exactly one OS thread runs at a time.  Every ABTD_atomic_* primitive, every
 * runtime event hook and every (wrapped) blocking OS call is a schedule point at
 * which the controller hands the token to a thread chosen by a PRNG.  futex,
 * pthread mutex/cond/barrier, sleeps, thread create/join and the clock are
 * virtual, so a run is a deterministic function of (program, seed, mode).
 *
 * Link the scenario with:  -Wl,--wrap=pthread_create,--wrap=pthread_join,... (see vlib/vs.py)
 */
#ifndef VSCHED_H
#define VSCHED_H
#include <stddef.h>
#include <stdint.h>
#include <stdio.h>

/* flags for vs_name_ex */
#define VS_QUIET_LOADS 1 /* do not log loads of this object */
#define VS_SNAP 2        /* log a hex snapshot of the object (`P name hex`) at every clear/store/RMW on it, i.e. when its lock is
                          * released or a field is published; the bytes are read while nobody else runs */

void vs_init(uint64_t seed, const char *mode, const char *logpath); /* mode: "rand:<stick%>" | "pct:<depth>" */
int vs_finish(void);          /* stop controlling; returns 0 ok */
void vs_name(const void *addr, size_t size, const char *fmt, ...);
void vs_name_ex(const void *addr, size_t size, int flags, const char *fmt, ...);
void vs_unname(const void *addr);
void vs_unname_named(const void *addr, const char *name); /* drop the entry <addr, name> only (the address may carry a newer name) */
void vs_set_snap_fn(const void *addr, void (*fn)(const void *obj, const char *name)); /* called at every clear/store/RMW on the named object (before the op executes, nobody else running): typically walks a lock-protected structure and vs_note()s it */
void vs_log(const char *fmt, ...);  /* scenario-level event line "S <tid> <unit> text" ; also a schedule point */
void vs_note(const char *fmt, ...); /* like vs_log but not a schedule point */
void vs_point(void);
void vs_fail(const char *fmt, ...); /* monitor failure: logs "F ..." and remembers it */
int vs_failed(void);
const char *vs_first_failure(void);
double vs_now(void);                /* virtual clock (seconds) */
uint64_t vs_rand(void);             /* scenario-level randomness from the same seed (separate stream) */
uint64_t vs_steps(void);
int vs_tid(void);
int vs_thread_alive(int tid); /* the controlled OS thread with this id has not exited */
void vs_set_event_fn(void (*fn)(int kind, const void *p1, const void *p2, long v)); /* called for every runtime event before it is logged (monitors) */
void vs_set_atomic_fn(void (*fn)(int kind, int width, const volatile void *addr, uint64_t a, uint64_t b)); /* called for every atomic op of a controlled thread just before it executes and before it is logged; kind: 1 load 2 store 3 clear 4 tas 5 cas ... (OPN[] in vsched.c); may call vs_name/vs_note */
void vs_set_mutex_fn(void (*fn)(char tag, const char *what, const void *obj)); /* called after every logged `M`/`R`/`W` line of a virtual pthread mutex / condition variable that lives inside a named object (tag, "lock"|"unlock"|"condwait"|"condret"|"cond", address of the pthread object); runs on the thread that performs the operation while nobody else runs; may vs_note (e.g. a plain state word the mutex protects) */
void vs_autoname_units(int on); /* name every work unit T<n> at its create event (E 1), unname at free (E 3) */
void vs_set_unit_fn(const void *(*fn)(void)); /* returns the current work unit descriptor or NULL */
const char *vs_addr_name(const void *p, char *buf, size_t n);

#endif
