/* T2 harness for Model.FutexGen: the real ABTD_futex_wait_and_unlock / ABTD_futex_timedwait_and_unlock / ABTD_futex_broadcast
 * (arch/abtd_futex.c) against a simulated kernel (the futex system call is wrapped: -Wl,--wrap=syscall).
 *   w <bits> <v0> <k>   the waiter samples v0 under the lock, releases the lock; k broadcasts happen before the kernel
 *                       compares the word in FUTEX_WAIT                                        -> sleep | wake
 *   t <bits> <v0> <k>   the same through the timed variant
 *   r <bits> <v0> <k>   the waiter sleeps (nothing broadcast), is woken after k broadcasts and re-reads the word:
 *                       does it go back to sleep?                                              -> sleep | wake
 * "sleep" after k >= 1 broadcasts is a lost wake-up: the waiter was taken off the wait list by the first of them and nobody
 * will wake it again.  bits must be the width of the real word (checked). */
#include "abti.h"
#include <stdio.h>
#include <string.h>
#include <errno.h>
#include <stdarg.h>
#include <syscall.h>
#include <linux/futex.h>

static ABTD_futex_multiple F;
static ABTD_spinlock L;
static long pending_k;
static int mode, entries, slept;

long __wrap_syscall(long no, ...)
{
    va_list ap;
    va_start(ap, no);
    int *uaddr = va_arg(ap, int *);
    int op = va_arg(ap, int);
    int val = va_arg(ap, int);
    va_end(ap);
    if (no != SYS_futex) {
        fprintf(stderr, "unexpected system call %ld\n", no);
        _exit(3);
    }
    if ((op & FUTEX_CMD_MASK) == FUTEX_WAKE)
        return 0;
    if ((op & FUTEX_CMD_MASK) != FUTEX_WAIT) {
        fprintf(stderr, "unexpected futex op %d\n", op);
        _exit(3);
    }
    entries++;
    if (mode == 'r' && entries == 1) {
        /* nothing broadcast yet: the kernel puts the caller to sleep; k broadcasts later it is running again */
        if (*uaddr != val) {
            errno = EAGAIN;
            return -1;
        }
        long k = pending_k;
        pending_k = 0;
        for (long i = 0; i < k; i++)
            ABTD_futex_broadcast(&F);
        return 0;
    }
    long k = pending_k;
    pending_k = 0;
    for (long i = 0; i < k; i++)
        ABTD_futex_broadcast(&F);
    if (*uaddr == val) {
        slept = 1;
        /* (let the call return: a later, unrelated broadcast) */
        ABTD_futex_broadcast(&F);
        return 0;
    }
    errno = EAGAIN;
    return -1;
}

int main(void)
{
    char line[256];
    ABTD_spinlock_clear(&L);
    while (fgets(line, sizeof line, stdin)) {
        char m;
        unsigned bits;
        unsigned long long v0;
        long k;
        if (sscanf(line, " %c %u %llu %ld", &m, &bits, &v0, &k) != 4 || (m != 'w' && m != 't' && m != 'r') ||
            bits != 8 * sizeof(F.val) || (bits < 64 && v0 >> bits) || k < 0) {
            puts("bad-op");
            continue;
        }
        mode = m;
        entries = slept = 0;
        pending_k = k;
        ABTD_atomic_relaxed_store_int(&F.val, (int)(unsigned)v0);
        ABTD_spinlock_acquire(&L);
        if (m == 't')
            ABTD_futex_timedwait_and_unlock(&F, &L, 0.5);
        else
            ABTD_futex_wait_and_unlock(&F, &L);
        if (ABTD_spinlock_is_locked(&L)) {
            puts("lock-not-released");
            ABTD_spinlock_release(&L);
            continue;
        }
        puts(slept ? "sleep" : "wake");
    }
    return 0;
}
