/* C09, native part (real OS threads): every waiter that is blocked on an eventual / a future when it becomes ready returns
 * from its wait, also when the object is reset right after the set that released it — before the released waiters have run
 * again (ULTs still queued in their pools, external threads still on their way back from the futex).
 * The waiters are known to be queued (the wait list is counted under the object's lock) before the set is issued.
 * exit 0 ok, 1 violation */
#include "abti.h"
#include <pthread.h>
#include <stdio.h>
#include <unistd.h>
#include <time.h>
#define NW 6
static ABT_eventual ev;
static ABT_future fut;
static int use_future;
static volatile int returned[NW], bad;
static long expect_val;
static double now(void)
{
    struct timespec ts;
    clock_gettime(CLOCK_MONOTONIC, &ts);
    return ts.tv_sec + 1e-9 * ts.tv_nsec;
}
static void waiter(void *arg)
{
    int me = (int)(long)arg;
    if (use_future) {
        int rc = ABT_future_wait(fut);
        if (rc != ABT_SUCCESS)
            bad = 1;
    } else {
        long *v = NULL;
        int rc = ABT_eventual_wait(ev, (void **)&v);
        if (rc != ABT_SUCCESS || v == NULL)
            bad = 1;
    }
    returned[me] = 1;
}
static void *waiter_pt(void *arg)
{
    waiter(arg);
    return NULL;
}
static int queued(void)
{
    ABTI_waitlist *wl;
    ABTD_spinlock *lk;
    if (use_future) {
        ABTI_future *p = ABTI_future_get_ptr(fut);
        wl = &p->waitlist, lk = &p->lock;
    } else {
        ABTI_eventual *p = ABTI_eventual_get_ptr(ev);
        wl = &p->waitlist, lk = &p->lock;
    }
    int n = 0;
    ABTD_spinlock_acquire(lk);
    for (ABTI_thread *t = wl->p_head; t; t = t->p_next)
        n++;
    ABTD_spinlock_release(lk);
    return n;
}
int main(void)
{
    ABT_init(0, NULL);
    ABT_xstream xs;
    ABT_pool mainpool, p2;
    ABT_xstream self;
    ABT_xstream_self(&self);
    ABT_xstream_get_main_pools(self, 1, &mainpool);
    ABT_xstream_create(ABT_SCHED_NULL, &xs);
    ABT_xstream_get_main_pools(xs, 1, &p2);
    for (use_future = 0; use_future <= 1 && !bad; use_future++) {
        if (use_future)
            ABT_future_create(1, NULL, &fut);
        else
            ABT_eventual_create(sizeof(long), &ev);
        for (int round = 0; round < 15 && !bad; round++) {
            ABT_thread th[4];
            pthread_t pt[2];
            for (int i = 0; i < NW; i++)
                returned[i] = 0;
            ABT_thread_create(mainpool, waiter, (void *)0L, ABT_THREAD_ATTR_NULL, &th[0]); /* same stream as the setter */
            ABT_thread_create(mainpool, waiter, (void *)1L, ABT_THREAD_ATTR_NULL, &th[1]);
            ABT_thread_create(p2, waiter, (void *)2L, ABT_THREAD_ATTR_NULL, &th[2]);
            ABT_thread_create(p2, waiter, (void *)3L, ABT_THREAD_ATTR_NULL, &th[3]);
            pthread_create(&pt[0], NULL, waiter_pt, (void *)4L);
            pthread_create(&pt[1], NULL, waiter_pt, (void *)5L);
            double t0 = now();
            while (queued() < NW && now() - t0 < 10.0)
                ABT_thread_yield();
            if (queued() < NW) {
                printf("set-up: only %d of %d waiters reached the wait list\n", queued(), NW);
                return 2;
            }
            expect_val = 1000 + round;
            /* the set that releases them, and the reset, back to back */
            if (use_future) {
                ABT_future_set(fut, (void *)&expect_val);
                ABT_future_reset(fut);
            } else {
                ABT_eventual_set(ev, &expect_val, sizeof expect_val);
                ABT_eventual_reset(ev);
            }
            t0 = now();
            for (;;) {
                int n = 0;
                for (int i = 0; i < NW; i++)
                    n += returned[i];
                if (n == NW)
                    break;
                if (now() - t0 > 4.0) {
                    printf("%s, round %d: %d of %d waiters that were blocked when the object became ready have not returned 4 s "
                           "after the set (the object was reset right after the set):", use_future ? "future" : "eventual", round,
                           NW - n, NW);
                    for (int i = 0; i < NW; i++)
                        if (!returned[i])
                            printf(" %s", i < 2 ? "ULT(same stream)" : i < 4 ? "ULT(other stream)" : "external thread");
                    printf("\n");
                    bad = 1;
                    break;
                }
                ABT_thread_yield();
                usleep(200);
            }
            if (bad) {
                fflush(stdout);
                _exit(1); /* (the stuck waiters cannot be joined) */
            }
            for (int i = 0; i < 4; i++)
                ABT_thread_free(&th[i]);
            pthread_join(pt[0], NULL);
            pthread_join(pt[1], NULL);
        }
        if (use_future)
            ABT_future_free(&fut);
        else
            ABT_eventual_free(&ev);
    }
    ABT_xstream_join(xs);
    ABT_xstream_free(&xs);
    ABT_finalize();
    if (!bad)
        printf("waiters released by a set that is followed at once by a reset: all returned (eventual and future, 15 rounds each)\n");
    return bad;
}
