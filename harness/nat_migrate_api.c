/* C13, native part: the request rules of ABT_thread_migrate_to_pool / _to_sched / _to_xstream as documented —
 *   rejected: the target is (a scheduler / stream that serves) the pool the unit is associated with — any pool of the
 *             scheduler, not only the one a request would pick; a non-migratable unit; a main-scheduler ULT;
 *   accepted: everything else, and then the unit's next scheduling goes through a pool of the target with exactly one
 *             callback — also when the unit last ran on the target stream while its pool belongs elsewhere.
 * Everything is driven from the primary ULT with private pools nobody else serves (ABT_self_schedule plays scheduler), so
 * the outcome does not depend on timing.  exit 0 ok, 1 violation */
#include <abt.h>
#include <stdio.h>
#include <string.h>
static int bad, cb_calls;
#define FAIL(...) do { printf(__VA_ARGS__); printf("\n"); bad = 1; } while (0)
static void mig_cb(ABT_thread t, void *arg) { (void)t; (void)arg; cb_calls++; }
static void yielder(void *arg)
{
    int n = (int)(long)arg;
    for (int i = 0; i < n; i++)
        ABT_thread_yield();
}
static ABT_pool mkpool(void)
{
    ABT_pool p;
    ABT_pool_create_basic(ABT_POOL_FIFO, ABT_POOL_ACCESS_MPMC, ABT_FALSE, &p);
    return p;
}
/* run the unit at the head of `from` once on this stream (it yields back) */
static int run_one(ABT_pool from)
{
    ABT_thread t = ABT_THREAD_NULL;
    ABT_pool_pop_thread(from, &t);
    if (t == ABT_THREAD_NULL)
        return 0;
    ABT_self_schedule(t, ABT_POOL_NULL);
    return 1;
}
static size_t sz(ABT_pool p)
{
    size_t n = 99;
    ABT_pool_get_size(p, &n);
    return n;
}
int main(void)
{
    ABT_init(0, NULL);
    /* a scheduler object over two private pools (it runs nowhere), and a second one over a third pool */
    ABT_pool A0 = mkpool(), A1 = mkpool(), B0 = mkpool(), C0 = mkpool();
    ABT_pool ap[2] = { A0, A1 };
    ABT_sched SA, SB;
    ABT_sched_create_basic(ABT_SCHED_BASIC, 2, ap, ABT_SCHED_CONFIG_NULL, &SA);
    ABT_sched_create_basic(ABT_SCHED_BASIC, 1, &B0, ABT_SCHED_CONFIG_NULL, &SB);
    ABT_thread u0, u1, uc;
    ABT_thread_create(A0, yielder, (void *)4L, ABT_THREAD_ATTR_NULL, &u0);
    ABT_thread_create(A1, yielder, (void *)4L, ABT_THREAD_ATTR_NULL, &u1);
    ABT_thread_create(C0, yielder, (void *)4L, ABT_THREAD_ATTR_NULL, &uc);
    int rc;
    /* 1. the pool the unit is associated with */
    rc = ABT_thread_migrate_to_pool(u0, A0);
    if (rc != ABT_ERR_MIGRATION_TARGET)
        FAIL("migrate_to_pool(unit, its own pool) returned %d, expected ABT_ERR_MIGRATION_TARGET", rc);
    /* 2. a scheduler that serves the unit's pool: first and second pool of the scheduler alike */
    rc = ABT_thread_migrate_to_sched(u0, SA);
    if (rc != ABT_ERR_MIGRATION_TARGET)
        FAIL("migrate_to_sched(unit in pools[0] of the scheduler) returned %d, expected ABT_ERR_MIGRATION_TARGET", rc);
    cb_calls = 0;
    ABT_thread_set_callback(u1, mig_cb, NULL);
    rc = ABT_thread_migrate_to_sched(u1, SA);
    if (rc != ABT_ERR_MIGRATION_TARGET)
        FAIL("migrate_to_sched(unit in pools[1] of the scheduler) returned %d, expected ABT_ERR_MIGRATION_TARGET", rc);
    run_one(A1); /* u1 runs once and yields: it must come back to A1, no callback */
    if (sz(A1) != 1 || sz(A0) != 1 || cb_calls != 0)
        FAIL("after the rejected request the unit of pools[1] went elsewhere: |pools[0]|=%zu |pools[1]|=%zu callbacks=%d", sz(A0),
             sz(A1), cb_calls);
    /* 3. an accepted request to the other scheduler: next scheduling through its pool, one callback */
    cb_calls = 0;
    rc = ABT_thread_migrate_to_sched(u1, SB);
    if (rc != ABT_SUCCESS)
        FAIL("migrate_to_sched(unit, a scheduler over another pool) returned %d", rc);
    run_one(A1);
    if (sz(B0) != 1 || sz(A1) != 0 || cb_calls != 1)
        FAIL("accepted migrate_to_sched: |target pool|=%zu |old pool|=%zu callbacks=%d (expected 1 0 1)", sz(B0), sz(A1), cb_calls);
    /* 4. non-migratable unit */
    ABT_thread_set_migratable(u0, ABT_FALSE);
    rc = ABT_thread_migrate_to_pool(u0, B0);
    if (rc == ABT_SUCCESS)
        FAIL("migrate_to_pool of a non-migratable unit returned success");
    rc = ABT_thread_migrate_to_sched(u0, SB);
    if (rc == ABT_SUCCESS)
        FAIL("migrate_to_sched of a non-migratable unit returned success");
    ABT_thread_set_migratable(u0, ABT_TRUE);
    /* 5. to_xstream: a second stream; the unit of C0 last ran on the primary stream (we run it here) and is asked to go to
     * the primary stream, whose scheduler does not serve C0: accepted, moved to the primary's main pool, one callback */
    ABT_xstream self;
    ABT_pool mainpool;
    ABT_xstream_self(&self);
    ABT_xstream_get_main_pools(self, 1, &mainpool);
    run_one(C0); /* uc has now run on this stream once; it is back in C0 */
    cb_calls = 0;
    ABT_thread_set_callback(uc, mig_cb, NULL);
    rc = ABT_thread_migrate_to_xstream(uc, self);
    if (rc != ABT_SUCCESS)
        FAIL("migrate_to_xstream(unit of a foreign pool, the stream it last ran on) returned %d", rc);
    run_one(C0); /* next scheduling point: the request is carried out */
    ABT_pool now = ABT_POOL_NULL;
    ABT_thread_get_last_pool(uc, &now);
    if (now != mainpool || cb_calls != 1 || sz(C0) != 0)
        FAIL("accepted migrate_to_xstream to the stream the unit last ran on: unit %s its target pool, callbacks=%d, |old pool|=%zu "
             "(expected: in the target pool, 1, 0)", now == mainpool ? "is in" : "is NOT in", cb_calls, sz(C0));
    /* a unit of the primary's own pool asked to go to the primary stream: rejected */
    rc = ABT_thread_migrate_to_xstream(uc, self);
    if (now == mainpool && rc != ABT_ERR_MIGRATION_TARGET)
        FAIL("migrate_to_xstream(unit of the stream's own pool) returned %d, expected ABT_ERR_MIGRATION_TARGET", rc);
    /* drain: run everything to completion and free */
    ABT_pool all[5] = { A0, A1, B0, C0, mainpool };
    for (int round = 0; round < 40; round++)
        for (int k = 0; k < 4; k++)
            run_one(all[k]);
    ABT_thread_free(&u0);
    ABT_thread_free(&u1);
    ABT_thread_free(&uc);
    ABT_sched_free(&SA);
    ABT_sched_free(&SB);
    ABT_pool_free(&C0);
    ABT_finalize();
    if (!bad)
        printf("migration request rules: ok\n");
    return bad;
}
