/* API-level differential driver for stack / descriptor provenance (C15).
 * Real ULTs are created through the public API, run, joined and freed; a ledger linked in
 * with -Wl,--wrap=malloc,... records every allocation of the runtime and checks that every
 * free() gets exactly a pointer the allocator returned and that ABT_finalize balances.
 * Line protocol identical to `driver stackgeom` (lean/Driver/StackGeom.lean):
 *   env <NAME> <VALUE> | init <thread_stacksize> | rt <size> <who> | us <size> <off8> <who> | fin
 * <who> = ee | xe | ex  (creator / freer: e = the primary execution stream, x = an external pthread)
 * Built WITHOUT sanitizers (fcontext switching); the ledger is the memory oracle here. */
#include "abti.h"
#include <stdio.h>
#include <stdlib.h>
#include <string.h>
#include <stdint.h>
#include <pthread.h>
#include <sys/mman.h>

/* ------------------------------------------------------------------ ledger */
#define LEDGER_MAX (1 << 16)
typedef struct {
    void *ptr;
    size_t size;  /* bytes requested from the underlying allocator */
    int kind;     /* 0 malloc family, 1 mmap */
    unsigned long epoch;
} ledger_ent;
static ledger_ent ledger[LEDGER_MAX];
static int ledger_n;
static unsigned long ledger_epoch;
static int ledger_violations;
static pthread_mutex_t ledger_mtx = PTHREAD_MUTEX_INITIALIZER;
static char *watch_lo, *watch_hi;
static long watch_freed_off;
static int watch_freed_cnt;

void *__real_malloc(size_t);
void *__real_calloc(size_t, size_t);
void *__real_realloc(void *, size_t);
void __real_free(void *);
int __real_posix_memalign(void **, size_t, size_t);
void *__real_memalign(size_t, size_t);
void *__real_aligned_alloc(size_t, size_t);
void *__real_mmap(void *, size_t, int, int, int, off_t);
int __real_munmap(void *, size_t);

static void ledger_add(void *p, size_t size, int kind)
{
    if (!p)
        return;
    pthread_mutex_lock(&ledger_mtx);
    if (ledger_n < LEDGER_MAX) {
        ledger[ledger_n].ptr = p;
        ledger[ledger_n].size = size;
        ledger[ledger_n].kind = kind;
        ledger[ledger_n].epoch = ledger_epoch;
        ledger_n++;
    }
    pthread_mutex_unlock(&ledger_mtx);
}

/* pages the library has write-protected (stack guards): a block handed back to free() must not contain one */
#define GUARD_MAX 4096
static struct { char *lo, *hi; } guards[GUARD_MAX];
static int guards_n, guard_leaks;
int __real_mprotect(void *a, size_t n, int prot);
int __wrap_mprotect(void *a, size_t n, int prot)
{
    int rc = __real_mprotect(a, n, prot);
    if (rc != 0)
        return rc;
    pthread_mutex_lock(&ledger_mtx);
    if (!(prot & PROT_WRITE)) {
        if (guards_n < GUARD_MAX) {
            guards[guards_n].lo = (char *)a;
            guards[guards_n].hi = (char *)a + n;
            guards_n++;
        }
    } else {
        for (int i = guards_n - 1; i >= 0; i--)
            if (guards[i].lo >= (char *)a && guards[i].hi <= (char *)a + n)
                guards[i] = guards[--guards_n];
    }
    pthread_mutex_unlock(&ledger_mtx);
    return rc;
}
static void guard_check_release(char *p, size_t size, const char *how)
{
    for (int i = 0; i < guards_n; i++)
        if (guards[i].lo < p + size && guards[i].hi > p) {
            fprintf(stderr,
                    "LEDGER-VIOLATION %s of a block of %zu bytes (block address %% page = %lu) while the page at offset %ld in it "
                    "is still write-protected: the guard that was set at stack allocation was not removed\n",
                    how, size, (unsigned long)((uintptr_t)p % 4096), (long)(guards[i].lo - p));
            ledger_violations++;
            guard_leaks++;
            __real_mprotect(guards[i].lo, (size_t)(guards[i].hi - guards[i].lo), PROT_READ | PROT_WRITE);
            guards[i] = guards[--guards_n];
            i--;
        }
}

/* returns 1 if p was a live allocation of that kind (and removes it) */
static int ledger_del(void *p, int kind, size_t munmap_size)
{
    int i, ok = 0;
    pthread_mutex_lock(&ledger_mtx);
    if (watch_lo && (char *)p >= watch_lo && (char *)p < watch_hi) {
        watch_freed_off = (char *)p - watch_lo;
        watch_freed_cnt++;
    }
    for (i = ledger_n - 1; i >= 0; i--) {
        if (ledger[i].ptr == p && ledger[i].kind == kind) {
            if (kind == 1 && ledger[i].size != munmap_size) {
                fprintf(stderr, "LEDGER-VIOLATION munmap(%p, %zu) of a mapping of %zu bytes\n", p, munmap_size,
                        ledger[i].size);
                ledger_violations++;
            }
            if (kind == 0)
                guard_check_release((char *)p, ledger[i].size, "free");
            ledger[i] = ledger[ledger_n - 1];
            ledger_n--;
            ok = 1;
            break;
        }
    }
    if (!ok) {
        /* describe where the pointer lies */
        for (i = 0; i < ledger_n; i++) {
            char *b = (char *)ledger[i].ptr;
            if ((char *)p > b && (char *)p < b + ledger[i].size) {
                fprintf(stderr,
                        "LEDGER-VIOLATION %s of %p which the allocator never returned: it points %ld bytes into the "
                        "live block of %zu bytes\n",
                        kind ? "munmap" : "free", p, (long)((char *)p - b), ledger[i].size);
                break;
            }
        }
        if (i == ledger_n)
            fprintf(stderr, "LEDGER-VIOLATION %s of %p which is not a live allocation (double free / foreign pointer)\n",
                    kind ? "munmap" : "free", p);
        ledger_violations++;
    }
    pthread_mutex_unlock(&ledger_mtx);
    return ok;
}

static ledger_ent *ledger_find_containing(void *p)
{
    int i;
    for (i = 0; i < ledger_n; i++) {
        char *b = (char *)ledger[i].ptr;
        if ((char *)p >= b && (char *)p < b + ledger[i].size)
            return &ledger[i];
    }
    return NULL;
}

void *__wrap_malloc(size_t n)
{
    void *p = __real_malloc(n);
    ledger_add(p, n, 0);
    return p;
}
void *__wrap_calloc(size_t a, size_t b)
{
    void *p = __real_calloc(a, b);
    ledger_add(p, a * b, 0);
    return p;
}
void *__wrap_realloc(void *q, size_t n)
{
    if (q && !ledger_del(q, 0, 0))
        return NULL;
    void *p = __real_realloc(q, n);
    ledger_add(p, n, 0);
    return p;
}
void __wrap_free(void *p)
{
    if (!p)
        return;
    if (ledger_del(p, 0, 0))
        __real_free(p);
    /* an invalid pointer is reported, not passed on (glibc would abort) */
}
int __wrap_posix_memalign(void **pp, size_t al, size_t n)
{
    int r = __real_posix_memalign(pp, al, n);
    if (r == 0)
        ledger_add(*pp, n, 0);
    return r;
}
void *__wrap_memalign(size_t al, size_t n)
{
    void *p = __real_memalign(al, n);
    ledger_add(p, n, 0);
    return p;
}
void *__wrap_aligned_alloc(size_t al, size_t n)
{
    void *p = __real_aligned_alloc(al, n);
    ledger_add(p, n, 0);
    return p;
}
void *__wrap_mmap(void *a, size_t n, int prot, int fl, int fd, off_t off)
{
    void *p = __real_mmap(a, n, prot, fl, fd, off);
    if (p != MAP_FAILED)
        ledger_add(p, n, 1);
    return p;
}
int __wrap_munmap(void *p, size_t n)
{
    if (!ledger_del(p, 1, n))
        return -1;
    return __real_munmap(p, n);
}

/* ------------------------------------------------------------------ driver */
typedef struct {
    volatile char *lo;   /* first usable byte */
    volatile char *hi;   /* one past the last usable byte */
    uintptr_t frame;
    int lo_ok, hi_ok;
} body_arg;

static void body(void *a)
{
    body_arg *x = (body_arg *)a;
    volatile char probe = 1;
    x->frame = (uintptr_t)&probe;
    x->lo[0] = 0x5a;                 /* first usable byte: far below the frames in use */
    x->lo_ok = (x->lo[0] == 0x5a);
    volatile char c = x->hi[-1];     /* last usable byte: above our frames, read only */
    (void)c;
    x->hi_ok = 1;
    /* use some stack */
    volatile char buf[512];
    buf[0] = probe;
    buf[511] = buf[0];
    (void)buf;
}

static ABT_pool main_pool;

typedef struct {
    int op; /* 0 create, 1 free */
    ABT_thread_attr attr;
    body_arg *barg;
    ABT_thread th;
    int rc;
} ext_job;

static void *ext_main(void *p)
{
    ext_job *j = (ext_job *)p;
    if (j->op == 0)
        j->rc = ABT_thread_create(main_pool, body, j->barg, j->attr, &j->th);
    else
        j->rc = ABT_thread_free(&j->th);
    return NULL;
}

static int run_ext(ext_job *j)
{
    pthread_t t;
    if (pthread_create(&t, NULL, ext_main, j))
        return -1;
    pthread_join(t, NULL);
    return j->rc;
}

static const char *type_name(ABTI_thread_type t)
{
    if (t & ABTI_THREAD_TYPE_MEM_MEMPOOL_DESC_STACK)
        return "poolDS";
    if (t & ABTI_THREAD_TYPE_MEM_MALLOC_DESC_STACK)
        return "mallocDS";
    if (t & ABTI_THREAD_TYPE_MEM_MEMPOOL_DESC)
        return "poolD";
    if (t & ABTI_THREAD_TYPE_MEM_MALLOC_DESC)
        return "mallocD";
    return "other";
}

/* user stack buffer: 64-byte aligned, big enough for 16 MiB + offsets */
static char *ubuf;
static size_t ubuf_size;

static void do_unit(const char *kind, size_t S, long off8, const char *who)
{
    int creator_ext = (who[0] == 'x'), freer_ext = (who[1] == 'x');
    ABT_thread_attr attr;
    ABT_thread th = ABT_THREAD_NULL;
    body_arg barg;
    char *ua = NULL;
    memset(&barg, 0, sizeof barg);
    ABT_thread_attr_create(&attr);
    if (kind[0] == 'r') {
        ABT_thread_attr_set_stacksize(attr, S);
    } else {
        if (S + 64 + 64 > ubuf_size) {
            __real_free(ubuf);
            ubuf_size = S + 4096;
            if (__real_posix_memalign((void **)&ubuf, 64, ubuf_size))
                abort();
        }
        ua = ubuf + 64 + 8 * off8; /* model: a = 64 + 8*off8 relative to a 64-aligned base */
        int r = ABT_thread_attr_set_stack(attr, ua, S);
        if (r != ABT_SUCCESS) {
            printf("%s %zu set_stack err %d\n", kind, S, r);
            ABT_thread_attr_free(&attr);
            return;
        }
    }
    int rc;
    {
        /* move the heap around a little (kept, outside the ledger): stacks allocated by malloc then start at every
         * 64-byte position of a page over a run, also exactly on a page boundary */
        static unsigned long shiftseq;
        shiftseq = shiftseq * 6364136223846793005UL + S + 1442695040888963407UL;
        (void)__real_malloc(16 + (shiftseq >> 33) % 4000);
    }
    if (creator_ext) {
        ext_job j = { 0, attr, &barg, ABT_THREAD_NULL, 0 };
        /* the body needs lo/hi before it runs: it runs only when main yields/joins, fill them below */
        rc = run_ext(&j);
        th = j.th;
    } else {
        rc = ABT_thread_create(main_pool, body, &barg, attr, &th);
    }
    ABT_thread_attr_free(&attr);
    if (rc != ABT_SUCCESS) {
        if (kind[0] == 'r')
            printf("rt %zu create err %d\n", S, rc);
        else
            printf("us %zu %ld create err %d\n", S, off8, rc);
        return;
    }
    ABTI_thread *p_thread = ABTI_thread_get_ptr(th);
    ABTI_ythread *p_y = ABTI_thread_get_ythread(p_thread);
    char *top = (char *)ABTD_ythread_context_get_stacktop(&p_y->ctx);
    size_t recS = ABTD_ythread_context_get_stacksize(&p_y->ctx);
    ABTI_thread_type ty = p_thread->type;
    char *desc = (char *)p_y;
    char *base = top - recS;
    char *utop = (char *)((uintptr_t)top & ~(uintptr_t)15);
    char *rsp0 = utop - 8;
    barg.lo = base;
    barg.hi = utop;
    {
        /* with an mprotect guard the lowest page boundary inside the stack is PROT_NONE (OS effect, not
         * modelled): touch the first byte above the guard instead */
        ABTI_global *p_global = ABTI_global_get_global();
        if (p_global->stack_guard_kind != ABTI_STACK_GUARD_NONE && recS >= 4 * p_global->sys_page_size)
            barg.lo = base + 2 * p_global->sys_page_size;
    }
    int rspin = (base <= rsp0 && rsp0 + 8 <= top);
    char blk[96];
    char *blkptr = NULL;
    size_t blksize = 0;
    int malloc_type = (ty & (ABTI_THREAD_TYPE_MEM_MALLOC_DESC_STACK | ABTI_THREAD_TYPE_MEM_MALLOC_DESC)) != 0;
    if (malloc_type) {
        pthread_mutex_lock(&ledger_mtx);
        ledger_ent *e = ledger_find_containing(desc);
        if (e && e->kind == 0) {
            blkptr = (char *)e->ptr;
            blksize = e->size;
            snprintf(blk, sizeof blk, "blk=%zu off=%ld", e->size, (long)(desc - blkptr));
        } else {
            snprintf(blk, sizeof blk, "blk=unknown off=?");
        }
        pthread_mutex_unlock(&ledger_mtx);
    } else {
        snprintf(blk, sizeof blk, "blk=pool off=-");
    }
    /* run it */
    ABT_thread_join(th);
    int in = ((uintptr_t)base <= barg.frame && barg.frame < (uintptr_t)top);
    int gap = (barg.frame <= (uintptr_t)rsp0 && (uintptr_t)rsp0 - barg.frame <= 2048);
    /* free it */
    pthread_mutex_lock(&ledger_mtx);
    watch_lo = blkptr;
    watch_hi = blkptr ? blkptr + blksize : NULL;
    watch_freed_off = -1;
    watch_freed_cnt = 0;
    pthread_mutex_unlock(&ledger_mtx);
    if (freer_ext) {
        ext_job j = { 1, NULL, NULL, th, 0 };
        rc = run_ext(&j);
    } else {
        rc = ABT_thread_free(&th);
    }
    char fr[64];
    if (!malloc_type)
        snprintf(fr, sizeof fr, "fr=pool");
    else if (watch_freed_cnt == 1)
        snprintf(fr, sizeof fr, "fr=%ld", watch_freed_off);
    else
        snprintf(fr, sizeof fr, "fr=none(%d)", watch_freed_cnt);
    pthread_mutex_lock(&ledger_mtx);
    watch_lo = watch_hi = NULL;
    pthread_mutex_unlock(&ledger_mtx);
    if (kind[0] == 'r')
        printf("rt %zu t=%s recS=%zu d=%ld", S, type_name(ty), recS, (long)(top - desc));
    else
        printf("us %zu %ld t=%s recS=%zu d=u%ld", S, off8, type_name(ty), recS, (long)(top - ua));
    printf(" dm=%lu lost=%ld rspin=%d %s | run in=%d gap=%d lo=%d hi=%d | %s%s\n", (unsigned long)((uintptr_t)desc % 64),
           (long)(top - utop), rspin, blk, in, gap, barg.lo_ok, barg.hi_ok, fr, rc == ABT_SUCCESS ? "" : " free-err");
}

int main(void)
{
    char line[256];
    int inited = 0;
    ubuf_size = 1 << 20;
    if (__real_posix_memalign((void **)&ubuf, 64, ubuf_size))
        return 2;
    setvbuf(stdout, NULL, _IOLBF, 1 << 12);
    while (fgets(line, sizeof line, stdin)) {
        char a[128], b[128], who[16];
        unsigned long n;
        long off;
        if (sscanf(line, "env %127s %127s", a, b) == 2) {
            setenv(a, b, 1);
            printf("env\n");
        } else if (sscanf(line, "init %lu", &n) == 1) {
            pthread_mutex_lock(&ledger_mtx);
            ledger_epoch++;
            ledger_n = 0; /* forget everything allocated before (stdio buffers etc.) */
            pthread_mutex_unlock(&ledger_mtx);
            if (ABT_init(0, NULL) != ABT_SUCCESS) {
                printf("init err\n");
                continue;
            }
            inited = 1;
            ABT_xstream xs;
            ABT_xstream_self(&xs);
            ABT_xstream_get_main_pools(xs, 1, &main_pool);
            printf("init %zu\n", ABTI_global_get_global()->thread_stacksize);
        } else if (sscanf(line, "rt %lu %15s", &n, who) == 2) {
            if (!inited || n == 0 || !(strcmp(who, "ee") == 0 || strcmp(who, "xe") == 0 || strcmp(who, "ex") == 0)) {
                printf("bad-op\n");
                continue;
            }
            do_unit("rt", n, 0, who);
        } else if (sscanf(line, "us %lu %ld %15s", &n, &off, who) == 3) {
            if (!inited || n == 0 || off < 0 ||
                !(strcmp(who, "ee") == 0 || strcmp(who, "xe") == 0 || strcmp(who, "ex") == 0)) {
                printf("bad-op\n");
                continue;
            }
            do_unit("us", n, off, who);
        } else if (strncmp(line, "fin", 3) == 0) {
            if (inited) {
                ABT_finalize();
                inited = 0;
            }
            pthread_mutex_lock(&ledger_mtx);
            int live = ledger_n;
            if (live) {
                int i;
                for (i = 0; i < ledger_n && i < 5; i++)
                    fprintf(stderr, "LEDGER-VIOLATION after ABT_finalize: %s block %p of %zu bytes never released\n",
                            ledger[i].kind ? "mmap" : "malloc", ledger[i].ptr, ledger[i].size);
                ledger_violations++;
            }
            pthread_mutex_unlock(&ledger_mtx);
            if (guard_leaks)
                printf("fin live=%d guardleaks=%d\n", live, guard_leaks);
            else
                printf("fin live=%d\n", live);
        } else if (line[0] != '\n') {
            printf("bad-op\n");
        }
    }
    fflush(stdout);
    return ledger_violations ? 3 : 0;
}
