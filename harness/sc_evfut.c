/* vsched scenario family for C09: ABT_eventual (set / wait / test / reset) and ABT_future (set / wait / test / reset,
 * callback), callers of all three kinds, in phases separated by a reset.
 * usage: sc_evfut <seed> <mode> <log> <family ev|fut> <nes> <phases> <setters> <waiters> <testers> <x> [ext%] [task%] [y]
 *   ev : x = nbytes of the eventual E0 (0, 8 or 16); every phase: `setters` callers each call ABT_eventual_set once with a
 *        value of their own (exactly one wins), `waiters` ULT/external callers wait and check the value, `testers` callers
 *        poll with ABT_eventual_test; y != 0: one tasklet calls ABT_eventual_wait (must be rejected).  Main resets.
 *   fut: x = num_compartments of the future F0 (0, 1, 2, 5, ...); every phase performs x + `setters` ABT_future_set calls
 *        (the `setters` surplus ones must fail) spread over up to 4 setter actors; y&1: a tasklet calls ABT_future_wait
 *        (rejected); y&2: the future has no callback.  The callback contains a schedule point (a callback takes time):
 *        "ready" must not be observable by a lock-free ABT_future_test before the callback has *completed*; ULT / external
 *        testers may poll until ready.
 *   y&4: concurrent reset.  Every phase has no waiters (reset with a blocked waiter is undefined) and one extra actor
 *        that calls ABT_eventual_reset / ABT_future_reset once some sets of the phase have begun, concurrently with the
 *        others; the outcome (successful sets, callbacks, final ready flag / counter) must be explained by a
 *        linearisation of the sets and the reset that respects real time.
 *   y&8: "wait; free".  The last phase has exactly the sets that make the object ready, one waiter and nobody else; the
 *        waiter frees the object as soon as its wait has returned, i.e. possibly while the setter that woke it is still
 *        inside set.  `free` is interposed for this program: the freed object is poisoned and kept (never reused), every
 *        atomic operation on it after the free, and every plain write (checked at the end), is a write after free.
 * Monitors are plain C counters: under vsched a statement sequence without a hook point is atomic. */
#include "sc_common.h"
#include <sched.h>
#include <inttypes.h>

static const char *family = "ev";
static int phase, nphases;
#define MAIN_ID 99

static void relax(actor *a)
{
    if (a->kind == AK_ULT)
        ABT_thread_yield();
    else if (a->kind == AK_EXT)
        sched_yield();
}

static const char *rcname(int rc, char *buf)
{
    switch (rc) {
        case ABT_SUCCESS: return "ok";
        case ABT_ERR_EVENTUAL: return "ERR_EVENTUAL";
        case ABT_ERR_INV_EVENTUAL: return "ERR_INV_EVENTUAL";
        case ABT_ERR_FUTURE: return "ERR_FUTURE";
        case ABT_ERR_INV_ARG: return "ERR_INV_ARG";
        default: sprintf(buf, "rc%d", rc); return buf;
    }
}

/* ------------------------------------------------------------------------------- quarantining `free`
 * The program defines `free` itself (glibc: the allocator proper stays reachable as __libc_free).  A block that was
 * registered before the library frees it is poisoned and never handed back, so nothing else can legitimately live at
 * that address afterwards. */
extern void __libc_free(void *);
#define QMAX 4
#define POISON 0xDD
static struct {
    unsigned char *base;
    size_t size;
    int freed;
} quar[QMAX];
static int nquar;
static void quarantine(void *p, size_t size)
{
    if (p && size && nquar < QMAX) {
        quar[nquar].base = (unsigned char *)p;
        quar[nquar].size = size;
        quar[nquar].freed = 0;
        nquar++;
    }
}
void free(void *p)
{
    for (int i = 0; i < nquar; i++)
        if (p && quar[i].base == (unsigned char *)p && !quar[i].freed) {
            memset(p, POISON, quar[i].size);
            quar[i].freed = 1;
            return;
        }
    __libc_free(p);
}
/* every atomic operation of a controlled thread, just before it executes */
static void uaf_monitor(int kind, int width, const volatile void *addr, uint64_t x, uint64_t y)
{
    (void)width;
    (void)x;
    (void)y;
    static const char *opn[] = { "?", "load", "store", "clear", "tas", "cas", "fadd", "fsub", "for", "fand", "fxor", "xchg" };
    const unsigned char *c = (const unsigned char *)addr;
    for (int i = 0; i < nquar; i++)
        if (quar[i].freed && c >= quar[i].base && c < quar[i].base + quar[i].size)
            vs_fail("use after free: atomic %s at offset %zu of the freed %s (block %d, %zu bytes) by a caller still inside the object",
                    kind >= 0 && kind < 12 ? opn[kind] : "op", (size_t)(c - quar[i].base), i == 0 ? "object" : "buffer", i,
                    quar[i].size);
}
static void quarantine_check(void)
{
    for (int i = 0; i < nquar; i++) {
        if (!quar[i].freed)
            continue;
        for (size_t k = 0; k < quar[i].size; k++)
            if (quar[i].base[k] != POISON) {
                vs_fail("write after free: offset %zu of freed block %d (%zu bytes) was modified after the free", k, i, quar[i].size);
                break;
            }
    }
}

static int racy_reset;  /* y&4 */
static int rs_called, rs_done, rs_ret_before, rs_started_at_ret; /* the concurrent reset of a racy phase */
static int free_by_waiter, free_phase, freed_by_waiter; /* y&8; the current phase is the free phase; done */

/* the concurrent resetter polls a counter of the monitors (user-level busy waiting with an occasional yield, bounded),
 * then lets 0-2 schedule points pass so that the reset lands at different steps of the set in flight */
static void reset_trigger(actor *a, const int *started, int want)
{
    for (int spin = 0; a->kind != AK_TASK && *(volatile const int *)started < want && spin < 600; spin++) {
        if (spin % 8 == 7)
            relax(a);
        else
            vs_point();
    }
    for (int d = sc_rnd(3); d > 0; d--)
        vs_point();
}

enum { R_SET = 0, R_WAIT, R_TEST, R_TASKWAIT, R_RESET };
typedef struct {
    int role, nops;
} roleinfo;
static roleinfo roles[MAX_ACTORS + 1];

/* ---------------------------------------------------------------------------------------------- eventual */
static ABT_eventual E0;
static ABTI_eventual *pE;
static int e_nbytes;
static uint64_t e_val[MAX_ACTORS][2]; /* the value each setter passes in this phase */
static int e_started, e_succ, e_winner, e_rets;
static uint32_t e_started_mask;
static int w_has[MAX_ACTORS];
static uint64_t w_seen[MAX_ACTORS][2];

static const char *hexbuf(const void *p, int n, char *out)
{
    if (!p || n == 0)
        return "-";
    for (int i = 0; i < n; i++)
        sprintf(out + 2 * i, "%02x", ((const unsigned char *)p)[i]);
    return out;
}
/* is the buffer content the value of a setter that has begun its set in this phase? returns its id or -1 */
static int started_value(const void *buf)
{
    for (int i = 0; i < MAX_ACTORS; i++)
        if ((e_started_mask >> i & 1) && !memcmp(buf, e_val[i], (size_t)e_nbytes))
            return i;
    return -1;
}
static void check_value(actor *a, const char *what, void *ptr)
{
    if (e_nbytes == 0) {
        VSA_CHECK(ptr == NULL, "E0: %s by A%d returned value pointer %p for a 0-byte eventual", what, a->id, ptr);
        return;
    }
    VSA_CHECK(ptr == pE->value, "E0: %s by A%d returned value pointer %p, buffer is %p", what, a->id, ptr, pE->value);
    if (ptr != pE->value)
        return;
    int s = started_value(ptr);
    VSA_CHECK(s >= 0, "E0: %s by A%d read a value that no set of this phase passed (stale or torn): %016" PRIx64, what, a->id,
              *(uint64_t *)ptr);
    if (s >= 0) {
        w_has[a->id % MAX_ACTORS] = 1;
        memcpy(w_seen[a->id % MAX_ACTORS], ptr, (size_t)e_nbytes);
    }
}

static void ev_body(actor *a)
{
    char b[16], h[40];
    roleinfo *ri = &roles[a->id % MAX_ACTORS];
    int me = a->id % MAX_ACTORS;
    if (ri->role == R_SET) {
        if (ri->nops > 1) {
            /* too many bytes: refused without touching the eventual */
            vs_log("apiCall setbig E0");
            int rc0 = ABT_eventual_set(E0, e_val[me], e_nbytes + 1);
            vs_note("apiRet setbig E0 %s %s", rcname(rc0, b), hexbuf(pE->value, e_nbytes, h));
            VSA_CHECK(rc0 == ABT_ERR_INV_EVENTUAL, "oversized ABT_eventual_set returned %d", rc0);
        }
        if (sc_rnd(2))
            relax(a);
        vs_log("apiCall set E0 %s", hexbuf(e_val[me], e_nbytes, h));
        e_started++;
        e_started_mask |= 1u << me;
        int rc = ABT_eventual_set(E0, e_nbytes ? (void *)e_val[me] : NULL, e_nbytes);
        if (free_phase) {
            /* the woken waiter may free the eventual at any moment from now on: the object is not looked at any more */
            e_succ += rc == ABT_SUCCESS;
            e_winner = me;
            VSA_CHECK(rc == ABT_SUCCESS, "E0: the only ABT_eventual_set of the phase returned %d", rc);
            vs_note("apiRet set E0 %s %s", rcname(rc, b), hexbuf(e_val[me], e_nbytes, h));
            return;
        }
        e_rets++;
        if (rc == ABT_SUCCESS) {
            e_succ++;
            e_winner = me;
            VSA_CHECK(e_succ <= (racy_reset ? 2 : 1), "E0: one ABT_eventual_set too many succeeded (A%d) in phase %d", a->id, phase);
            if (e_nbytes && !racy_reset)
                VSA_CHECK(!memcmp(pE->value, e_val[me], (size_t)e_nbytes), "E0: value differs from the one A%d set", a->id);
        } else {
            VSA_CHECK(rc == ABT_ERR_EVENTUAL, "E0: losing ABT_eventual_set returned %d, expected ABT_ERR_EVENTUAL", rc);
            /* it changed nothing: the buffer holds another started setter's value, not mine */
            if (e_nbytes) {
                int s = started_value(pE->value);
                VSA_CHECK(s >= 0 && s != me, "E0: failed set by A%d modified the value", a->id);
            }
            VSA_CHECK(pE->ready == ABT_TRUE || rs_called, "E0: failed set but eventual not ready");
        }
        vs_note("apiRet set E0 %s %s", rcname(rc, b), hexbuf(pE->value, e_nbytes, h));
    } else if (ri->role == R_WAIT) {
        if (sc_rnd(2))
            relax(a);
        void *v = (void *)0x1;
        vs_log("apiCall wait E0");
        int rc = ABT_eventual_wait(E0, sc_rnd(8) ? &v : NULL);
        VSA_CHECK(rc == ABT_SUCCESS, "ABT_eventual_wait returned %d", rc);
        VSA_CHECK(e_started > 0, "E0: wait by A%d returned before any set of phase %d began", a->id, phase);
        VSA_CHECK(pE->ready == ABT_TRUE, "E0: wait returned but the eventual is not ready");
        if (v != (void *)0x1)
            check_value(a, "wait", v);
        vs_note("apiRet wait E0 %s %s", rcname(rc, b), hexbuf(pE->value, e_nbytes, h));
        if (free_phase) {
            /* the usual idiom: wait, then free.  ABT_eventual_free has to cope with the setter still being inside set */
            quarantine(pE, sizeof(ABTI_eventual));
            quarantine(pE->value, (size_t)e_nbytes);
            vs_note("apiCall free E0");
            int rcf = ABT_eventual_free(&E0);
            freed_by_waiter = 1;
            vs_note("apiRet free E0 %s", rcname(rcf, b));
            VSA_CHECK(rcf == ABT_SUCCESS && E0 == ABT_EVENTUAL_NULL, "ABT_eventual_free by A%d returned %d", a->id, rcf);
        }
    } else if (ri->role == R_TEST) {
        for (int k = 0; k < ri->nops; k++) {
            void *v = (void *)0x1;
            ABT_bool ready = 77;
            vs_log("apiCall test E0");
            int succ0 = e_succ;
            int rc = ABT_eventual_test(E0, &v, &ready);
            VSA_CHECK(rc == ABT_SUCCESS && (ready == ABT_TRUE || ready == ABT_FALSE), "ABT_eventual_test returned %d ready=%d", rc,
                      (int)ready);
            if (ready == ABT_TRUE) {
                VSA_CHECK(e_started > 0, "E0: test by A%d reported ready before any set of phase %d began", a->id, phase);
                check_value(a, "test", v);
            } else {
                VSA_CHECK(succ0 == 0 || rs_called, "E0: test by A%d reported not ready although a set had already returned", a->id);
                VSA_CHECK(v == (void *)0x1, "E0: test wrote the value pointer although not ready");
            }
            vs_note("apiRet test E0 %s %d %s", rcname(rc, b), ready == ABT_TRUE, ready == ABT_TRUE ? hexbuf(pE->value, e_nbytes, h) : "-");
            if (a->kind != AK_TASK)
                relax(a);
        }
    } else if (ri->role == R_RESET) {
        /* reset concurrently with the sets of this phase: as soon as the `nops`-th of them has begun (tasklets cannot wait) */
        reset_trigger(a, &e_started, ri->nops);
        vs_note("apiCall reset E0");
        rs_called = 1;
        rs_ret_before = e_rets;
        int rc = ABT_eventual_reset(E0);
        rs_started_at_ret = e_started;
        rs_done = 1;
        vs_note("apiRet reset E0 %s -", rcname(rc, b));
        VSA_CHECK(rc == ABT_SUCCESS, "ABT_eventual_reset returned %d", rc);
    } else {
        void *v;
        vs_log("apiCall wait E0");
        int rc = ABT_eventual_wait(E0, &v);
        vs_note("apiRet wait E0 %s -", rcname(rc, b));
        VSA_CHECK(rc == ABT_ERR_EVENTUAL, "ABT_eventual_wait by tasklet A%d returned %d", a->id, rc);
    }
}

static void ev_phase_begin(void)
{
    e_started = e_succ = e_rets = 0;
    rs_called = rs_done = rs_ret_before = rs_started_at_ret = 0;
    e_started_mask = 0;
    e_winner = -1;
    memset(w_has, 0, sizeof w_has);
    for (int i = 0; i < MAX_ACTORS; i++) {
        e_val[i][0] = 0xE700000000000000ull | ((uint64_t)(phase + 1) << 32) | ((uint64_t)(i + 1) << 8) | 0x5a;
        e_val[i][1] = ~e_val[i][0];
    }
}
static void ev_phase_end(int nset)
{
    if (racy_reset) {
        /* linearisability of nset sets and one reset: with k sets taking effect before the reset (k at least the sets
         * that had returned when the reset was called, at most those begun when it returned), (k >= 1) + (nset - k >= 1)
         * sets succeed and the eventual ends up ready iff nset - k >= 1 */
        int ok = 0, r = pE->ready == ABT_TRUE;
        VSA_CHECK(rs_done == 1 && e_started == nset && e_rets == nset, "E0: phase %d: %d sets begun, %d returned, reset done=%d", phase,
                  e_started, e_rets, rs_done);
        for (int k = rs_ret_before; k <= rs_started_at_ret && k <= nset; k++)
            if (e_succ == (k >= 1) + (nset - k >= 1) && r == (nset - k >= 1))
                ok = 1;
        VSA_CHECK(ok, "E0: phase %d: no linearisation of %d sets and a concurrent reset explains the outcome: %d sets succeeded, "
                      "ready=%d at the end (%d sets had returned when the reset was called, %d had begun when it returned)",
                  phase, nset, e_succ, r, rs_ret_before, rs_started_at_ret);
        return;
    }
    VSA_CHECK(e_started == nset && e_succ == (nset > 0), "E0: phase %d: %d sets, %d succeeded", phase, e_started, e_succ);
    if (freed_by_waiter)
        return;
    if (e_winner >= 0 && e_nbytes) {
        VSA_CHECK(!memcmp(pE->value, e_val[e_winner], (size_t)e_nbytes), "E0: final value is not the winner's");
        for (int i = 0; i < MAX_ACTORS; i++)
            if (w_has[i])
                VSA_CHECK(!memcmp(w_seen[i], e_val[e_winner], (size_t)e_nbytes), "E0: a reader saw a value other than the first set's");
    }
}

/* ------------------------------------------------------------------------------------------------ future */
#define MAXC 8
static ABT_future F0;
static ABTI_future *pF;
static int f_n, f_hascb;
static int f_started, f_succ, f_fail, f_rets, cb_count, cb_done;

static void *f_started_vals[64], *f_succ_vals[64], *cb_seen[MAXC];
static int f_next;

static void fut_cb(void **args)
{
    cb_count++;
    /* a callback takes time: other callers run while it is in progress */
    vs_log("cbBegin F0");
    char line[256];
    int o = 0;
    line[0] = 0;
    for (int i = 0; i < f_n && i < MAXC; i++) {
        cb_seen[i] = args[i];
        o += sprintf(line + o, " %" PRIxPTR, (uintptr_t)args[i]);
        int ok = 0;
        for (int k = 0; k < f_started; k++)
            ok |= f_started_vals[k] == args[i];
        VSA_CHECK(ok, "F0: callback argument %d (%p) is not a value passed to a set of this phase", i, args[i]);
        for (int k = 0; k < i; k++)
            VSA_CHECK(args[k] != args[i], "F0: callback saw the same value in compartments %d and %d", k, i);
    }
    vs_note("cb F0%s", line);
    cb_done++;
    VSA_CHECK(cb_count <= (racy_reset ? 2 : 1), "F0: callback ran %d times in phase %d", cb_count, phase);
}

static void fut_body(actor *a)
{
    char b[16];
    roleinfo *ri = &roles[a->id % MAX_ACTORS];
    if (ri->role == R_SET) {
        for (int k = 0; k < ri->nops; k++) {
            void *val = (void *)(uintptr_t)(0xF0000 + (phase + 1) * 0x1000 + f_next++);
            vs_log("apiCall set F0 %" PRIxPTR, (uintptr_t)val);
            f_started_vals[f_started++] = val;
            int rc = ABT_future_set(F0, val);
            f_rets++;
            if (rc == ABT_SUCCESS) {
                f_succ_vals[f_succ++] = val;
                VSA_CHECK(f_succ <= (racy_reset ? 2 : 1) * f_n, "F0: set number %d succeeded on a future with %d compartments", f_succ, f_n);
            } else {
                f_fail++;
                VSA_CHECK(rc == ABT_ERR_FUTURE, "F0: ABT_future_set returned %d", rc);
                VSA_CHECK(f_started - 1 >= f_n, "F0: a set failed although only %d other sets began (compartments=%d)",
                          f_started - 1, f_n);
            }
            vs_note("apiRet set F0 %s", rcname(rc, b));
            if (sc_rnd(2))
                relax(a);
        }
    } else if (ri->role == R_WAIT) {
        if (sc_rnd(2))
            relax(a);
        vs_log("apiCall wait F0");
        int rc = ABT_future_wait(F0);
        VSA_CHECK(rc == ABT_SUCCESS, "ABT_future_wait returned %d", rc);
        VSA_CHECK(f_started >= f_n, "F0: wait by A%d returned after only %d of %d sets began", a->id, f_started, f_n);
        if (f_hascb && f_n > 0)
            VSA_CHECK(cb_count == 1 && cb_done == 1, "F0: wait by A%d returned but the callback was started %d times and completed %d times",
                      a->id, cb_count, cb_done);
        vs_note("apiRet wait F0 %s", rcname(rc, b));
        if (free_phase) {
            /* wait, then free: ABT_future_free has to cope with the last setter still being inside set */
            quarantine(pF, sizeof(ABTI_future));
            quarantine(pF->array, (size_t)f_n * sizeof(void *));
            vs_note("apiCall free F0");
            int rcf = ABT_future_free(&F0);
            freed_by_waiter = 1;
            vs_note("apiRet free F0 %s", rcname(rcf, b));
            VSA_CHECK(rcf == ABT_SUCCESS && F0 == ABT_FUTURE_NULL, "ABT_future_free by A%d returned %d", a->id, rcf);
        }
    } else if (ri->role == R_RESET) {
        /* reset concurrently with the sets of this phase: as soon as the `nops`-th of them has begun, i.e. typically
         * while it is in flight and the earlier ones have returned (tasklets cannot wait) */
        reset_trigger(a, &f_started, ri->nops);
        vs_note("apiCall reset F0");
        rs_called = 1;
        rs_ret_before = f_rets;
        int rc = ABT_future_reset(F0);
        rs_started_at_ret = f_started;
        rs_done = 1;
        vs_note("apiRet reset F0 %s", rcname(rc, b));
        VSA_CHECK(rc == ABT_SUCCESS, "ABT_future_reset returned %d", rc);
    } else if (ri->role == R_TEST) {
        /* nops < 0: poll until ready (bounded) */
        int until = ri->nops < 0, npoll = until ? 60 : ri->nops;
        for (int k = 0; k < npoll; k++) {
            ABT_bool ready = 77;
            vs_log("apiCall test F0");
            int succ0 = f_succ;
            int rc = ABT_future_test(F0, &ready);
            VSA_CHECK(rc == ABT_SUCCESS && (ready == ABT_TRUE || ready == ABT_FALSE), "ABT_future_test returned %d ready=%d", rc, (int)ready);
            if (ready == ABT_TRUE) {
                VSA_CHECK(f_started >= f_n, "F0: test reported ready after only %d of %d sets began", f_started, f_n);
                if (f_hascb && f_n > 0)
                    VSA_CHECK(cb_done >= 1 && (racy_reset || (cb_count == 1 && cb_done == 1)),
                              "F0: test by A%d reported ready but the callback was started %d times and completed %d times", a->id,
                              cb_count, cb_done);
            } else {
                VSA_CHECK(succ0 < f_n || rs_called, "F0: test reported not ready although %d sets had returned", succ0);
            }
            vs_note("apiRet test F0 %s %d", rcname(rc, b), ready == ABT_TRUE);
            if (until && ready == ABT_TRUE)
                break;
            if (a->kind != AK_TASK)
                relax(a);
        }
    } else {
        vs_log("apiCall wait F0");
        int rc = ABT_future_wait(F0);
        vs_note("apiRet wait F0 %s", rcname(rc, b));
        VSA_CHECK(rc == ABT_ERR_FUTURE, "ABT_future_wait by tasklet A%d returned %d", a->id, rc);
    }
}

static int imin(int x, int y) { return x < y ? x : y; }
static void fut_phase_begin(void)
{
    f_started = f_succ = f_fail = f_rets = cb_count = cb_done = 0;
    rs_called = rs_done = rs_ret_before = rs_started_at_ret = 0;
    memset(cb_seen, 0, sizeof cb_seen);
}
static void fut_phase_end(int total)
{
    if (racy_reset) {
        /* linearisability of `total` sets and one reset.  k = number of sets that take effect before the reset: at least
         * the sets that had returned when the reset was called, at most those that had begun when it returned.  Then
         * min(k, n) + min(total - k, n) sets succeed, the callback runs once per completed filling, and the counter ends
         * at min(total - k, n). */
        int c = freed_by_waiter ? -1 : (int)pF->counter.val, ok = 0;
        VSA_CHECK(rs_done == 1 && f_started == total && f_rets == total && f_succ + f_fail == total,
                  "F0: phase %d: %d sets begun, %d returned (%d ok, %d failed), reset done=%d", phase, f_started, f_rets, f_succ, f_fail, rs_done);
        for (int k = rs_ret_before; k <= rs_started_at_ret && k <= total; k++) {
            int cbexp = (f_hascb && f_n > 0) ? (k >= f_n) + (total - k >= f_n) : 0;
            if (f_succ == imin(k, f_n) + imin(total - k, f_n) && c == imin(total - k, f_n) && cb_done == cbexp && cb_count == cbexp)
                ok = 1;
        }
        VSA_CHECK(ok, "F0: phase %d: no linearisation of %d sets and a concurrent reset explains the outcome: %d sets succeeded, %d "
                      "callbacks, final counter %d (compartments=%d; %d sets had returned when the reset was called, %d had begun "
                      "when it returned)", phase, total, f_succ, cb_done, c, f_n, rs_ret_before, rs_started_at_ret);
        char line[256];
        int o = 0;
        line[0] = 0;
        for (int i = 0; i < c && i < MAXC; i++)
            o += sprintf(line + o, " %" PRIxPTR, (uintptr_t)pF->array[i]);
        vs_note("arr F0%s", line);
        return;
    }
    int expect = total < f_n ? total : f_n;
    VSA_CHECK(f_started == total && f_succ == expect && f_fail == total - expect, "F0: phase %d: %d sets, %d ok, %d failed (compartments=%d)",
              phase, f_started, f_succ, f_fail, f_n);
    int cbexp = (f_hascb && f_n > 0 && total >= f_n) ? 1 : 0;
    VSA_CHECK(cb_count == cbexp && cb_done == cbexp, "F0: callback started %d times, completed %d times in phase %d, expected %d", cb_count,
              cb_done, phase, cbexp);
    if (cbexp) {
        /* the callback saw exactly the values of the successful sets */
        for (int i = 0; i < f_n; i++) {
            int found = 0;
            for (int k = 0; k < f_succ; k++)
                found += cb_seen[i] == f_succ_vals[k];
            VSA_CHECK(found == 1, "F0: callback compartment %d = %p is not the value of exactly one successful set", i, cb_seen[i]);
        }
    }
    if (freed_by_waiter)
        return;
    char line[256];
    int o = 0;
    line[0] = 0;
    for (int i = 0; i < expect && i < MAXC; i++)
        o += sprintf(line + o, " %" PRIxPTR, (uintptr_t)pF->array[i]);
    vs_note("arr F0%s", line);
}

/* ------------------------------------------------------------------------------------------------- main */
static void launch(int lo, int hi)
{
    for (int i = lo; i < hi; i++) {
        actor *a = &sc_actors[i % MAX_ACTORS];
        a->id = i;
        a->started = a->finished = 0;
        if (a->kind == AK_ULT) {
            ABT_OK(ABT_thread_create(sc_pool[a->es], sc_actor_entry, a, ABT_THREAD_ATTR_NULL, &a->th));
            vsa_name_thread(a->th, "A%d", i);
        } else if (a->kind == AK_TASK) {
            ABT_OK(ABT_task_create(sc_pool[a->es], sc_actor_entry, a, (ABT_task *)&a->th));
            vsa_name_thread(a->th, "A%d", i);
        } else {
            pthread_create(&a->pt, NULL, sc_actor_entry_pt, a);
        }
    }
}
static void join(int lo, int hi)
{
    for (int i = lo; i < hi; i++) {
        actor *a = &sc_actors[i % MAX_ACTORS];
        if (a->kind == AK_EXT)
            continue;
        ABT_OK(ABT_thread_join(a->th));
        VSA_CHECK(a->finished == 1, "join of A%d returned but finished=%d", i, a->finished);
        vs_unname(ABTI_thread_get_ptr(a->th));
        ABT_OK(ABT_thread_free(&a->th));
    }
    for (int i = lo; i < hi; i++) {
        actor *a = &sc_actors[i % MAX_ACTORS];
        if (a->kind == AK_EXT)
            pthread_join(a->pt, NULL);
        VSA_CHECK(a->started == 1 && a->finished == 1, "actor A%d started=%d finished=%d", i, a->started, a->finished);
    }
}

int main(int argc, char **argv)
{
    char b[16];
    vsa_setup(argc, argv);
    if (vsa_argc > 0)
        family = vsa_argv[0];
    int nes = (int)vsa_param(1, 2);
    nphases = (int)vsa_param(2, 2);
    int nset = (int)vsa_param(3, 2), nwait = (int)vsa_param(4, 2), ntest = (int)vsa_param(5, 1);
    int x = (int)vsa_param(6, 8);
    int extpct = (int)vsa_param(7, 30), taskpct = (int)vsa_param(8, 20), y = (int)vsa_param(9, 0);
    if (nes > MAX_ES)
        nes = MAX_ES;
    int isfut = !strcmp(family, "fut");
    if (!isfut && strcmp(family, "ev")) {
        fprintf(stderr, "unknown family %s\n", family);
        return 2;
    }
    ABT_init(0, NULL);
    vsa_begin();
    vs_note("O ABTI_eventual value %zu %zu", offsetof(ABTI_eventual, value), sizeof(void *));
    vs_note("O ABTI_eventual nbytes %zu %zu", offsetof(ABTI_eventual, nbytes), sizeof(size_t));
    vs_note("O ABTI_future num_compartments %zu %zu", offsetof(ABTI_future, num_compartments), sizeof(size_t));
    vs_note("O ABTI_future p_callback %zu %zu", offsetof(ABTI_future, p_callback), sizeof(void *));
    vs_note("O ABTI_waitlist p_head %zu %zu", offsetof(ABTI_waitlist, p_head), sizeof(void *));
    vs_note("scenario evfut family=%s nes=%d", family, nes);
    sc_streams(nes, ABT_SCHED_BASIC);
    {
        ABT_thread self;
        ABT_OK(ABT_thread_self(&self));
        vsa_name_thread(self, "A%d", MAIN_ID);
        vs_note("actor A%d kind=ult es=0", MAIN_ID);
    }
    int nsetact; /* setter actors */
    if (isfut) {
        f_n = x;
        f_hascb = !(y & 2);
        ABT_OK(ABT_future_create((uint32_t)f_n, f_hascb ? fut_cb : NULL, &F0));
        pF = ABTI_future_get_ptr(F0);
        vs_name_ex(pF, sizeof(ABTI_future), VS_SNAP, "F0");
        vs_note("obj F0 n=%d cb=%d", f_n, f_hascb);
        nsetact = f_n + nset == 0 ? 0 : 1 + sc_rnd(f_n + nset < 4 ? f_n + nset : 4);
    } else {
        e_nbytes = x;
        ABT_OK(ABT_eventual_create(e_nbytes, &E0));
        pE = ABTI_eventual_get_ptr(E0);
        vs_name_ex(pE, sizeof(ABTI_eventual), VS_SNAP, "E0");
        {
            char h0[40];
            vs_note("obj E0 nbytes=%d v0=%s", e_nbytes, hexbuf(pE->value, e_nbytes, h0));
        }
        if (nset < 1)
            nset = 1;
        nsetact = nset;
    }
    int taskwait = (y & 1) ? 1 : 0;
    racy_reset = (y & 4) && !(y & 8);
    free_by_waiter = (y & 8) ? 1 : 0;
    vs_set_atomic_fn(uaf_monitor);
    if (nsetact + nwait + ntest + taskwait + 1 > MAX_ACTORS) {
        fprintf(stderr, "too many actors\n");
        return 2;
    }
    int base = 0;
    for (phase = 0; phase < nphases; phase++) {
        if (isfut)
            fut_phase_begin();
        else
            ev_phase_begin();
        /* the composition of this phase */
        free_phase = free_by_waiter && phase == nphases - 1;
        int total = isfut ? f_n + nset : nset;
        int p_set = nsetact, p_wait = nwait, p_test = ntest, p_task = taskwait, p_reset = 0;
        if (free_phase) {
            /* exactly the sets that make the object ready, one waiter who frees, nobody else */
            total = isfut ? f_n : 1;
            p_set = total < nsetact ? total : nsetact;
            p_wait = 1;
            p_test = p_task = 0;
        } else if (racy_reset) {
            p_wait = p_task = 0;
            p_reset = 1;
        }
        int n = p_set + p_wait + p_test + p_task + p_reset;
        vs_note("phase %d setters=%d waiters=%d testers=%d taskwait=%d total_sets=%d resetters=%d free=%d", phase, p_set, p_wait, p_test,
                p_task, total, p_reset, free_phase);
        /* roles in a random order so that creation order does not favour anybody */
        int order[MAX_ACTORS];
        for (int i = 0; i < n; i++)
            order[i] = i;
        for (int i = n - 1; i > 0; i--) {
            int j = sc_rnd(i + 1), t = order[i];
            order[i] = order[j];
            order[j] = t;
        }
        for (int k = 0; k < n; k++) {
            int i = base + k;
            actor *a = &sc_actors[i % MAX_ACTORS];
            roleinfo *ri = &roles[i % MAX_ACTORS];
            int r = order[k];
            int kr = sc_rnd(100);
            a->es = sc_rnd(nes);
            a->body = isfut ? fut_body : ev_body;
            if (r < p_set) {
                ri->role = R_SET;
                if (isfut)
                    ri->nops = total / p_set + (r < total % p_set);
                else
                    ri->nops = free_phase ? 1 : 1 + (sc_rnd(4) == 0);
                a->kind = kr < extpct ? AK_EXT : (kr < extpct + taskpct ? AK_TASK : AK_ULT);
            } else if (r < p_set + p_wait) {
                ri->role = R_WAIT;
                ri->nops = 1;
                a->kind = kr < extpct ? AK_EXT : AK_ULT;
            } else if (r < p_set + p_wait + p_test) {
                ri->role = R_TEST;
                ri->nops = 1 + sc_rnd(3);
                a->kind = kr < extpct ? AK_EXT : (kr < extpct + taskpct ? AK_TASK : AK_ULT);
                if (isfut && a->kind != AK_TASK && sc_rnd(2))
                    ri->nops = -1; /* poll until ready */
            } else if (r < p_set + p_wait + p_test + p_task) {
                ri->role = R_TASKWAIT;
                ri->nops = 1;
                a->kind = AK_TASK;
            } else {
                ri->role = R_RESET;
                /* reset once this many sets have begun; mostly late in the phase: only a reset that races with one of
                 * the last sets (when the surplus ones can no longer refill the object) leaves a visible trace */
                ri->nops = total ? 1 + sc_rnd(total) : 0;
                if (isfut && f_n >= 2 && sc_rnd(3)) {
                    int lo = total - f_n + 2;
                    ri->nops = lo + sc_rnd(total - lo + 1);
                }
                a->kind = kr < extpct ? AK_EXT : (kr < extpct + taskpct ? AK_TASK : AK_ULT);
            }
            vs_note("actor A%d kind=%s es=%d", i, AKN[a->kind], a->es);
        }
        launch(base, base + n);
        join(base, base + n);
        if (isfut)
            fut_phase_end(total);
        else
            ev_phase_end(total);
        base += n;
        /* reset by the main ULT; the last phase's state stays for the free */
        if (phase + 1 < nphases) {
            if (isfut) {
                vs_log("apiCall reset F0");
                int rc = ABT_future_reset(F0);
                vs_note("apiRet reset F0 %s", rcname(rc, b));
                VSA_CHECK(rc == ABT_SUCCESS, "ABT_future_reset returned %d", rc);
                ABT_bool ready = 77;
                vs_log("apiCall test F0");
                ABT_OK(ABT_future_test(F0, &ready));
                vs_note("apiRet test F0 ok %d", ready == ABT_TRUE);
                VSA_CHECK(ready == (f_n == 0 ? ABT_TRUE : ABT_FALSE), "F0: test after reset says ready=%d (compartments=%d)", (int)ready, f_n);
            } else {
                vs_log("apiCall reset E0");
                int rc = ABT_eventual_reset(E0);
                vs_note("apiRet reset E0 %s -", rcname(rc, b));
                VSA_CHECK(rc == ABT_SUCCESS, "ABT_eventual_reset returned %d", rc);
                VSA_CHECK(pE->ready == ABT_FALSE, "E0: still ready after reset");
            }
        }
    }
    if (free_by_waiter) {
        VSA_CHECK(freed_by_waiter == 1, "the waiter of the last phase did not free the object");
    } else {
        vs_note("apiCall free %s", isfut ? "F0" : "E0");
        int rcf = isfut ? ABT_future_free(&F0) : ABT_eventual_free(&E0);
        vs_note("apiRet free %s %s", isfut ? "F0" : "E0", rcname(rcf, b));
        VSA_CHECK(rcf == ABT_SUCCESS, "ABT_%s_free returned %d", isfut ? "future" : "eventual", rcf);
    }
    sc_stop_streams();
    ABT_finalize();
    quarantine_check();
    int rc = vsa_end();
    if (rc)
        fprintf(stderr, "MONITOR: %s\n", vs_first_failure());
    return rc;
}
