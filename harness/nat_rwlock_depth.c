/* C10, native part: a readers-writer lock with d read holds outstanding admits no writer until the d-th unlock, for numbers of
 * holds far beyond what the controlled scenarios reach (the Lean model counts the readers in Nat; `bytesRwlockReaderCount`
 * ties the width).  A ULT on the primary stream takes d read locks; a writer ULT on a second stream then calls
 * ABT_rwlock_wrlock and must get in only after the last read hold is gone.
 * exit 0 ok, 1 violation */
#include <abt.h>
#include <stdio.h>
#include <unistd.h>
static ABT_rwlock rw;
static volatile long held;   /* read holds outstanding right now */
static volatile int go, writer_in, writer_done, bad;
static void writer(void *a)
{
    (void)a;
    while (!go)
        ABT_thread_yield();
    ABT_rwlock_wrlock(rw);
    long h = held;
    writer_in = 1;
    if (h > 0) {
        printf("a writer acquired the lock while %ld read hold(s) are outstanding\n", h);
        bad = 1;
    }
    ABT_rwlock_unlock(rw);
    writer_done = 1;
}
int main(void)
{
    ABT_init(0, NULL);
    ABT_rwlock_create(&rw);
    ABT_xstream xs;
    ABT_xstream_create(ABT_SCHED_NULL, &xs);
    static const long depths[] = { 1, 2, 300, 40000, 65536, 65537, 70000, 131073 };
    for (unsigned k = 0; k < sizeof depths / sizeof depths[0] && !bad; k++) {
        long d = depths[k];
        ABT_thread th;
        go = writer_in = writer_done = 0;
        ABT_thread_create_on_xstream(xs, writer, NULL, ABT_THREAD_ATTR_NULL, &th);
        for (long i = 0; i < d; i++) {
            int rc = ABT_rwlock_rdlock(rw);
            if (rc != ABT_SUCCESS) {
                printf("read acquisition %ld of %ld returned %d\n", i + 1, d, rc);
                bad = 1;
                break;
            }
            held = i + 1;
        }
        go = 1;
        for (int w = 0; w < 30 && !writer_in; w++)
            usleep(1000); /* the writer is blocked in wrlock by now (or wrongly inside) */
        if (writer_in && !bad) {
            printf("a writer got the lock while %ld read hold(s) were outstanding\n", held);
            bad = 1;
        }
        for (long i = held; i > 0; i--) {
            held = i - 1; /* (set first: the writer may enter as soon as the last unlock takes effect) */
            ABT_rwlock_unlock(rw);
        }
        ABT_thread_free(&th);
        if (!writer_done && !bad) {
            printf("the writer was not admitted after all %ld read holds were released\n", d);
            bad = 1;
        }
    }
    ABT_xstream_join(xs);
    ABT_xstream_free(&xs);
    ABT_rwlock_free(&rw);
    ABT_finalize();
    if (!bad)
        printf("rwlock reader counts up to 131073: ok\n");
    return bad;
}
