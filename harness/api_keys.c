/* API-level differential driver for work-unit-local storage (C16).
 *
 * Drives ABT_key_create / ABT_key_set / ABT_key_get / ABT_self_{set,get}_specific /
 * ABT_thread_{set,get}_specific / ABT_thread_free / ABT_thread_revive /
 * ABT_thread_set_callback (predefined migration key) through the public API from
 * the primary ULT, from inside ULTs and tasklets (named and unnamed), with
 * ABT_KEY_TABLE_SIZE chosen per ABT_init.  After every set it dumps (white-box,
 * read-only, via abti.h) the touched bucket chain and the storage-block list of
 * the target unit's table.  Line protocol identical to `driver ktable`:
 *
 *   init N | fin | key D | keyfree I | spawn ult|task|uult|utask | in W sub ; sub ...
 *   free W | revive W | mig W | dump W
 *   sub := sset K V | sget K | sset2 K V | sget2 K | oset W K V | oget W K | exit
 *
 * `in W ...` runs its sub-operations inside work unit W (0 = primary ULT) in one
 * scheduling; a ULT yields afterwards unless `exit` was given, a tasklet always
 * terminates.  Destructor calls are logged in call order as d<fn>:<value>. */
#include "abti.h"
#include <stdio.h>
#include <stdlib.h>
#include <string.h>
#include <unistd.h>

#define MAXU 4096
#define MAXK 4096

enum { U_FREE = 0, U_READY, U_TERM };
static ABT_thread th[MAXU];
static int ust[MAXU], ukind[MAXU]; /* kind: 0 ult 1 task 2 uult 3 utask */
static int nunits = 1;
static ABT_key keys[MAXK];
static int keyalive[MAXK];
static int nkeys = 0;
static ABT_pool pool0;
static int inited = 0;

static char dlog[1 << 16];
static size_t dlen = 0;
static void dl(int fn, void *v)
{
    dlen += snprintf(dlog + dlen, sizeof dlog - dlen, " d%d:%lu", fn, (unsigned long)(uintptr_t)v);
}
static void dtor1(void *v) { dl(1, v); }
static void dtor2(void *v) { dl(2, v); }
static void mig_cb(ABT_thread t, void *arg) { (void)t; (void)arg; }

static char obuf[1 << 16];
static size_t olen = 0;
#define OUT(...) (olen += snprintf(obuf + olen, sizeof obuf - olen, __VA_ARGS__))
static void flush_line(void)
{
    if (dlen) {
        OUT(" | dtor%s", dlog);
        dlen = 0;
        dlog[0] = 0;
    }
    puts(obuf);
    olen = 0;
    obuf[0] = 0;
}

/* ---- white-box, read-only dump helpers ---- */
static ABTI_ktable *table_of(int w)
{
    ABTI_thread *p = ABTI_thread_get_ptr(th[w]);
    ABTI_ktable *t = (ABTI_ktable *)ABTD_atomic_acquire_load_ptr(&p->p_keytable);
    return ABTI_ktable_is_valid(t) ? t : NULL;
}
static void dump_chain(ABTI_ktable *t, int i)
{
    ABTI_ktelem *e = (ABTI_ktelem *)ABTD_atomic_acquire_load_ptr(&t->p_elems[i]);
    OUT("b%d:", i);
    for (; e; e = (ABTI_ktelem *)ABTD_atomic_acquire_load_ptr(&e->p_next)) {
        if (e->key_id < ABTI_KEY_ID_END_)
            OUT(" %u=*", e->key_id);
        else
            OUT(" %u=%lu", e->key_id, (unsigned long)(uintptr_t)e->value);
    }
}
static void dump_blocks(ABTI_ktable *t)
{
    ABTI_ktable_mem_header *h = (ABTI_ktable_mem_header *)t->p_used_mem;
    OUT(" | blk=");
    for (; h; h = h->p_next)
        OUT("%c", h->is_from_mempool ? 'P' : 'M');
    OUT(" extra=%zu", t->extra_mem_size);
}
static void dump_after_set(int w, ABT_key key)
{
    ABTI_ktable *t = table_of(w);
    if (!t) {
        OUT(" | null");
        return;
    }
    OUT(" | ");
    dump_chain(t, (int)ABTI_ktable_get_idx(ABTI_key_get_ptr(key), t->size));
    dump_blocks(t);
}

/* ---- sub-operations, executed by the work unit `self` ---- */
static int exit_flag;
static void run_subs(int self, char *subs)
{
    char *save = NULL;
    int first = 1;
    for (char *s = strtok_r(subs, ";", &save); s; s = strtok_r(NULL, ";", &save)) {
        char op[16] = "";
        long a = -1, b = -1, c = -1;
        int n = sscanf(s, " %15s %ld %ld %ld", op, &a, &b, &c);
        if (!first)
            OUT(" ;");
        first = 0;
        if (n < 1) {
            OUT(" bad-op");
            continue;
        }
        if (!strcmp(op, "exit") && n == 1) {
            exit_flag = 1;
            OUT(" exit");
        } else if ((!strcmp(op, "sset") || !strcmp(op, "sset2")) && n == 3 && a >= 0 && a < nkeys && keyalive[a]) {
            int r = !strcmp(op, "sset") ? ABT_key_set(keys[a], (void *)(uintptr_t)b)
                                        : ABT_self_set_specific(keys[a], (void *)(uintptr_t)b);
            OUT(" set %d", r);
            dump_after_set(self, keys[a]);
        } else if ((!strcmp(op, "sget") || !strcmp(op, "sget2")) && n == 2 && a >= 0 && a < nkeys && keyalive[a]) {
            void *v = (void *)(uintptr_t)0xdeadbeef;
            int r = !strcmp(op, "sget") ? ABT_key_get(keys[a], &v) : ABT_self_get_specific(keys[a], &v);
            OUT(" get %d %lu", r, (unsigned long)(uintptr_t)v);
        } else if (!strcmp(op, "oset") && n == 4 && a >= 0 && a < nunits && ust[a] != U_FREE && b >= 0 &&
                   b < nkeys && keyalive[b]) {
            int r = ABT_thread_set_specific(th[a], keys[b], (void *)(uintptr_t)c);
            OUT(" set %d", r);
            dump_after_set((int)a, keys[b]);
        } else if (!strcmp(op, "oget") && n == 3 && a >= 0 && a < nunits && ust[a] != U_FREE && b >= 0 &&
                   b < nkeys && keyalive[b]) {
            void *v = (void *)(uintptr_t)0xdeadbeef;
            int r = ABT_thread_get_specific(th[a], keys[b], &v);
            OUT(" get %d %lu", r, (unsigned long)(uintptr_t)v);
        } else {
            OUT(" bad-op");
        }
    }
}

static char *pending;
static int pending_self;
static void body(void *arg)
{
    (void)arg;
    for (;;) {
        int self = pending_self;
        run_subs(self, pending);
        if (exit_flag || ukind[self] == 1 || ukind[self] == 3)
            return;
        ABT_self_yield();
    }
}

static void repop(int w)
{
    ABT_thread t = ABT_THREAD_NULL;
    ABT_pool_pop_thread(pool0, &t);
    if (t != th[w]) {
        printf("harness-error: popped unexpected unit\n");
        exit(3);
    }
}

int main(void)
{
    static char line[1 << 16];
    setvbuf(stdout, NULL, _IOLBF, 1 << 16);
    while (fgets(line, sizeof line, stdin)) {
        char op[16] = "", arg[32] = "";
        long a = -1;
        int pos = 0;
        if (sscanf(line, " %15s%n", op, &pos) < 1)
            continue;
        char *rest = line + pos;
        olen = 0;
        obuf[0] = 0;
        if (!strcmp(op, "init") && sscanf(rest, "%ld", &a) == 1 && !inited) {
            char buf[32];
            snprintf(buf, sizeof buf, "%ld", a);
            setenv("ABT_KEY_TABLE_SIZE", buf, 1);
            if (ABT_init(0, NULL) != ABT_SUCCESS) {
                printf("harness-error: init\n");
                return 3;
            }
            inited = 1;
            ABT_pool_create_basic(ABT_POOL_FIFO, ABT_POOL_ACCESS_MPMC, ABT_FALSE, &pool0);
            ABT_self_get_thread(&th[0]);
            ust[0] = U_READY;
            ukind[0] = 0;
            OUT("init size=%u", ABTI_global_get_global()->key_table_size);
        } else if (!strcmp(op, "fin") && inited) {
            int busy = 0;
            for (int i = 1; i < nunits; i++)
                busy |= ust[i] != U_FREE;
            if (busy) {
                OUT("bad-op");
            } else {
                ABT_pool_free(&pool0);
                ABT_finalize();
                inited = 0;
                ust[0] = U_FREE;
                OUT("fin");
            }
        } else if (!inited) {
            OUT("bad-op");
        } else if (!strcmp(op, "key") && sscanf(rest, "%ld", &a) == 1 && a >= 0 && a <= 2 && nkeys < MAXK) {
            int r = ABT_key_create(a == 0 ? NULL : a == 1 ? dtor1 : dtor2, &keys[nkeys]);
            keyalive[nkeys] = 1;
            OUT("key %d %u", r, ABTI_key_get_ptr(keys[nkeys])->id);
            nkeys++;
        } else if (!strcmp(op, "keyfree") && sscanf(rest, "%ld", &a) == 1 && a >= 0 && a < nkeys && keyalive[a]) {
            int r = ABT_key_free(&keys[a]);
            keyalive[a] = 0;
            OUT("keyfree %d", r);
        } else if (!strcmp(op, "spawn") && sscanf(rest, "%31s", arg) == 1 && nunits < MAXU) {
            int k = !strcmp(arg, "ult") ? 0 : !strcmp(arg, "task") ? 1 : !strcmp(arg, "uult") ? 2
                    : !strcmp(arg, "utask") ? 3 : -1;
            if (k < 0) {
                OUT("bad-op");
            } else {
                int w = nunits++, r;
                ukind[w] = k;
                if (k == 0)
                    r = ABT_thread_create(pool0, body, NULL, ABT_THREAD_ATTR_NULL, &th[w]);
                else if (k == 1)
                    r = ABT_task_create(pool0, body, NULL, &th[w]);
                else if (k == 2)
                    r = ABT_thread_create(pool0, body, NULL, ABT_THREAD_ATTR_NULL, NULL);
                else
                    r = ABT_task_create(pool0, body, NULL, NULL);
                ABT_pool_pop_thread(pool0, &th[w]);
                ust[w] = U_READY;
                OUT("spawn %d %d", r, w);
            }
        } else if (!strcmp(op, "in") && sscanf(rest, "%ld%n", &a, &pos) == 1 && a >= 0 && a < nunits &&
                   ust[a] == U_READY) {
            int w = (int)a;
            OUT("in %d:", w);
            exit_flag = 0;
            if (w == 0) {
                run_subs(0, rest + pos);
            } else {
                pending = rest + pos;
                pending_self = w;
                int r = ABT_self_schedule(th[w], ABT_POOL_NULL);
                if (r != ABT_SUCCESS)
                    OUT(" schedule-error %d", r);
                if (exit_flag || ukind[w] == 1 || ukind[w] == 3) {
                    ust[w] = (ukind[w] >= 2) ? U_FREE : U_TERM;
                    OUT(" | term");
                } else {
                    repop(w);
                    OUT(" | yield");
                }
            }
        } else if (!strcmp(op, "free") && sscanf(rest, "%ld", &a) == 1 && a >= 1 && a < nunits && ust[a] == U_TERM) {
            int r = ABT_thread_free(&th[a]);
            ust[a] = U_FREE;
            OUT("free %d", r);
        } else if (!strcmp(op, "revive") && sscanf(rest, "%ld", &a) == 1 && a >= 1 && a < nunits &&
                   ust[a] == U_TERM) {
            int r = ABT_thread_revive(pool0, body, NULL, &th[a]);
            repop((int)a);
            ust[a] = U_READY;
            OUT("revive %d", r);
        } else if (!strcmp(op, "mig") && sscanf(rest, "%ld", &a) == 1 && a >= 1 && a < nunits && ust[a] != U_FREE) {
            int r = ABT_thread_set_callback(th[a], mig_cb, NULL);
            OUT("mig %d", r);
            ABTI_ktable *t = table_of((int)a);
            if (t) {
                OUT(" | ");
                dump_chain(t, (int)(ABTI_KEY_ID_MIGRATION & (t->size - 1)));
                dump_blocks(t);
            }
        } else if (!strcmp(op, "dump") && sscanf(rest, "%ld", &a) == 1 && a >= 0 && a < nunits && ust[a] != U_FREE) {
            ABTI_ktable *t = table_of((int)a);
            if (!t) {
                OUT("dump null");
            } else {
                OUT("dump size=%d", t->size);
                for (int i = 0; i < t->size; i++) {
                    OUT(" | ");
                    dump_chain(t, i);
                }
                dump_blocks(t);
            }
        } else {
            OUT("bad-op");
        }
        flush_line();
    }
    fflush(stdout);
    if (inited) {
        /* leave without finalize: units may still be alive */
        _exit(0);
    }
    return 0;
}
