#include "vs_abt.h"
#include <stdarg.h>
#include <stdlib.h>
#include <string.h>

uint64_t vsa_seed = 1;
const char *vsa_mode = "rand:50", *vsa_logpath = NULL;
int vsa_argc;
char **vsa_argv;

static const void *cur_unit(void)
{
    ABTI_xstream *x = ABTI_local_get_xstream_or_null(ABTI_local_get_local());
    return x ? (const void *)x->p_thread : NULL;
}

void vsa_setup(int argc, char **argv)
{
    if (argc > 1)
        vsa_seed = strtoull(argv[1], 0, 0);
    if (argc > 2)
        vsa_mode = argv[2];
    if (argc > 3 && strcmp(argv[3], "-"))
        vsa_logpath = argv[3];
    vsa_argc = argc > 4 ? argc - 4 : 0;
    vsa_argv = argv + 4;
}

long vsa_param(int i, long dflt)
{
    return i < vsa_argc ? strtol(vsa_argv[i], 0, 0) : dflt;
}

#define OFF(s, f) vs_note("O %s %s %zu %zu", #s, #f, offsetof(s, f), sizeof(((s *)0)->f))
static void dump_offsets(void)
{
    OFF(ABTI_thread, state);
    OFF(ABTI_thread, request);
    OFF(ABTI_thread, p_pool);
    OFF(ABTI_thread, p_keytable);
    OFF(ABTI_thread, type);
    OFF(ABTI_ythread, ctx);
    OFF(ABTD_ythread_context, p_link);
    OFF(ABTI_pool, num_scheds);
    OFF(ABTI_pool, num_blocked);
    OFF(ABTI_mutex, lock);
    OFF(ABTI_mutex, waiter_lock);
    OFF(ABTI_mutex, waitlist);
    OFF(ABTI_cond, lock);
    OFF(ABTI_cond, waitlist);
    OFF(ABTI_barrier, lock);
    OFF(ABTI_barrier, counter);
    OFF(ABTI_barrier, waitlist);
    OFF(ABTI_eventual, lock);
    OFF(ABTI_eventual, ready);
    OFF(ABTI_eventual, waitlist);
    OFF(ABTI_future, lock);
    OFF(ABTI_future, counter);
    OFF(ABTI_future, waitlist);
    OFF(ABTI_waitlist, futex);
    OFF(ABTI_sched, request);
    OFF(ABTI_xstream, state);
    OFF(ABTI_xstream, ctx);
    OFF(ABTD_xstream_context, state);
    OFF(ABTD_xstream_context, state_lock);
    OFF(ABTD_xstream_context, state_cond);
}

/* C02 monitor: a context-switch callback republishes the unit that switched away (push to a pool, BLOCKED store,
 * join link, lock release).  It must run after that unit's context has been saved, i.e. never on that unit's own
 * stack. */
static void cb_stack_monitor(int kind, const void *p1, const void *p2, long v)
{
    (void)p2;
    (void)v;
    if (kind < 30 || kind > 43 || !p1)
        return;
    const ABTI_ythread *p_prev;
    switch (kind) {
        case 36: case 38: case 40: case 41: case 42: case 43:
            p_prev = *(ABTI_ythread *const *)p1; /* argument struct: first member is p_prev */
            break;
        default:
            p_prev = (const ABTI_ythread *)p1;
    }
    if (!p_prev)
        return;
    const char *top = (const char *)p_prev->ctx.p_stacktop;
    size_t size = p_prev->ctx.stacksize;
    volatile char here;
    const char *sp = (const char *)&here;
    if (top && size && sp >= top - size && sp < top) {
        char b[64];
        vs_fail("context-switch callback %d for %s runs on that unit's own stack: its context is not saved yet", kind,
                vs_addr_name(p_prev, b, sizeof b));
    }
}

/* C15 monitor: a local memory pool (ABTI_mem_pool_local_pool embedded in an execution stream) is unsynchronised;
 * Model.MemPool treats every alloc/free on it as one atomic step, which holds only if the pool is used by the OS
 * thread that currently runs as that execution stream.  The two pools embedded in the global structure serve callers
 * without a stream and are protected by their spinlocks. */
#define VSA_MAXT 64
static const ABTI_xstream *runs_as[VSA_MAXT]; /* per controlled OS thread: the execution stream it was last seen running as */
static void mempool_owner_monitor(int kind, const void *p1, const void *p2, long v)
{
    (void)p2;
    (void)v;
    {
        int t = vs_tid();
        if (t >= 0 && t < VSA_MAXT)
            runs_as[t] = ABTI_local_get_xstream_or_null(ABTI_local_get_local());
    }
    if (kind != 80 && kind != 81)
        return;
    ABTI_global *p_global = gp_ABTI_global;
    if (!p_global)
        return;
    ABTI_xstream *cur = ABTI_local_get_xstream_or_null(ABTI_local_get_local());
    const char *p = (const char *)p1;
    char bo[64], bc[64];
    if (p1 == (const void *)&p_global->mem_pool_stack_ext || p1 == (const void *)&p_global->mem_pool_desc_ext) {
        ABTD_spinlock *lk = (p1 == (const void *)&p_global->mem_pool_stack_ext) ? &p_global->mem_pool_stack_lock
                                                                                 : &p_global->mem_pool_desc_lock;
        vs_note("memUse %s ext %s %d", kind == 80 ? "alloc" : "free", cur ? vs_addr_name(cur, bc, sizeof bc) : "-", lk->val.val ? 1 : 0);
        if (!lk->val.val)
            vs_fail("shared external memory pool %s used without holding its lock", vs_addr_name(p1, bo, sizeof bo));
        return;
    }
    const ABTI_xstream *owner = NULL;
    for (ABTI_xstream *x = p_global->p_xstream_head; x; x = x->p_next)
        if (p >= (const char *)x && p < (const char *)x + sizeof(ABTI_xstream))
            owner = x;
    if (!owner && cur && p >= (const char *)cur && p < (const char *)cur + sizeof(ABTI_xstream))
        owner = cur; /* a stream that is not in the list yet / any more uses its own pool */
    /* a stream whose OS thread does not exist (not started yet, or joined) may be served by its creator / joiner: the
     * root ULT is allocated from and returned to the new stream's own pool */
    int alive = 0;
    if (owner)
        for (int t = 0; t < VSA_MAXT; t++)
            if (runs_as[t] == owner && vs_thread_alive(t))
                alive = 1;
    vs_note("memUse %s %s %s %d", kind == 80 ? "alloc" : "free", owner ? vs_addr_name(owner, bo, sizeof bo) : "?",
            cur ? vs_addr_name(cur, bc, sizeof bc) : "-", alive);
    int foreign_ok = owner && owner != cur && !alive;
    if (owner != cur && !foreign_ok)
        vs_fail("local memory pool of execution stream %s used by a thread that runs as %s (%s)",
                owner ? vs_addr_name(owner, bo, sizeof bo) : "?", cur ? vs_addr_name(cur, bc, sizeof bc) : "no stream",
                kind == 80 ? "alloc" : "free");
}

/* C02 / C11 monitor: the argument block of ABTI_ythread_callback_resume_yield_to lives on the stack of the unit that
 * switched away.  The callback pushes that unit back to its pool; from then on another stream may run it and reuse the
 * stack, so the callback must have taken what it needs out of the block before ("do not access it after that ULT
 * becomes resumable" in ythread.c).  The block is poisoned the moment the unit is pushed: a later read through it
 * dereferences garbage deterministically instead of only when the other stream happens to be fast enough. */
static struct { const void *arg; const void *prev; } cb36[VSA_MAXT];
static void cb_arg_poison_monitor(int kind, const void *p1, const void *p2, long v)
{
    (void)v;
    int t = vs_tid();
    if (t < 0 || t >= VSA_MAXT)
        return;
    if (kind == 36 && p1) {
        cb36[t].arg = p1;
        cb36[t].prev = *(void *const *)p1;
    } else if (kind == 20 && cb36[t].arg) {
        if ((const void *)((uintptr_t)p2 & ~(uintptr_t)1) == cb36[t].prev) {
            memset((void *)(uintptr_t)cb36[t].arg, 0x5a, 2 * sizeof(void *));
            vs_note("cbArgPoisoned 36");
        }
        cb36[t].arg = NULL;
    } else if (kind == 5 || kind == 6 || kind == 8 || kind == 9) {
        cb36[t].arg = NULL; /* the callback is over */
    }
}

static void vsa_event_monitor(int kind, const void *p1, const void *p2, long v)
{
    cb_stack_monitor(kind, p1, p2, v);
    cb_arg_poison_monitor(kind, p1, p2, v);
    mempool_owner_monitor(kind, p1, p2, v);
}

void vsa_begin(void)
{
    vs_set_event_fn(vsa_event_monitor);
    vs_set_unit_fn(cur_unit);
    vs_init(vsa_seed, vsa_mode, vsa_logpath);
    dump_offsets();
}

int vsa_end(void)
{
    return vs_finish();
}

void vsa_name_thread(ABT_thread t, const char *fmt, ...)
{
    char b[40];
    va_list ap;
    va_start(ap, fmt);
    vsnprintf(b, sizeof b, fmt, ap);
    va_end(ap);
    ABTI_thread *p = ABTI_thread_get_ptr(t);
    size_t sz = (p->type & ABTI_THREAD_TYPE_YIELDABLE) ? sizeof(ABTI_ythread) : sizeof(ABTI_thread);
    vs_name(p, sz, "%s", b);
}
void vsa_name_pool(ABT_pool pl, const char *fmt, ...)
{
    char b[40];
    va_list ap;
    va_start(ap, fmt);
    vsnprintf(b, sizeof b, fmt, ap);
    va_end(ap);
    ABTI_pool *p = ABTI_pool_get_ptr(pl);
    vs_name(p, sizeof(ABTI_pool), "%s", b);
    if (p->data) /* built-in pools: the queue object behind it */
        vs_name_ex(p->data, 192, VS_QUIET_LOADS, "%s.q", b);
}
void vsa_name_xstream(ABT_xstream x, const char *fmt, ...)
{
    char b[40];
    va_list ap;
    va_start(ap, fmt);
    vsnprintf(b, sizeof b, fmt, ap);
    va_end(ap);
    ABTI_xstream *p = ABTI_xstream_get_ptr(x);
    vs_name(p, sizeof(ABTI_xstream), "%s", b);
    if (p->p_main_sched) {
        vs_name(p->p_main_sched, sizeof(ABTI_sched), "%s.sched", b);
        if (p->p_main_sched->p_ythread)
            vs_name(p->p_main_sched->p_ythread, sizeof(ABTI_ythread), "%s.schedU", b);
    }
    if (p->p_root_ythread)
        vs_name(p->p_root_ythread, sizeof(ABTI_ythread), "%s.rootU", b);
}

/* ---- wait-list walker: the real pointer structure at every lock release ---- */
#define MAXWATCH 16
static struct {
    const void *obj;
    const ABTI_waitlist *wl;
} watch[MAXWATCH];
static int nwatch;

static void waitlist_snap(const void *obj, const char *name)
{
    const ABTI_waitlist *wl = NULL;
    for (int i = 0; i < nwatch; i++)
        if (watch[i].obj == obj)
            wl = watch[i].wl;
    if (!wl)
        return;
    char line[1024], b1[64], b2[64], b3[64];
    int n = snprintf(line, sizeof line, "Q %s head=%s tail=%s |", name, vs_addr_name(wl->p_head, b1, sizeof b1),
                     vs_addr_name(wl->p_tail, b2, sizeof b2));
    int k = 0;
    for (ABTI_thread *p = wl->p_head; p && k < 40 && n < (int)sizeof line - 160; p = p->p_next, k++)
        n += snprintf(line + n, sizeof line - n, " %s:%s:%s:%d", vs_addr_name(p, b1, sizeof b1),
                      vs_addr_name(p->p_next, b2, sizeof b2), vs_addr_name(p->p_prev, b3, sizeof b3),
                      (int)p->state.val);
    if (k >= 40)
        n += snprintf(line + n, sizeof line - n, " ...CYCLE-OR-TOO-LONG");
    vs_note("%s", line);
}

void vsa_watch_waitlist(const void *obj, const ABTI_waitlist *wl)
{
    if (nwatch < MAXWATCH) {
        watch[nwatch].obj = obj;
        watch[nwatch].wl = wl;
        nwatch++;
        vs_set_snap_fn(obj, waitlist_snap);
    }
}
