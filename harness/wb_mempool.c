/* White-box differential driver for the memory pool (C15).
 * One global pool (lp type MALLOC, tiny pages), up to 4 local pools.
 * Line protocol identical to `driver mempool` (lean/Driver/MemPool.lean):
 *   new <per_bucket> <header_size> <page_size> <header_offset>
 *   init <i> | alloc <i> | free <i> <k> | destroy <i> | budget <n>
 * After every operation: result + canonical dump (pages renamed in first-seen
 * order, header = page.slot where slot = segment offset / header_size).
 * Page allocation failures are injected by wrapping posix_memalign
 * (link with -Wl,--wrap=posix_memalign). */
#include "abti.h"
#include <stdio.h>
#include <string.h>
#include <stdlib.h>

#define NLOCAL 4
#define MAXLIVE 4096
#define MAXPAGES 4096

static ABTI_mem_pool_global_pool g;
static int g_valid;
static ABTI_mem_pool_local_pool lp[NLOCAL];
static int inited[NLOCAL];
static void *live[MAXLIVE];
static int nlive;
static size_t P_per, P_hs, P_ps, P_ho;

/* ---- page-allocation failure injection ---- */
static long budget = 1000000000L;
int __real_posix_memalign(void **memptr, size_t alignment, size_t size);
int __wrap_posix_memalign(void **memptr, size_t alignment, size_t size)
{
    if (g_valid && size == ABTU_roundup_size(P_ps, ABT_CONFIG_STATIC_CACHELINE_SIZE)) {
        if (budget <= 0)
            return 12; /* ENOMEM */
        budget--;
    }
    return __real_posix_memalign(memptr, alignment, size);
}

/* ---- canonical naming ---- */
static void *ren[MAXPAGES];
static int nren;

static int ren_page(void *mem)
{
    int i;
    for (i = 0; i < nren; i++)
        if (ren[i] == mem)
            return i;
    ren[nren] = mem;
    return nren++;
}

/* all pages of the global pool: mem_page_lifo then the empty-page list */
static ABTI_mem_pool_page *pages[MAXPAGES];
static int npages, npages_lifo;

static void collect_pages(void)
{
    npages = 0;
    ABTI_sync_lifo_element *e = (ABTI_sync_lifo_element *)g.mem_page_lifo.p_top.ptr;
    while (e && npages < MAXPAGES) {
        pages[npages++] = (ABTI_mem_pool_page *)e; /* lifo_elem is the first member */
        e = e->p_next;
    }
    npages_lifo = npages;
    ABTI_mem_pool_page *p =
        (ABTI_mem_pool_page *)ABTD_atomic_relaxed_load_ptr(&g.p_mem_page_empty);
    while (p && npages < MAXPAGES) {
        pages[npages++] = p;
        p = p->p_next_empty_page;
    }
}

static void show_hdr(ABTI_mem_pool_header *h, char *buf, size_t n)
{
    int i;
    char *seg = ((char *)h) - P_ho;
    for (i = 0; i < npages; i++) {
        char *mem = (char *)pages[i]->mem;
        if (seg >= mem && seg < mem + pages[i]->page_size) {
            size_t off = (size_t)(seg - mem);
            int k = ren_page(mem);
            if (off % P_hs == 0)
                snprintf(buf, n, "%d.%zu", k, off / P_hs);
            else
                snprintf(buf, n, "%d.!%zu", k, off);
            return;
        }
    }
    snprintf(buf, n, "?.%p", (void *)h);
}

/* print up to cnt headers of the chain, then ;0 (NULL-terminated there), ;x (not), ;? (short) */
static void show_chain(ABTI_mem_pool_header *b, size_t cnt)
{
    char buf[64];
    size_t k = 0;
    ABTI_mem_pool_header *h = b, *last = NULL;
    while (h && k < cnt && k < 100000) {
        show_hdr(h, buf, sizeof buf);
        printf(k ? " %s" : "%s", buf);
        last = h;
        h = h->p_next;
        k++;
    }
    if (k < cnt || !last)
        printf(";?");
    else
        printf(last->p_next == NULL ? ";0" : ";x");
}

static void dump(void)
{
    int i;
    size_t j;
    collect_pages();
    for (i = 0; i < NLOCAL; i++) {
        if (!inited[i])
            continue;
        printf(" L%d:idx=%zu", i, lp[i].bucket_index);
        for (j = 0; j <= lp[i].bucket_index && j < ABT_MEM_POOL_MAX_LOCAL_BUCKETS; j++) {
            ABTI_mem_pool_header *b = lp[i].buckets[j];
            printf(" [%zu:", b->bucket_info.num_headers);
            show_chain(b, b->bucket_info.num_headers);
            printf("]");
        }
    }
    if (!g.partial_bucket) {
        printf(" P:-");
    } else {
        printf(" P:[%zu:", g.partial_bucket->bucket_info.num_headers);
        show_chain(g.partial_bucket, g.partial_bucket->bucket_info.num_headers);
        printf("]");
    }
    {
        size_t n = 0;
        ABTI_sync_lifo_element *e = (ABTI_sync_lifo_element *)g.bucket_lifo.p_top.ptr;
        for (; e; e = e->p_next)
            n++;
        printf(" G:%zu", n);
        for (e = (ABTI_sync_lifo_element *)g.bucket_lifo.p_top.ptr; e; e = e->p_next) {
            ABTI_mem_pool_header *b =
                (ABTI_mem_pool_header *)(((char *)e) - offsetof(ABTI_mem_pool_header, bucket_info));
            printf(" {");
            show_chain(b, P_per);
            printf("}");
        }
    }
    printf(" ML:");
    for (i = 0; i < npages_lifo; i++)
        printf(" %d@%zu+%zu", ren_page(pages[i]->mem),
               (size_t)((char *)pages[i]->p_mem_extra - (char *)pages[i]->mem), pages[i]->mem_extra_size);
    printf(" E:%d", npages - npages_lifo);
    for (i = npages_lifo; i < npages && i < npages_lifo + 4; i++)
        printf(" %d@%zu+%zu", ren_page(pages[i]->mem),
               (size_t)((char *)pages[i]->p_mem_extra - (char *)pages[i]->mem), pages[i]->mem_extra_size);
    printf("\n");
}

int main(void)
{
    char line[256];
    setvbuf(stdout, NULL, _IOFBF, 1 << 16);
    while (fgets(line, sizeof line, stdin)) {
        unsigned long a, b, c, d;
        char buf[64];
        if (sscanf(line, "new %lu %lu %lu %lu", &a, &b, &c, &d) == 4) {
            if (g_valid)
                ABTI_mem_pool_destroy_global_pool(&g);
            g_valid = 0;
            memset(inited, 0, sizeof inited);
            nlive = 0;
            nren = 0;
            budget = 1000000000L;
            if (a < 1 || b < 1 || c < b + sizeof(ABTI_mem_pool_page) ||
                d + sizeof(ABTI_mem_pool_header) > b) {
                printf("bad-params\n");
                continue;
            }
            P_per = a, P_hs = b, P_ps = c, P_ho = d;
            ABTU_MEM_LARGEPAGE_TYPE req[1] = { ABTU_MEM_LARGEPAGE_MALLOC };
            ABTI_mem_pool_init_global_pool(&g, P_per, P_hs, P_ho, P_ps, req, 1, 64, NULL);
            g_valid = 1;
            printf("ok\n");
        } else if (sscanf(line, "budget %lu", &a) == 1) {
            budget = (long)a;
            printf("budget |");
            dump();
        } else if (sscanf(line, "init %lu", &a) == 1) {
            if (a >= NLOCAL) {
                printf("bad-op\n");
                continue;
            }
            if (!g_valid || inited[a]) {
                printf("precondition\n");
                continue;
            }
            int r = ABTI_mem_pool_init_local_pool(&lp[a], &g);
            if (r == ABT_SUCCESS) {
                inited[a] = 1;
                printf("init ok |");
            } else {
                printf("init err |");
            }
            dump();
        } else if (sscanf(line, "alloc %lu", &a) == 1) {
            if (a >= NLOCAL) {
                printf("bad-op\n");
                continue;
            }
            if (!g_valid || !inited[a] || nlive >= MAXLIVE) {
                printf("precondition\n");
                continue;
            }
            void *m = NULL;
            int r = ABTI_mem_pool_alloc(&lp[a], &m);
            if (r == ABT_SUCCESS) {
                live[nlive++] = m;
                collect_pages();
                show_hdr((ABTI_mem_pool_header *)m, buf, sizeof buf);
                /* the block is the caller's now: scribble over it (descriptor / stack contents) */
                memset(((char *)m) - P_ho, 0xA5, P_hs);
                printf("alloc %s |", buf);
            } else {
                printf("alloc err |");
            }
            dump();
        } else if (sscanf(line, "free %lu %lu", &a, &b) == 2) {
            if (a >= NLOCAL || b >= (unsigned long)nlive) {
                printf("bad-op\n");
                continue;
            }
            if (!g_valid || !inited[a]) {
                printf("precondition\n");
                continue;
            }
            void *m = live[b];
            memmove(&live[b], &live[b + 1], (size_t)(nlive - (int)b - 1) * sizeof(void *));
            nlive--;
            collect_pages();
            show_hdr((ABTI_mem_pool_header *)m, buf, sizeof buf);
            ABTI_mem_pool_free(&lp[a], m);
            printf("free %s |", buf);
            dump();
        } else if (sscanf(line, "destroy %lu", &a) == 1) {
            if (a >= NLOCAL) {
                printf("bad-op\n");
                continue;
            }
            if (!g_valid || !inited[a]) {
                printf("precondition\n");
                continue;
            }
            ABTI_mem_pool_destroy_local_pool(&lp[a]);
            inited[a] = 0;
            printf("destroy |");
            dump();
        } else if (line[0] != '\n') {
            printf("bad-op\n");
        }
    }
    if (g_valid)
        ABTI_mem_pool_destroy_global_pool(&g);
    return 0;
}
