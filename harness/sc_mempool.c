/* vsched scenario for C15 (concurrent half): several callers inside the GLOBAL memory pool at the same time —
 * ABTI_mem_pool_take_bucket fast / slow path (pop of bucket_lifo, pop of mem_page_lifo, page allocation and its failure,
 * carving, push of the page back on mem_page_lifo / on the empty-page list), ABTI_mem_pool_return_bucket,
 * mem_pool_return_partial_bucket — and the pool's tear-down (ABTI_mem_pool_destroy_global_pool).
 *
 * usage: sc_mempool <seed> <mode> <log> <nthreads> <per_bucket> <slots> <header_size> <header_offset> <slack> <rounds> <fail%>
 *
 * White box, no runtime: a private ABTI_mem_pool_global_pool (lp type MALLOC, `slots` headers per page, tiny buckets so
 * that the slow paths are frequent), `nthreads` external pthreads under the controlled scheduler, each owning one
 * ABTI_mem_pool_local_pool (actor A<i>): init_local_pool (retried when the injected allocation failure hits it), bursts of
 * alloc / free on a shared set of live blocks (a block allocated through one local pool is freed through another one, as
 * descriptors freed on another execution stream are), then free of what is left and destroy_local_pool.  The main
 * thread joins them and destroys the global pool.
 *
 * Pages come from the real ABTU_alloc_largepage -> ABTU_malloc -> posix_memalign and go back through
 * ABTU_free_largepage -> free: the program defines `posix_memalign` and `free` itself (glibc keeps the allocator proper
 * reachable as __libc_memalign / __libc_free) and keeps the ledger of pages there; it also injects allocation failures.
 *
 * What the trace shows (vlib/t3_mempool.py projects it onto Model.MemPoolConc, `driver mempoolconc`): `mp ...` notes
 *   call / ret of every pool operation with the caller's local pool afterwards (real chains, `page.slot` names);
 *   every atomic operation on the pool's four shared words, interpreted while the token is held, right before it executes:
 *     the tagged-pointer LIFOs (load with the pointer seen; CAS with its outcome — the CAS succeeds iff pointer AND tag still
 *     are what this thread loaded —, push or pop, the element; the plain store of pop_unsafe), the CAS on
 *     p_mem_page_empty, tas / clear of partial_bucket_lock (with the real partial_bucket chain at the release);
 *   every page obtained / refused / released.
 *
 * Native monitors (plain C; under vsched a statement sequence without a hook point is atomic):
 *   - a block returned by alloc is not handed out already, lies at a slot boundary inside a page of the ledger;
 *   - a page is released at most once, and only by destroy_global_pool; at the end EVERY page obtained has been released;
 *   - at quiescence (all local pools destroyed, every block returned) the headers on bucket_lifo + partial_bucket are
 *     exactly the carved ones (each once), every page is on exactly one of mem_page_lifo / the empty-page list;
 *   - evidence: number of pages on mem_page_lifo when tear-down starts (`mp lifoAtDestroy <k>`). */
#define _GNU_SOURCE
#include "sc_common.h"
#include <sched.h>
#include <errno.h>

extern void *__libc_memalign(size_t, size_t);
extern void __libc_free(void *);

#define MAXT 6
#define MAXPG 512
#define MAXLIVE 4096

static ABTI_mem_pool_global_pool gp;
static ABTI_mem_pool_local_pool lp[MAXT];
static int lp_ok[MAXT];
static size_t P_per, P_slots, P_hs, P_ho, P_slack, P_ps;
static int rounds = 6, failpct = 0, nthr = 2;

/* ---- ledger of pages ---- */
static struct {
    char *mem;
    int released;
} pg[MAXPG];
static int npg, armed, in_destroy, n_released, n_alloc_fail;
static __thread int my_actor = -1;

static int page_of(const void *q)
{
    for (int i = 0; i < npg; i++)
        if ((const char *)q >= pg[i].mem && (const char *)q < pg[i].mem + P_ps)
            return i;
    return -1;
}

int posix_memalign(void **memptr, size_t alignment, size_t size)
{
    int is_page = armed && size == ABTU_roundup_size(P_ps, ABT_CONFIG_STATIC_CACHELINE_SIZE);
    if (is_page && failpct > 0 && npg >= 1 && (int)(vs_rand() % 100) < failpct) {
        n_alloc_fail++;
        vs_note("mp page A%d fail", my_actor);
        return ENOMEM;
    }
    void *p = __libc_memalign(alignment, size);
    if (!p)
        return ENOMEM;
    *memptr = p;
    if (is_page) {
        if (npg < MAXPG) {
            pg[npg].mem = (char *)p;
            pg[npg].released = 0;
            vs_note("mp page A%d ok %d", my_actor, npg);
            npg++;
        } else {
            vs_fail("scenario: page table full");
        }
    }
    return 0;
}

void free(void *p)
{
    if (armed && p) {
        for (int i = 0; i < npg; i++)
            if (pg[i].mem == (char *)p) {
                /* a released page is quarantined (never handed back to the allocator), so its address cannot come
                 * back as somebody else's block: a second free of it is a second release of the page */
                if (pg[i].released)
                    vs_fail("page %d of the memory pool is released twice", i);
                else if (!in_destroy)
                    vs_fail("page %d of the memory pool is released while the pool is in use", i);
                pg[i].released++;
                n_released++;
                vs_note("mp relpage %d", i);
                return;
            }
    }
    __libc_free(p);
}

/* ---- names ---- */
static const char *hname(const void *hdr, char *buf, size_t n)
{
    if (!hdr) {
        snprintf(buf, n, "-");
        return buf;
    }
    int p = page_of(hdr);
    if (p < 0) {
        snprintf(buf, n, "?%lx", (unsigned long)(uintptr_t)hdr);
        return buf;
    }
    size_t off = (size_t)((const char *)hdr - pg[p].mem);
    if (off < P_ho || (off - P_ho) % P_hs != 0 || (off - P_ho) / P_hs >= P_slots)
        snprintf(buf, n, "%d.%zu!%zu", p, (off - P_ho) / P_hs, off);
    else
        snprintf(buf, n, "%d.%zu", p, (off - P_ho) / P_hs);
    return buf;
}
static ABTI_mem_pool_header *elem_to_hdr(const void *e)
{
    return (ABTI_mem_pool_header *)((char *)e - offsetof(ABTI_mem_pool_header, bucket_info));
}
static const char *ename(int which, const void *e, char *buf, size_t n)
{
    if (!e) {
        snprintf(buf, n, "-");
        return buf;
    }
    if (which == 0)
        return hname(elem_to_hdr(e), buf, n);
    int p = page_of(e);
    if (p < 0 || (const char *)e != pg[p].mem + P_ps - sizeof(ABTI_mem_pool_page))
        snprintf(buf, n, "?%lx", (unsigned long)(uintptr_t)e);
    else
        snprintf(buf, n, "%d", p);
    return buf;
}

/* chain of `cnt` headers from h (stops at NULL) */
static int chain_str(ABTI_mem_pool_header *h, size_t cnt, char *buf, size_t n)
{
    size_t k = 0, len = 0;
    char b[48];
    buf[0] = 0;
    while (h && k < cnt && len + 40 < n) {
        len += (size_t)snprintf(buf + len, n - len, "%s%s", k ? "," : "", hname(h, b, sizeof b));
        h = h->p_next;
        k++;
    }
    if (k == 0)
        snprintf(buf, n, "-");
    if (k < cnt)
        return -1; /* chain shorter than its stored count */
    return h == NULL ? 0 : 1; /* 1: not NULL-terminated after `cnt` headers */
}

static void note_loc(int a)
{
    char line[1400], b[400];
    size_t len = 0;
    if (!lp_ok[a]) {
        vs_note("mp loc A%d nil", a);
        return;
    }
    line[0] = 0;
    for (size_t j = 0; j <= lp[a].bucket_index && j < ABT_MEM_POOL_MAX_LOCAL_BUCKETS; j++) {
        ABTI_mem_pool_header *h = lp[a].buckets[j];
        size_t cnt = h->bucket_info.num_headers;
        int r = chain_str(h, cnt, b, sizeof b);
        if (r != 0)
            vs_fail("local pool of A%d: bucket %zu stores count %zu but its chain %s", a, j, cnt,
                    r < 0 ? "is shorter" : "does not end there");
        if (j == lp[a].bucket_index)
            len += (size_t)snprintf(line + len, sizeof line - len, " |");
        len += (size_t)snprintf(line + len, sizeof line - len, " %s", b);
    }
    vs_note("mp loc A%d%s", a, line);
}

static void note_lifo(int which)
{
    char line[1400], b[48];
    size_t len = 0;
    int k = 0;
    line[0] = 0;
    ABTI_sync_lifo *l = which == 0 ? &gp.bucket_lifo : &gp.mem_page_lifo;
    for (ABTI_sync_lifo_element *e = (ABTI_sync_lifo_element *)l->p_top.ptr; e && k < 200 && len + 40 < sizeof line;
         e = e->p_next, k++)
        len += (size_t)snprintf(line + len, sizeof line - len, "%s%s", k ? "," : "", ename(which, e, b, sizeof b));
    vs_note("mp lifo %c %s", which == 0 ? 'B' : 'P', k ? line : "-");
}

/* ---- interpretation of the atomic operations on the pool's shared words ---- */
static __thread struct {
    void *ptr;
    size_t tag;
    int valid;
} seen[2];

static void on_atomic(int kind, int width, const volatile void *addr, uint64_t a, uint64_t b)
{
    char n1[48];
    int which = addr == (const volatile void *)&gp.bucket_lifo.p_top ? 0
                : addr == (const volatile void *)&gp.mem_page_lifo.p_top ? 1 : -1;
    if (which >= 0 && width == 16) {
        ABTI_sync_lifo *l = which == 0 ? &gp.bucket_lifo : &gp.mem_page_lifo;
        void *cur = l->p_top.ptr;
        size_t tag = l->p_top.tag;
        char L = which == 0 ? 'B' : 'P';
        if (kind == 1) {
            seen[which].ptr = cur;
            seen[which].tag = tag;
            seen[which].valid = 1;
            vs_note("mp ld %c A%d %s", L, my_actor, ename(which, cur, n1, sizeof n1));
        } else if (kind == 5) {
            void *oldp = (void *)(uintptr_t)a, *newp = (void *)(uintptr_t)b;
            int ok = seen[which].valid && cur == oldp && cur == seen[which].ptr && tag == seen[which].tag;
            int push = oldp == NULL || (newp != NULL && ((ABTI_sync_lifo_element *)newp)->p_next == oldp);
            if (ok)
                note_lifo(which);
            vs_note("mp cas %c A%d %s %s %s", L, my_actor, ok ? "ok" : "fail", push ? "push" : "pop",
                    ename(which, push ? newp : oldp, n1, sizeof n1));
            seen[which].valid = 0;
        } else if (kind == 2) {
            /* pop_unsafe / push_unsafe: plain store of (ptr, tag) */
            void *newp = (void *)(uintptr_t)a;
            int push = newp != NULL && ((ABTI_sync_lifo_element *)newp)->p_next == cur;
            note_lifo(which);
            vs_note("mp st %c A%d %s %s", L, my_actor, push ? "push" : "pop", ename(which, push ? newp : cur, n1, sizeof n1));
        }
        return;
    }
    if (addr == (const volatile void *)&gp.p_mem_page_empty) {
        void *cur = (void *)gp.p_mem_page_empty.val; /* raw read: an ABTD_atomic_* call here would re-enter the hook */
        if (kind == 5) {
            ABTI_mem_pool_page *np = (ABTI_mem_pool_page *)(uintptr_t)b;
            vs_note("mp ecas A%d %s %s", my_actor, cur == (void *)(uintptr_t)a ? "ok" : "fail", ename(1, &np->lifo_elem, n1, sizeof n1));
        } else if (kind == 1 && in_destroy) {
            vs_note("mp eld A%d", my_actor);
        }
        return;
    }
    if (addr == (const volatile void *)&gp.partial_bucket_lock) {
        if (kind == 4) {
            vs_note("mp tas A%d %s", my_actor, gp.partial_bucket_lock.val.val ? "fail" : "ok");
        } else if (kind == 3) {
            char b2[400];
            ABTI_mem_pool_header *p = gp.partial_bucket;
            int r = chain_str(p, p ? p->bucket_info.num_headers : 0, b2, sizeof b2);
            if (r != 0)
                vs_fail("partial_bucket stores count %zu but its chain %s", p ? p->bucket_info.num_headers : (size_t)0,
                        r < 0 ? "is shorter" : "does not end there");
            if (p && (p->bucket_info.num_headers == 0 || p->bucket_info.num_headers >= P_per))
                vs_fail("partial_bucket holds %zu headers with %zu headers per bucket", p->bucket_info.num_headers, P_per);
            vs_note("mp clear A%d %s", my_actor, b2);
        }
    }
}

/* ---- live blocks (shared; plain data: only one controlled thread runs at a time) ---- */
static void *live[MAXLIVE];
static int nlive, n_allocs, n_frees, n_alloc_err, n_init_fail;

static void do_alloc(int a)
{
    void *m = NULL;
    char b[48];
    vs_log("mp call A%d alloc", a);
    int rc = ABTI_mem_pool_alloc(&lp[a], &m);
    if (rc != ABT_SUCCESS) {
        n_alloc_err++;
        vs_note("mp ret A%d alloc -", a);
        note_loc(a);
        return;
    }
    n_allocs++;
    for (int i = 0; i < nlive; i++)
        if (live[i] == m)
            vs_fail("alloc by A%d returned block %s which is still handed out", a, hname(m, b, sizeof b));
    hname(m, b, sizeof b);
    if (strchr(b, '?') || strchr(b, '!'))
        vs_fail("alloc by A%d returned %s: not a slot of a page the pool obtained", a, b);
    if (nlive < MAXLIVE)
        live[nlive++] = m;
    vs_note("mp ret A%d alloc %s", a, b);
    note_loc(a);
    memset(m, 0xA0 + a, sizeof(ABTI_mem_pool_header)); /* a live block belongs to its user */
}

static void do_free(int a)
{
    char b[48];
    if (nlive == 0)
        return;
    int k = sc_rnd(nlive);
    void *m = live[k];
    live[k] = live[--nlive];
    vs_log("mp call A%d free %s", a, hname(m, b, sizeof b));
    ABTI_mem_pool_free(&lp[a], m);
    n_frees++;
    vs_note("mp ret A%d free", a);
    note_loc(a);
}

static void *thread_main(void *arg)
{
    int a = (int)(intptr_t)arg;
    my_actor = a;
    vs_note("userStart A%d", a);
    for (int attempt = 0; attempt < 4 && !lp_ok[a]; attempt++) {
        vs_log("mp call A%d init", a);
        int rc = ABTI_mem_pool_init_local_pool(&lp[a], &gp);
        lp_ok[a] = rc == ABT_SUCCESS;
        if (!lp_ok[a])
            n_init_fail++;
        vs_note("mp ret A%d init %d", a, lp_ok[a]);
        note_loc(a);
        if (!lp_ok[a])
            sched_yield();
    }
    if (lp_ok[a]) {
        for (int r = 0; r < rounds; r++) {
            int burst = 1 + sc_rnd((int)(2 * P_per + 2));
            int want_alloc = sc_rnd(100) < 55;
            for (int i = 0; i < burst; i++) {
                if (want_alloc && nlive < MAXLIVE - MAXT)
                    do_alloc(a);
                else
                    do_free(a);
            }
            if (sc_rnd(3) == 0)
                sched_yield();
        }
        /* return whatever is handed out right now (others may still allocate: they return theirs at their end) */
        while (nlive > 0)
            do_free(a);
        vs_log("mp call A%d destroy", a);
        ABTI_mem_pool_destroy_local_pool(&lp[a]);
        lp_ok[a] = 0;
        vs_note("mp ret A%d destroy", a);
    }
    vs_note("userEnd A%d", a);
    return NULL;
}

/* quiescent audit of the global pool */
static void audit(void)
{
    static unsigned char seenh[MAXPG][64];
    memset(seenh, 0, sizeof seenh);
    long nh = 0, carved = 0;
    int guard = 0;
    for (ABTI_sync_lifo_element *e = (ABTI_sync_lifo_element *)gp.bucket_lifo.p_top.ptr; e && guard < 100000; e = e->p_next, guard++) {
        ABTI_mem_pool_header *h = elem_to_hdr(e);
        for (size_t k = 0; k < P_per; k++) {
            if (!h) {
                vs_fail("a bucket on bucket_lifo holds %zu headers, not %zu", k, P_per);
                break;
            }
            int p = page_of(h);
            size_t sl = p >= 0 ? ((size_t)((char *)h - pg[p].mem) - P_ho) / P_hs : 0;
            if (p < 0 || sl >= 64 || sl >= P_slots)
                vs_fail("bucket_lifo holds a header outside the pool's pages");
            else if (seenh[p][sl]++)
                vs_fail("header %d.%zu is in the global pool twice", p, sl);
            nh++;
            h = h->p_next;
        }
        if (h)
            vs_fail("a bucket on bucket_lifo is longer than %zu headers", P_per);
    }
    ABTI_mem_pool_header *h = gp.partial_bucket;
    for (size_t k = 0; h && k < 10000; k++, h = h->p_next) {
        int p = page_of(h);
        size_t sl = p >= 0 ? ((size_t)((char *)h - pg[p].mem) - P_ho) / P_hs : 0;
        if (p < 0 || sl >= 64 || sl >= P_slots)
            vs_fail("partial_bucket holds a header outside the pool's pages");
        else if (seenh[p][sl]++)
            vs_fail("header %d.%zu is in the global pool twice", p, sl);
        nh++;
    }
    int onlist[MAXPG] = { 0 }, nlifo = 0;
    for (ABTI_sync_lifo_element *e = (ABTI_sync_lifo_element *)gp.mem_page_lifo.p_top.ptr; e && nlifo < MAXPG; e = e->p_next, nlifo++) {
        int p = page_of(e);
        if (p < 0)
            vs_fail("mem_page_lifo holds something that is not a page of the ledger");
        else
            onlist[p]++;
    }
    int nempty = 0;
    for (ABTI_mem_pool_page *q = (ABTI_mem_pool_page *)gp.p_mem_page_empty.val; q && nempty < MAXPG;
         q = q->p_next_empty_page, nempty++) {
        int p = page_of(q);
        if (p < 0)
            vs_fail("the empty-page list holds something that is not a page of the ledger");
        else
            onlist[p]++;
    }
    for (int p = 0; p < npg; p++) {
        ABTI_mem_pool_page *q = (ABTI_mem_pool_page *)(pg[p].mem + P_ps - sizeof(ABTI_mem_pool_page));
        VSA_CHECK(onlist[p] == 1, "page %d is on %d of the global pool's page lists at quiescence (expected exactly 1)", p, onlist[p]);
        carved += (long)(((char *)q->p_mem_extra - pg[p].mem) / (long)P_hs);
    }
    VSA_CHECK(nh == carved, "at quiescence the global pool holds %ld headers but %ld have been carved from its pages", nh, carved);
    vs_note("mp lifoAtDestroy %d empty=%d pages=%d carved=%ld allocs=%d frees=%d allocfail=%d initfail=%d", nlifo, nempty, npg, carved,
            n_allocs, n_frees, n_alloc_fail, n_init_fail);
}

int main(int argc, char **argv)
{
    vsa_setup(argc, argv);
    nthr = (int)vsa_param(0, 2);
    P_per = (size_t)vsa_param(1, 2);
    P_slots = (size_t)vsa_param(2, 3);
    P_hs = (size_t)vsa_param(3, 32);
    P_ho = (size_t)vsa_param(4, 0);
    P_slack = (size_t)vsa_param(5, 0);
    rounds = (int)vsa_param(6, 6);
    failpct = (int)vsa_param(7, 0);
    if (nthr < 1)
        nthr = 1;
    if (nthr > MAXT)
        nthr = MAXT;
    if (P_slots > 60)
        P_slots = 60;
    if (P_hs < sizeof(ABTI_mem_pool_header))
        P_hs = sizeof(ABTI_mem_pool_header);
    if (P_ho + sizeof(ABTI_mem_pool_header) > P_hs)
        P_ho = P_hs - sizeof(ABTI_mem_pool_header);
    if (P_slack >= P_hs)
        P_slack = P_hs - 8;
    P_ps = P_hs * P_slots + P_slack + sizeof(ABTI_mem_pool_page);
    ABTU_MEM_LARGEPAGE_TYPE req[1] = { ABTU_MEM_LARGEPAGE_MALLOC };
    ABTI_mem_pool_init_global_pool(&gp, P_per, P_hs, P_ho, P_ps, req, 1, ABT_CONFIG_STATIC_CACHELINE_SIZE, NULL);
    vsa_begin();
    my_actor = 99;
    vs_set_atomic_fn(on_atomic);
    vs_name(&gp, sizeof gp, "GP");
    vs_note("mp params nthr=%d per=%zu slots=%zu hs=%zu ho=%zu slack=%zu ps=%zu rounds=%d fail=%d maxlocal=%d", nthr, P_per, P_slots,
            P_hs, P_ho, P_slack, P_ps, rounds, failpct, ABT_MEM_POOL_MAX_LOCAL_BUCKETS);
    armed = 1;
    pthread_t th[MAXT];
    for (int i = 0; i < nthr; i++) {
        vs_note("actor A%d kind=ext es=0", i);
        pthread_create(&th[i], NULL, thread_main, (void *)(intptr_t)i);
    }
    for (int i = 0; i < nthr; i++)
        pthread_join(th[i], NULL);
    VSA_CHECK(nlive == 0, "scenario: %d blocks still handed out after every actor finished", nlive);
    audit();
    note_lifo(0);
    note_lifo(1);
    in_destroy = 1;
    vs_log("mp call A99 destroyGlobal");
    ABTI_mem_pool_destroy_global_pool(&gp);
    vs_note("mp ret A99 destroyGlobal");
    in_destroy = 0;
    int left = 0;
    for (int p = 0; p < npg; p++)
        left += !pg[p].released;
    VSA_CHECK(left == 0,
              "ABTI_mem_pool_destroy_global_pool returned but %d of the %d pages obtained from the allocator have not been released "
              "(every block had been returned, every local pool destroyed)",
              left, npg);
    armed = 0;
    vs_unname(&gp);
    int rc = vsa_end();
    if (rc)
        fprintf(stderr, "MONITOR: %s\n", vs_first_failure());
    return rc;
}
