/* vsched scenario for C10: ABT_rwlock (rdlock / wrlock / unlock by ULTs and external threads, tasklets rejected).
 * usage: sc_rwlock <seed> <mode> <log> <nes> <nlockers> <rounds> [ext%] [ntask] [write%] [nest%]
 *   nlockers (2..6) lockers, each ULT on one of <nes> streams or an external thread, perform <rounds> rounds of
 *   { rdlock | wrlock ; (maybe yield while holding) ; [nested rdlock/unlock] ; unlock }, plus <ntask> tasklets that call
 *   rdlock / wrlock and must be rejected with ABT_ERR_RWLOCK (API 1.x) without touching the lock.
 * Monitors are plain C counters: under vsched a statement sequence without a hook point is atomic.
 *   - a writer holds  => no reader and no other writer holds (checked when a lock call returns and again before unlock)
 *   - readers may overlap: the maximum overlap and the number of overlapping acquisitions are reported in a note
 *   - `mon` notes (wwin = wrlock calls in progress or holding) feed the projection-side oracle "a reader does not block
 *     while no writer is even attempting" (vlib/t3_rw.py); blocking itself is visible only in the log (E 50 on the
 *     rwlock's cond wait-list between apiCall and apiRet).
 * The rwlock object is registered as RW0 with VS_SNAP: a hex snapshot of the whole ABTI_rwlock follows every
 * store/clear/RMW on it, in particular every acquire and release of the internal mutex. */
#include "sc_common.h"
#include <sched.h>

static ABT_rwlock RW;
static ABTI_rwlock *p_rw;
static int rounds = 3, writepct = 35, nestpct = 15;

/* monitor state */
static int n_r, n_w;           /* holders according to the callers */
static int w_win;              /* wrlock calls begun and not yet unlocked */
static int max_overlap, overlaps, racq, wacq, nested, rejected;

static void relax(actor *a)
{
    if (a->kind == AK_ULT)
        ABT_thread_yield();
    else if (a->kind == AK_EXT)
        sched_yield();
}

static const char *rcname(int rc, char *buf)
{
    switch (rc) {
        case ABT_SUCCESS: return "ok";
        case ABT_ERR_RWLOCK: return "err";
        default: sprintf(buf, "rc%d", rc); return buf;
    }
}

#define RWCALL(opname, expr)                                                   \
    ({                                                                         \
        char b__[16];                                                          \
        vs_log("apiCall %s RW0", opname);                                      \
        int rc__ = (expr);                                                     \
        vs_note("apiRet %s RW0 %s", opname, rcname(rc__, b__));                \
        rc__;                                                                  \
    })

static void reader_enter(actor *a)
{
    VSA_CHECK(n_w == 0, "A%d holds the rwlock as a reader while %d writer(s) hold it", a->id, n_w);
    n_r++;
    racq++;
    if (n_r > 1)
        overlaps++;
    if (n_r > max_overlap)
        max_overlap = n_r;
    vs_note("mon acq r A%d nr=%d nw=%d", a->id, n_r, n_w);
}
static void reader_leave(actor *a)
{
    VSA_CHECK(n_w == 0 && n_r > 0, "reader A%d about to unlock: nr=%d nw=%d", a->id, n_r, n_w);
    n_r--;
    vs_note("mon rel r A%d nr=%d nw=%d", a->id, n_r, n_w);
}

static void locker_body(actor *a)
{
    for (int r = 0; r < rounds; r++) {
        int wr = sc_rnd(100) < writepct;
        if (wr) {
            w_win++;
            vs_note("mon wwin %d", w_win);
            ABT_OK(RWCALL("wrlock", ABT_rwlock_wrlock(RW)));
            VSA_CHECK(n_w == 0 && n_r == 0, "A%d holds the rwlock as a writer while %d reader(s) and %d other writer(s) hold it",
                      a->id, n_r, n_w);
            n_w++;
            wacq++;
            vs_note("mon acq w A%d nr=%d nw=%d", a->id, n_r, n_w);
            if (sc_rnd(2))
                relax(a);
            VSA_CHECK(n_w == 1 && n_r == 0, "writer A%d lost exclusivity while holding: nr=%d nw=%d", a->id, n_r, n_w);
            n_w--;
            vs_note("mon rel w A%d nr=%d nw=%d", a->id, n_r, n_w);
            ABT_OK(RWCALL("unlock", ABT_rwlock_unlock(RW)));
            w_win--;
            vs_note("mon wwin %d", w_win);
        } else {
            ABT_OK(RWCALL("rdlock", ABT_rwlock_rdlock(RW)));
            reader_enter(a);
            if (sc_rnd(3))
                relax(a);
            int nest = sc_rnd(100) < nestpct;
            if (nest) {
                /* a reader may lock again as a reader (reader_count counts calls, not callers) */
                nested++;
                ABT_OK(RWCALL("rdlock", ABT_rwlock_rdlock(RW)));
                reader_enter(a);
                if (sc_rnd(2))
                    relax(a);
                reader_leave(a);
                ABT_OK(RWCALL("unlock", ABT_rwlock_unlock(RW)));
            }
            VSA_CHECK(n_w == 0 && n_r >= 1, "reader A%d holding: nr=%d nw=%d", a->id, n_r, n_w);
            reader_leave(a);
            ABT_OK(RWCALL("unlock", ABT_rwlock_unlock(RW)));
        }
        if (sc_rnd(2))
            relax(a);
    }
}

static void tasklet_body(actor *a)
{
    /* 1.x API: rejected before the lock is touched */
    int wr = sc_rnd(2);
    size_t rc0 = p_rw->reader_count;
    int wf0 = p_rw->write_flag;
    char b[16];
    vs_note("apiCall %s RW0", wr ? "wrlock" : "rdlock"); /* a note, not a schedule point: read-call-compare is atomic */
    int rc = wr ? ABT_rwlock_wrlock(RW) : ABT_rwlock_rdlock(RW);
    vs_note("apiRet %s RW0 %s", wr ? "wrlock" : "rdlock", rcname(rc, b));
    VSA_CHECK(rc == ABT_ERR_RWLOCK, "ABT_rwlock_%slock by tasklet A%d returned %d, expected ABT_ERR_RWLOCK", wr ? "wr" : "rd", a->id,
              rc);
    /* a tasklet cannot be descheduled: nothing else ran on this stream, and no hook point lies inside the rejected call */
    VSA_CHECK(p_rw->reader_count == rc0 && p_rw->write_flag == wf0, "rejected call by tasklet A%d changed the lock", a->id);
    rejected++;
}

int main(int argc, char **argv)
{
    vsa_setup(argc, argv);
    int nes = (int)vsa_param(0, 2), nact = (int)vsa_param(1, 3);
    rounds = (int)vsa_param(2, 3);
    int extpct = (int)vsa_param(3, 25), ntask = (int)vsa_param(4, 0);
    writepct = (int)vsa_param(5, 35);
    nestpct = (int)vsa_param(6, 15);
    sc_shared = (int)vsa_param(7, 0);
    if (nes > MAX_ES)
        nes = MAX_ES;
    if (nes < 1)
        nes = 1;
    if (nact < 1)
        nact = 1;
    if (nact + ntask > MAX_ACTORS)
        ntask = MAX_ACTORS - nact;
    ABT_init(0, NULL);
    vsa_begin();
    vs_note("O ABTI_rwlock mutex %zu %zu", offsetof(ABTI_rwlock, mutex), sizeof(ABTI_mutex));
    vs_note("O ABTI_rwlock cond %zu %zu", offsetof(ABTI_rwlock, cond), sizeof(ABTI_cond));
    vs_note("O ABTI_rwlock reader_count %zu %zu", offsetof(ABTI_rwlock, reader_count), sizeof(size_t));
    vs_note("O ABTI_rwlock write_flag %zu %zu", offsetof(ABTI_rwlock, write_flag), sizeof(int));
    vs_note("scenario rwlock nes=%d nact=%d rounds=%d ntask=%d write%%=%d nest%%=%d", nes, nact, rounds, ntask, writepct, nestpct);
    sc_streams(nes, ABT_SCHED_BASIC);
    ABT_OK(ABT_rwlock_create(&RW));
    p_rw = ABTI_rwlock_get_ptr(RW);
    vs_name_ex(p_rw, sizeof(ABTI_rwlock), VS_SNAP, "RW0");
    vsa_watch_waitlist(p_rw, &p_rw->cond.waitlist); /* `Q RW0 ...`: the cond wait-list as walked at every clear on RW0 */
    vs_note("obj RW0 size=%zu", sizeof(ABTI_rwlock));
    sc_nactors = nact + ntask;
    for (int i = 0; i < sc_nactors; i++) {
        actor *a = &sc_actors[i];
        if (i < nact) {
            a->kind = sc_rnd(100) < extpct ? AK_EXT : AK_ULT;
            a->body = locker_body;
        } else {
            a->kind = AK_TASK;
            a->body = tasklet_body;
        }
        a->es = sc_rnd(nes);
        vs_note("actor A%d kind=%s es=%d", i, AKN[a->kind], a->es);
    }
    sc_launch();
    sc_join_all();
    VSA_CHECK(n_r == 0 && n_w == 0 && w_win == 0, "rwlock still held at the end: nr=%d nw=%d wwin=%d", n_r, n_w, w_win);
    VSA_CHECK(p_rw->reader_count == 0 && p_rw->write_flag == 0, "rwlock fields at the end: reader_count=%zu write_flag=%d",
              p_rw->reader_count, p_rw->write_flag);
    VSA_CHECK(rejected == ntask, "%d of %d tasklets were rejected", rejected, ntask);
    vs_note("rw stats racq=%d wacq=%d nested=%d overlaps=%d maxoverlap=%d rejected=%d", racq, wacq, nested, overlaps, max_overlap,
            rejected);
    vs_unname(p_rw);
    ABT_OK(ABT_rwlock_free(&RW));
    sc_stop_streams();
    ABT_finalize();
    int rc = vsa_end();
    if (rc)
        fprintf(stderr, "MONITOR: %s\n", vs_first_failure());
    return rc;
}
