/* vsched scenario: blocking pops of the built-in pools (C19 part 2).
 * usage: sc_popwait <seed> <mode> <log> <kinds> <access> <nprod> <ncons> <nunits> [ext%] [style]
 *   kinds  0 FIFO | 1 FIFO_WAIT | 2 RANDWS | 3 one pool of each kind
 *   access 0 MPMC (any number of producers / consumers per pool) | 1 SPSC (one pool, one producer, one consumer)
 *   style  0 several consumers, producers may sleep | 1 "solo": one consumer, producers never touch the clock (so the
 *          virtual time that passes during a blocking pop is that call's own: the tight timing monitors apply)
 * Detached pools (automatic free off, no scheduler attached).  Units are real ULTs created on a staging pool and
 * popped back at once (never run while they travel); producers push them, consumers get them back with
 * pop_wait / pop_timedwait / pop (small and large budgets; the pools are often empty for longer than the budget) and
 * push some of them again; at the end every unit is pushed to the primary stream's pool, runs, is joined and freed.
 * Monitors (plain C: a statement sequence without hook point is atomic under vsched):
 *   - conservation: a pop returns only a unit that is in that pool, every push is matched by exactly one pop;
 *   - an empty-handed return of a polling pool happens only after the virtual clock advanced by more than the budget
 *     (pop_timedwait: beyond the absolute time); FIFO_WAIT: before its deadline only if a push to that pool
 *     overlapped the call (it was signalled, then another consumer may have taken the unit);
 *   - bounded time: a solo blocking pop returns within budget + one sleep + 3 us of virtual time; the whole run within the sum of
 *     all budgets and sleeps;
 *   - FIFO_WAIT wake-up: a solo consumer that gets a unit pushed well before its deadline gets it before the deadline. */
#define _GNU_SOURCE
#include "sc_common.h"
#include "pool/thread_queue.h"
#include <sched.h>
#include <unistd.h>

#define NPOOL 3
#define MAXU 24
enum { K_FIFO = 0, K_FIFO_WAIT = 1, K_RANDWS = 2 };
static const char *KN[] = { "fifo", "fifo_wait", "randws" };

#pragma GCC diagnostic ignored "-Wdeprecated-declarations" /* ABT_pool_pop_timedwait is one of the functions under test */

/* layout replicas of the file-local `struct data` of fifo.c / randws.c and fifo_wait.c (only for offsets) */
struct poll_data {
    ABTD_spinlock mutex;
    thread_queue_t queue;
};
struct fwait_data {
    pthread_mutex_t mutex;
    pthread_cond_t cond;
    thread_queue_t queue;
};

static ABT_pool PL[NPOOL], stage;
static int pkind[NPOOL], npools, spsc, solo_style;
static ABT_thread U[MAXU];
static int nunits, nprod, ncons;
static int u_where[MAXU];  /* -1 nowhere yet, -2 held by an actor, k in pool k (set when the push starts) */
static int u_hops[MAXU];   /* pushes still to come after the current one */
static int u_pushes[MAXU], u_pops[MAXU], u_ran[MAXU];
static double u_pushret[MAXU]; /* virtual time at which the latest push of the unit returned */
static long u_solo_call[MAXU]; /* id of the blocking pop that was the only call inside that pool at that moment, else 0 */
static int retired, total_pushes, total_pops, pushes_started[NPOOL], pushes_done[NPOOL];
static int inside_pop[NPOOL], inside_block[NPOOL];
static long inside_call_id[NPOOL]; /* id of the latest blocking pop that entered pool k */
static long call_ids;
static int timed_active;
static long timed_entries;
static double budget_sum; /* seconds: every budget / sleep / clock tick this scenario asked for */
static int n_empty, n_got, n_solo_checked, n_wake_checked;
static double gran = 100e-9; /* virtual time one nanosleep(100 ns) really takes under vsched (it may model the timer slack) */
static long gran_ns = 100;

static void relax(actor *a)
{
    if (a->kind == AK_ULT)
        ABT_thread_yield();
    else
        sched_yield();
}

static void unit_body(void *arg)
{
    u_ran[(int)(intptr_t)arg]++;
}

static int unit_of(ABT_thread h)
{
    if (h == ABT_THREAD_NULL)
        return -1;
    for (int i = 0; i < nunits; i++)
        if (U[i] == h)
            return i;
    return -2;
}

static long timed_enter(void)
{
    timed_active++;
    return ++timed_entries;
}
/* 1 iff nobody else was inside a timed activity at any moment since the matching timed_enter */
static int timed_leave(long mine, int active_at_entry)
{
    int solo = (active_at_entry == 0) && (timed_entries == mine);
    timed_active--;
    return solo;
}

static void push_unit(actor *a, int u, int k)
{
    (void)a;
    VSA_CHECK(u_where[u] < 0, "scenario bug: unit U%d pushed while in pool %d", u, u_where[u]);
    u_where[u] = k;
    u_pushes[u]++;
    total_pushes++;
    pushes_started[k]++;
    vs_log("apiCall push PW%d %d", k, u);
    u_pushret[u] = 1e300; /* (this push has not returned yet: what an earlier push of the same unit recorded is void) */
    u_solo_call[u] = 0;
    ABT_OK(ABT_pool_push_thread(PL[k], U[u]));
    u_pushret[u] = vs_now();
    u_solo_call[u] = (inside_pop[k] == 1 && inside_block[k] == 1) ? inside_call_id[k] : 0;
    pushes_done[k]++;
    vs_note("apiRet push PW%d 0", k);
}

static void got_unit(actor *a, int u, int k)
{
    (void)a;
    VSA_CHECK(u >= 0, "pool PW%d returned an unknown work unit", k);
    if (u < 0)
        return;
    VSA_CHECK(u_where[u] == k, "pop from PW%d returned U%d which is %s (popped twice / lost)", k, u,
              u_where[u] == -2 ? "held by an actor" : (u_where[u] == -1 ? "in no pool" : "in another pool"));
    u_where[u] = -2;
    u_pops[u]++;
    total_pops++;
    n_got++;
}

/* after a successful pop: the unit travels on or is retired */
static void dispose(actor *a, int u)
{
    if (u < 0)
        return;
    if (u_hops[u] > 0 && !spsc) {
        u_hops[u]--;
        for (int r = sc_rnd(3); r > 0; r--)
            relax(a);
        u_where[u] = -1;
        push_unit(a, u, sc_rnd(npools));
    } else {
        u_where[u] = -1;
        retired++;
    }
}

static void producer_body(actor *a)
{
    int k0 = spsc ? 0 : -1;
    for (int u = a->id; u < nunits; u += nprod) {
        int k = k0 >= 0 ? k0 : sc_rnd(npools);
        int how = sc_rnd(4);
        if (solo_style || how < 2) {
            /* wait until a consumer is inside a blocking pop of that pool (bounded patience), then a few more yields so
             * that it reaches its sleep */
            int patience = 40 + sc_rnd(160);
            while (inside_block[k] == 0 && patience-- > 0)
                relax(a);
            for (int r = sc_rnd(6); r > 0; r--)
                relax(a);
        } else if (how == 2) {
            /* let virtual time pass: the pools stay empty for longer than the small budgets */
            long us = (long[]){ 3, 12, 40 }[sc_rnd(3)];
            int act = timed_active;
            long me = timed_enter();
            budget_sum += (1e-6 * (double)us > gran ? 1e-6 * (double)us : gran);
            usleep((useconds_t)us);
            timed_leave(me, act);
        }
        push_unit(a, u, k);
    }
}

static void consumer_body(actor *a)
{
    int k0 = spsc ? 0 : -1;
    int idle_rounds = 0;
    while (retired < nunits && !vs_failed()) { /* after a monitor failure units may be unaccounted for: stop */
        int k = k0 >= 0 ? k0 : sc_rnd(npools);
        int kind = pkind[k];
        int op = sc_rnd(10); /* 0-4 pop_wait, 5-7 pop_timedwait, 8-9 pop */
        int tail = (kind == K_RANDWS) && sc_rnd(3) == 0;
        ABT_pool_context ctx = tail ? ABT_POOL_CONTEXT_OWNER_SECONDARY : ABT_POOL_CONTEXT_OP_POOL_OTHER;
        /* budgets in ns: polling pools compare doubles, keep them 50 ns away from every value the virtual clock can show
         * (multiples of 100 ns); FIFO_WAIT hands the deadline to the (virtual) kernel, keep the clock on multiples of 100 */
        long g = gran_ns > 2500 ? gran_ns : 2500; /* small: shorter than most gaps; medium / large: several sleeps */
        long bud = (long[]){ 5000, 8 * g, 60 * g }[sc_rnd(3)] + (kind == K_FIFO_WAIT ? 0 : 50);
        double over = (kind == K_FIFO_WAIT ? 0.0 : gran) + 3e-6; /* a solo call is back this long after its budget at the latest */
        ABT_thread th = ABT_THREAD_NULL;
        int u;
        if (op < 8) {
            long id = ++call_ids;
            double t0 = vs_now();
            int pushes0 = pushes_done[k]; /* a push to this pool overlaps this call iff pushes_started[k] > pushes0 at the end */
            int act = timed_active;
            long me = timed_enter();
            inside_pop[k]++;
            inside_block[k]++;
            inside_call_id[k] = id;
            double limit; /* virtual time by which a solo call must be back */
            if (op < 5) {
                budget_sum += 1e-9 * (double)bud + gran + 4e-6;
                vs_log("apiCall popWait PW%d %ld %d", k, bud, tail);
                ABT_OK(ABT_pool_pop_wait_thread_ex(PL[k], &th, 1e-9 * (double)bud, ctx));
                u = unit_of(th);
                vs_note("apiRet popWait PW%d %d", k, u);
                limit = t0 + 1e-9 * (double)bud + over;
                if (u == -1) {
                    n_empty++;
                    if (kind != K_FIFO_WAIT)
                        VSA_CHECK(vs_now() - t0 > 1e-9 * (double)bud,
                                  "pop_wait(%ld ns) on PW%d returned empty-handed after only %.0f ns of virtual time", bud, k,
                                  1e9 * (vs_now() - t0));
                    else
                        VSA_CHECK(vs_now() - t0 >= 1e-9 * (double)bud || pushes_started[k] > pushes0,
                                  "FIFO_WAIT pop_wait(%ld ns) on PW%d returned empty-handed after %.0f ns although no push "
                                  "to that pool overlapped the call", bud, k, 1e9 * (vs_now() - t0));
                }
            } else {
                struct timespec ts;
                clock_gettime(CLOCK_REALTIME, &ts);
                /* rounded up to the next multiple of 100 ns: the truncations of the clock value do not accumulate */
                long long abs_ns = (((long long)ts.tv_sec * 1000000000LL + ts.tv_nsec + 99) / 100) * 100 + bud;
                double abs_s = (double)(abs_ns / 1000000000LL) + 1e-9 * (double)(abs_ns % 1000000000LL);
                budget_sum += 1e-9 * (double)bud + gran + 5e-6;
                ABT_unit unit = ABT_UNIT_NULL;
                vs_log("apiCall popTimedwait PW%d %lld 0", k, abs_ns);
                ABT_OK(ABT_pool_pop_timedwait(PL[k], &unit, abs_s));
                if (unit != ABT_UNIT_NULL) /* a built-in pool's unit is the tagged descriptor pointer */
                    ABT_OK(ABT_unit_get_thread(unit, &th));
                u = unit_of(th);
                vs_note("apiRet popTimedwait PW%d %d", k, u);
                limit = abs_s + over;
                tail = 0;
                if (u == -1) {
                    n_empty++;
                    if (kind != K_FIFO_WAIT)
                        VSA_CHECK(vs_now() > abs_s, "pop_timedwait on PW%d returned empty-handed %.0f ns before its absolute time",
                                  k, 1e9 * (abs_s - vs_now()));
                    else
                        VSA_CHECK(vs_now() >= abs_s - 2e-9 || pushes_started[k] > pushes0,
                                  "FIFO_WAIT pop_timedwait on PW%d returned empty-handed %.0f ns early although no push to "
                                  "that pool overlapped the call", k, 1e9 * (abs_s - vs_now()));
                }
            }
            double t1 = vs_now();
            inside_pop[k]--;
            inside_block[k]--;
            int solo = timed_leave(me, act);
            if (solo) {
                n_solo_checked++;
                VSA_CHECK(t1 <= limit, "blocking pop on PW%d (budget %ld ns) took %.0f ns of virtual time although nobody else "
                          "used the clock", k, bud, 1e9 * (t1 - t0));
                if (u >= 0 && kind == K_FIFO_WAIT && u_solo_call[u] == id && u_pushret[u] < limit - over - 2e-6) {
                    /* the unit was pushed while this very call was the only one inside the pool, well before its deadline:
                     * either the call had not slept yet, or the push woke it; time can only have reached the deadline
                     * (the sole pending one) if it was still asleep then */
                    n_wake_checked++;
                    VSA_CHECK(t1 < limit - over, "FIFO_WAIT PW%d: U%d was pushed %.0f ns before the deadline of the only waiting "
                              "consumer, which nevertheless slept until its deadline (lost wake-up)", k, u,
                              1e9 * (limit - over - u_pushret[u]));
                }
            }
        } else {
            inside_pop[k]++;
            vs_log("apiCall pop PW%d %d", k, tail);
            ABT_OK(ABT_pool_pop_thread_ex(PL[k], &th, ctx));
            u = unit_of(th);
            vs_note("apiRet pop PW%d %d", k, u);
            inside_pop[k]--;
            if (u == -1) {
                n_empty++;
                if (++idle_rounds % 4 == 0) {
                    /* do not spin on empty pools for ever: let time pass */
                    int act = timed_active;
                    long me = timed_enter();
                    budget_sum += (2e-6 > gran ? 2e-6 : gran);
                    usleep(2);
                    timed_leave(me, act);
                }
                relax(a);
            }
        }
        if (u >= 0) {
            got_unit(a, u, k);
            dispose(a, u);
        } else if (u == -2) {
            vs_fail("PW%d returned a handle that is none of the scenario's units", k);
        }
        if (a->kind == AK_ULT || sc_rnd(3) == 0)
            relax(a);
    }
}

#define OFFN(tag, field, off, size) vs_note("O %s %s %zu %zu", tag, field, (size_t)(off), (size_t)(size))

int main(int argc, char **argv)
{
    vsa_setup(argc, argv);
    int kinds = (int)vsa_param(0, 0), access = (int)vsa_param(1, 0);
    nprod = (int)vsa_param(2, 1);
    ncons = (int)vsa_param(3, 1);
    nunits = (int)vsa_param(4, 4);
    int extpct = (int)vsa_param(5, 50);
    solo_style = (int)vsa_param(6, 0);
    spsc = access == 1;
    if (spsc)
        nprod = ncons = 1, kinds = kinds == 3 ? 0 : kinds;
    if (solo_style)
        ncons = 1;
    if (nunits > MAXU)
        nunits = MAXU;
    if (nprod < 1)
        nprod = 1;
    if (ncons < 1)
        ncons = 1;
    if (nprod + ncons > MAX_ACTORS)
        ncons = MAX_ACTORS - nprod;
    setenv("VS_BUDGET", "15000000", 0); /* poll loops with a 150 us budget take ~140 iterations each */
    ABT_init(0, NULL);
    vsa_begin();
    vs_note("scenario popwait kinds=%d access=%d nprod=%d ncons=%d nunits=%d solo=%d", kinds, access, nprod, ncons, nunits, solo_style);
    OFFN("PWpoll", "lock", offsetof(struct poll_data, mutex), sizeof(ABTD_spinlock));
    OFFN("PWpoll", "is_empty", offsetof(struct poll_data, queue) + offsetof(thread_queue_t, is_empty), sizeof(int));
    OFFN("PWpoll", "num_threads", offsetof(struct poll_data, queue) + offsetof(thread_queue_t, num_threads), sizeof(size_t));
    OFFN("PWfwait", "lock", offsetof(struct fwait_data, mutex), sizeof(pthread_mutex_t));
    OFFN("PWfwait", "cond", offsetof(struct fwait_data, cond), sizeof(pthread_cond_t));
    OFFN("PWfwait", "is_empty", offsetof(struct fwait_data, queue) + offsetof(thread_queue_t, is_empty), sizeof(int));
    OFFN("PWfwait", "num_threads", offsetof(struct fwait_data, queue) + offsetof(thread_queue_t, num_threads), sizeof(size_t));
    OFFN("ABTI_thread", "is_in_pool", offsetof(ABTI_thread, is_in_pool), sizeof(int));
    /* one execution stream: ULT actors share it (a ULT that sleeps in a blocking pop stalls the others, as it does for
     * real), external actors are OS threads; a second, idle stream would only burn the step budget polling its pool */
    sc_streams(1, ABT_SCHED_BASIC);
    {
        /* how long does the pools' nanosleep(100 ns) take in virtual time? (vsched may round short sleeps up) */
        struct timespec ts = { 0, 100 };
        double a0 = vs_now();
        nanosleep(&ts, NULL);
        gran_ns = ((long)((vs_now() - a0) * 1e9 + 50.0) / 100) * 100;
        if (gran_ns < 100)
            gran_ns = 100;
        gran = 1e-9 * (double)gran_ns;
        vs_note("sleep granule %ld ns", gran_ns);
    }
    double T0 = vs_now();

    npools = kinds == 3 ? 3 : 1;
    for (int k = 0; k < npools; k++) {
        pkind[k] = kinds == 3 ? k : kinds;
        ABT_pool_kind pk = pkind[k] == K_FIFO ? ABT_POOL_FIFO : (pkind[k] == K_FIFO_WAIT ? ABT_POOL_FIFO_WAIT : ABT_POOL_RANDWS);
        ABT_OK(ABT_pool_create_basic(pk, spsc ? ABT_POOL_ACCESS_SPSC : ABT_POOL_ACCESS_MPMC, ABT_FALSE, &PL[k]));
        vsa_name_pool(PL[k], "PW%d", k);
        /* the queue object again, this time with its loads logged (the latest registration wins) */
        vs_name_ex(ABTI_pool_get_ptr(PL[k])->data, pkind[k] == K_FIFO_WAIT ? sizeof(struct fwait_data) : sizeof(struct poll_data), 0,
                   "PW%d.q", k);
        vs_note("obj PW%d kind=%s access=%s", k, KN[pkind[k]], spsc ? "spsc" : "mpmc");
    }
    ABT_OK(ABT_pool_create_basic(ABT_POOL_FIFO, ABT_POOL_ACCESS_MPMC, ABT_FALSE, &stage));
    for (int i = 0; i < nunits; i++) {
        ABT_thread got = ABT_THREAD_NULL;
        ABT_OK(ABT_thread_create(stage, unit_body, (void *)(intptr_t)i, ABT_THREAD_ATTR_NULL, &U[i]));
        ABT_OK(ABT_pool_pop_thread(stage, &got));
        VSA_CHECK(got == U[i], "staging pool returned another unit");
        vsa_name_thread(U[i], "U%d", i);
        u_where[i] = -1;
        u_hops[i] = sc_rnd(3);
    }

    sc_nactors = nprod + ncons;
    for (int i = 0; i < sc_nactors; i++) {
        sc_actors[i].kind = sc_rnd(100) < extpct ? AK_EXT : AK_ULT;
        sc_actors[i].es = sc_rnd(sc_nes);
        sc_actors[i].body = i < nprod ? producer_body : consumer_body;
        vs_note("actor A%d kind=%s es=%d role=%s", i, AKN[sc_actors[i].kind], sc_actors[i].es, i < nprod ? "producer" : "consumer");
    }
    sc_launch();
    sc_join_all();

    /* conservation at quiescence */
    for (int k = 0; k < npools; k++) {
        size_t n = 99;
        ABT_bool e = ABT_FALSE;
        ABT_OK(ABT_pool_get_size(PL[k], &n));
        ABT_OK(ABT_pool_is_empty(PL[k], &e));
        VSA_CHECK(n == 0 && e == ABT_TRUE, "PW%d not empty at the end: size=%zu is_empty=%d", k, n, (int)e);
    }
    VSA_CHECK(retired == nunits && total_pushes == total_pops, "conservation: retired=%d of %d, pushes=%d pops=%d", retired, nunits,
              total_pushes, total_pops);
    for (int i = 0; i < nunits; i++)
        VSA_CHECK(u_pushes[i] == u_pops[i] && u_where[i] == -1, "U%d: pushed %d times, popped %d times, where=%d", i, u_pushes[i],
                  u_pops[i], u_where[i]);
    double span = vs_now() - T0;
    VSA_CHECK(span <= budget_sum + 20e-6, "the run took %.0f ns of virtual time, more than all budgets and sleeps together (%.0f ns)",
              1e9 * span, 1e9 * budget_sum);
    vs_note("popwait stats got=%d empty=%d solo_checked=%d wake_checked=%d span_ns=%.0f budget_ns=%.0f", n_got, n_empty, n_solo_checked,
            n_wake_checked, 1e9 * span, 1e9 * budget_sum);

    /* let the units run: push them to the primary stream's pool, join, free */
    for (int i = 0; i < nunits; i++)
        ABT_OK(ABT_pool_push_thread(sc_pool[0], U[i]));
    for (int i = 0; i < nunits; i++) {
        ABT_OK(ABT_thread_join(U[i]));
        VSA_CHECK(u_ran[i] == 1, "U%d ran %d times", i, u_ran[i]);
        vs_unname(ABTI_thread_get_ptr(U[i]));
        ABT_OK(ABT_thread_free(&U[i]));
    }
    for (int k = 0; k < npools; k++) {
        vs_unname(ABTI_pool_get_ptr(PL[k])->data);
        vs_unname(ABTI_pool_get_ptr(PL[k])->data);
        vs_unname(ABTI_pool_get_ptr(PL[k]));
        ABT_OK(ABT_pool_free(&PL[k]));
    }
    ABT_OK(ABT_pool_free(&stage));
    sc_stop_streams();
    ABT_finalize();
    int rc = vsa_end();
    if (rc)
        fprintf(stderr, "MONITOR: %s\n", vs_first_failure());
    return rc;
}
