/* API-level differential driver for user-defined pools (C14).
 *
 * Pools: 0,1 built-in FIFO; 2,3 ABT_pool_user_def; 4 legacy ABT_pool_def; 5,6 ABT_pool_user_def
 * "twins" that both use the SAME unit handle for a given work unit (a per-work-unit arena slot,
 * like pools that use the ABT_thread handle as unit).  None is attached
 * to a scheduler: the primary ULT plays scheduler (pop / ABT_self_schedule), so the order in
 * which work units are handed out is whatever the op sequence says (user pools pop the
 * element chosen by the op line, i.e. by the check's PRNG).
 * Units of user pools come from one arena whose slot addresses all hash into buckets 1 and 2
 * of the runtime's unit table (arena base aligned to 2^27, so the hash of an address is the
 * hash of its offset); the lowest free slot is used.  Every create_unit / free_unit / push /
 * pop callback is logged with canonical names (u<slot>, t<index>, p<pool>).
 *
 * Line protocol identical to `driver userpool`:
 *   create ult|task P | pop P I | push T P | pushu T P | setpool T P | run T f | run T y |
 *   run T m P | revive T P | free T | fail P | xlat T | popn P M | pushn P T.. | stat | fin
 */
#include "abti.h"
#include <stdio.h>
#include <stdlib.h>
#include <string.h>
#include <unistd.h>

#define NPOOLS 7
#define MAXT 8192
#define NSLOTS 48
#define NTWIN 512 /* twin slot NSLOTS+k belongs to work unit t<k> */
#define MAXQ 256

enum { S_FREE = 0, S_POOL, S_HAND, S_TERM };
static ABT_pool pools[NPOOLS];
static ABT_thread th[MAXT];
static int tstate[MAXT], tkind[MAXT], entered[MAXT], finished[MAXT];
static int nthreads = 0;
static int creating_idx = -1;

/* ---- arena ---- */
typedef struct {
    ABT_thread thread;
    int slot;
} uunit;
static char *arena;
static size_t slot_off[NSLOTS + NTWIN];
static int slot_used[NSLOTS];
static int twin_live[2][NTWIN];

static size_t my_hash(size_t v) { return ((v >> 3) + (v >> 11) + (v >> 19)) & 255; }

static void arena_init(void)
{
    void *p = NULL;
    if (posix_memalign(&p, (size_t)1 << 27, (size_t)1 << 22) != 0) {
        printf("harness-error: arena\n");
        exit(3);
    }
    arena = (char *)p;
    int n = 0;
    for (size_t off = 64; n < NSLOTS + NTWIN; off += 8) {
        size_t hv = my_hash(off);
        if (hv == 1 || hv == 2) {
            if (n > 0 && off < slot_off[n - 1] + sizeof(uunit))
                continue;
            slot_off[n++] = off;
        }
    }
}
static int slot_of(ABT_unit u)
{
    size_t off = (size_t)((char *)u - arena);
    for (int i = 0; i < NSLOTS + NTWIN; i++)
        if (slot_off[i] == off)
            return i;
    return -1;
}

/* ---- event log (flushed per op line) ---- */
static char obuf[1 << 16];
static size_t olen;
#define OUT(...) (olen += snprintf(obuf + olen, sizeof obuf - olen, __VA_ARGS__))

static int tindex(ABT_thread t)
{
    for (int i = 0; i < nthreads; i++)
        if (tstate[i] != S_FREE && th[i] == t)
            return i;
    return creating_idx;
}
static int pindex(ABT_pool p)
{
    for (int i = 0; i < NPOOLS; i++)
        if (pools[i] == p)
            return i;
    return -1;
}

/* how many elements of the runtime's unit table hold this handle right now (white-box, read-only walk of
 * p_global->unit_to_thread_entires; the element type is private to unit.c: {unit, p_thread, p_next}) */
static int table_count(ABT_unit u)
{
    ABTI_global *g = ABTI_global_get_global();
    int n = 0;
    for (int i = 0; i < (int)ABTI_UNIT_HASH_TABLE_SIZE; i++) {
        struct cell {
            void *unit;
            ABTI_thread *p_thread;
            struct cell *p_next;
        } *c = (struct cell *)ABTD_atomic_acquire_load_ptr(&g->unit_to_thread_entires[i].list.val);
        for (; c; c = c->p_next)
            n += (ABT_unit)c->unit == u;
    }
    return n;
}

/* ---- user pool implementation shared by pools 2,3,4 ---- */
static ABT_unit q[NPOOLS][MAXQ];
static int qn[NPOOLS];
static int fail_next[NPOOLS];
static long pop_choice;

static ABT_unit up_create(int pi, ABT_thread thread)
{
    if (fail_next[pi]) {
        fail_next[pi] = 0;
        OUT(" | create p%d t%d null", pi, tindex(thread));
        return ABT_UNIT_NULL;
    }
    if (pi >= 5) {
        int k = tindex(thread);
        if (k < 0 || k >= NTWIN) {
            OUT(" | create p%d t%d null", pi, k);
            return ABT_UNIT_NULL;
        }
        uunit *u = (uunit *)(arena + slot_off[NSLOTS + k]);
        u->thread = thread;
        u->slot = NSLOTS + k;
        OUT(" | create p%d t%d u%d m%d", pi, k, NSLOTS + k, table_count((ABT_unit)u));
        if (twin_live[pi - 5][k])
            OUT("!already-live");
        twin_live[pi - 5][k] = 1;
        return (ABT_unit)u;
    }
    for (int i = 0; i < NSLOTS; i++)
        if (!slot_used[i]) {
            slot_used[i] = 1;
            uunit *u = (uunit *)(arena + slot_off[i]);
            u->thread = thread;
            u->slot = i;
            OUT(" | create p%d t%d u%d m%d", pi, tindex(thread), i, table_count((ABT_unit)u));
            return (ABT_unit)u;
        }
    printf("harness-error: arena full\n");
    exit(3);
}
static void up_free(int pi, ABT_unit unit)
{
    int s = slot_of(unit);
    OUT(" | free p%d u%d m%d", pi, s, table_count(unit)); /* m: still in the runtime's table at this instant? */
    if (s >= NSLOTS && pi >= 5) {
        if (!twin_live[pi - 5][s - NSLOTS])
            OUT("!not-live");
        twin_live[pi - 5][s - NSLOTS] = 0;
    } else if (s < 0 || s >= NSLOTS || !slot_used[s])
        OUT("!not-live");
    else
        slot_used[s] = 0;
}
static void up_push(int pi, ABT_unit unit)
{
    int s = slot_of(unit);
    OUT(" | push p%d u%d", pi, s);
    if (s >= NSLOTS && pi >= 5 ? !twin_live[pi - 5][s - NSLOTS] : (s < 0 || s >= NSLOTS || !slot_used[s]))
        OUT("!not-live");
    q[pi][qn[pi]++] = unit;
}
static ABT_unit up_pop(int pi)
{
    if (qn[pi] == 0) {
        OUT(" | pop p%d none", pi);
        return ABT_UNIT_NULL;
    }
    int i = (int)(pop_choice % qn[pi]);
    ABT_unit u = q[pi][i];
    for (int j = i; j + 1 < qn[pi]; j++)
        q[pi][j] = q[pi][j + 1];
    qn[pi]--;
    OUT(" | pop p%d u%d", pi, slot_of(u));
    return u;
}

/* new-style definition (pools 2 and 3) */
static ABT_unit nd_create_unit(ABT_pool pool, ABT_thread thread) { return up_create(pindex(pool), thread); }
static void nd_free_unit(ABT_pool pool, ABT_unit unit) { up_free(pindex(pool), unit); }
static ABT_bool nd_is_empty(ABT_pool pool) { return qn[pindex(pool)] == 0 ? ABT_TRUE : ABT_FALSE; }
static ABT_thread nd_pop(ABT_pool pool, ABT_pool_context ctx)
{
    (void)ctx;
    ABT_unit u = up_pop(pindex(pool));
    return u == ABT_UNIT_NULL ? ABT_THREAD_NULL : ((uunit *)u)->thread;
}
static void nd_push(ABT_pool pool, ABT_unit unit, ABT_pool_context ctx)
{
    (void)ctx;
    up_push(pindex(pool), unit);
}

/* legacy definition (pool 4): create/free get no pool argument */
static ABT_unit od_create(ABT_thread thread) { return up_create(4, thread); }
static void od_free(ABT_unit *unit) { up_free(4, *unit); }
static int od_init(ABT_pool pool, ABT_pool_config cfg)
{
    (void)pool;
    (void)cfg;
    return ABT_SUCCESS;
}
static size_t od_get_size(ABT_pool pool)
{
    (void)pool;
    return (size_t)qn[4];
}
static void od_push(ABT_pool pool, ABT_unit unit)
{
    (void)pool;
    up_push(4, unit);
}
static ABT_unit od_pop(ABT_pool pool)
{
    (void)pool;
    return up_pop(4); /* the runtime translates the unit back with its hash table */
}
static int od_free_pool(ABT_pool pool)
{
    (void)pool;
    return ABT_SUCCESS;
}

/* ---- work-unit body ---- */
static char action;
static int mig_target;
static int body_ran;
static void body(void *arg)
{
    int me = (int)(intptr_t)arg;
    entered[me]++;
    for (;;) {
        body_ran = 1;
        if (action == 'f' || tkind[me] == 1)
            break;
        if (action == 'm') {
            ABT_thread self;
            ABT_self_get_thread(&self);
            int r = ABT_thread_migrate_to_pool(self, pools[mig_target]);
            OUT(" migrate=%d", r);
        }
        ABT_self_yield();
    }
    finished[me]++;
}

static void dump_table(void)
{
    ABTI_global *g = ABTI_global_get_global();
    for (int i = 0; i < (int)ABTI_UNIT_HASH_TABLE_SIZE; i++) {
        /* the element type is private to unit.c: {unit, p_thread, p_next} */
        struct cell {
            void *unit;
            ABTI_thread *p_thread;
            struct cell *p_next;
        } *c = (struct cell *)ABTD_atomic_acquire_load_ptr(&g->unit_to_thread_entires[i].list.val);
        if (!c)
            continue;
        OUT(" | b%d:", i);
        for (; c; c = c->p_next) {
            if ((ABT_unit)c->unit == ABT_UNIT_NULL)
                OUT(" -");
            else
                OUT(" u%d>t%d", slot_of((ABT_unit)c->unit), tindex(ABTI_thread_get_handle(c->p_thread)));
        }
    }
}

static int valid_t(long t, int st) { return t >= 0 && t < nthreads && tstate[t] == st; }
static int valid_p(long p) { return p >= 0 && p < NPOOLS; }

int main(void)
{
    static char line[512];
    setvbuf(stdout, NULL, _IOLBF, 1 << 16);
    arena_init();
    if (ABT_init(0, NULL) != ABT_SUCCESS)
        return 3;
    ABT_pool_create_basic(ABT_POOL_FIFO, ABT_POOL_ACCESS_MPMC, ABT_FALSE, &pools[0]);
    ABT_pool_create_basic(ABT_POOL_FIFO, ABT_POOL_ACCESS_MPMC, ABT_FALSE, &pools[1]);
    for (int i = 2; i <= 6; i++) {
        if (i == 4)
            continue;
        ABT_pool_user_def def;
        ABT_pool_user_def_create(nd_create_unit, nd_free_unit, nd_is_empty, nd_pop, nd_push, &def);
        ABT_pool_create(def, ABT_POOL_CONFIG_NULL, &pools[i]);
        ABT_pool_user_def_free(&def);
    }
    {
        ABT_pool_def def;
        memset(&def, 0, sizeof def);
        def.access = ABT_POOL_ACCESS_MPMC;
        def.u_create_from_thread = od_create;
        def.u_free = od_free;
        def.p_init = od_init;
        def.p_get_size = od_get_size;
        def.p_push = od_push;
        def.p_pop = od_pop;
        def.p_free = od_free_pool;
        ABT_pool_create(&def, ABT_POOL_CONFIG_NULL, &pools[4]);
    }
    while (fgets(line, sizeof line, stdin)) {
        char op[16] = "", a1[16] = "";
        long a = -1, b = -1;
        olen = 0;
        obuf[0] = 0;
        if (sscanf(line, " %15s", op) < 1)
            continue;
        if (!strcmp(op, "create") && sscanf(line, " %*s %15s %ld", a1, &a) == 2 && valid_p(a) && nthreads < MAXT &&
            (!strcmp(a1, "ult") || !strcmp(a1, "task"))) {
            int k = nthreads, r;
            creating_idx = k;
            tkind[k] = !strcmp(a1, "task");
            if (tkind[k] == 0)
                r = ABT_thread_create(pools[a], body, (void *)(intptr_t)k, ABT_THREAD_ATTR_NULL, &th[k]);
            else
                r = ABT_task_create(pools[a], body, (void *)(intptr_t)k, &th[k]);
            creating_idx = -1;
            char ev[1024];
            snprintf(ev, sizeof ev, "%s", obuf);
            olen = 0;
            if (r == ABT_SUCCESS) {
                tstate[k] = S_POOL;
                nthreads++;
                OUT("create %d t%d%s", r, k, ev);
            } else {
                OUT("create %d%s", r, ev);
            }
        } else if (!strcmp(op, "pop") && sscanf(line, " %*s %ld %ld", &a, &b) == 2 && valid_p(a) && b >= 0) {
            ABT_thread t = ABT_THREAD_NULL;
            pop_choice = b;
            char ev[1024];
            int r = ABT_pool_pop_thread(pools[a], &t);
            snprintf(ev, sizeof ev, "%s", obuf);
            olen = 0;
            if (t == ABT_THREAD_NULL) {
                OUT("pop %d none%s", r, ev);
            } else {
                int k = tindex(t);
                if (k < 0 || tstate[k] != S_POOL) {
                    OUT("pop %d t%d!unexpected%s", r, k, ev);
                } else {
                    tstate[k] = S_HAND;
                    OUT("pop %d t%d%s", r, k, ev);
                }
            }
        } else if (!strcmp(op, "popn") && sscanf(line, " %*s %ld %ld", &a, &b) == 2 && (a == 0 || a == 1 || a == 4) && b >= 1 &&
                   b <= 8) {
            /* ABT_pool_pop_threads: built-in pop_many, or the adapter over the legacy definition's p_pop */
            ABT_thread buf[8];
            size_t num = 99;
            for (int i = 0; i < 8; i++)
                buf[i] = ABT_THREAD_NULL;
            pop_choice = 0;
            char ev[1024];
            int r = ABT_pool_pop_threads(pools[a], buf, (size_t)b, &num);
            snprintf(ev, sizeof ev, "%s", obuf);
            olen = 0;
            OUT("popn %d %zu", r, num);
            for (size_t i = 0; i < num && i < 8; i++) {
                int k = tindex(buf[i]);
                if (k < 0 || tstate[k] != S_POOL) {
                    OUT(" t%d!unexpected", k);
                } else {
                    tstate[k] = S_HAND;
                    OUT(" t%d", k);
                }
            }
            OUT("%s", ev);
        } else if (!strcmp(op, "pushn")) {
            /* ABT_pool_push_threads into a built-in pool: pushn P t1 .. tn (1 <= n <= 4, all in hand, distinct) */
            long v[6];
            int n = 0, ok = 1;
            char *sp = NULL;
            char *tok = strtok_r(line, " \t\n", &sp); /* the op */
            while ((tok = strtok_r(NULL, " \t\n", &sp)) != NULL && n < 6) {
                char *e = NULL;
                v[n] = strtol(tok, &e, 10);
                if (*e || e == tok)
                    ok = 0;
                n++;
            }
            if (tok != NULL || n < 2 || n > 5 || !(v[0] == 0 || v[0] == 1))
                ok = 0;
            for (int i = 1; ok && i < n; i++) {
                if (!valid_t(v[i], S_HAND))
                    ok = 0;
                for (int j = 1; j < i; j++)
                    if (v[j] == v[i])
                        ok = 0;
            }
            if (!ok) {
                OUT("bad-op");
            } else {
                ABT_thread arr[4];
                for (int i = 1; i < n; i++)
                    arr[i - 1] = th[v[i]];
                char ev[1024];
                int r = ABT_pool_push_threads(pools[v[0]], arr, (size_t)(n - 1));
                snprintf(ev, sizeof ev, "%s", obuf);
                olen = 0;
                OUT("pushn %d%s", r, ev);
                if (r == ABT_SUCCESS)
                    for (int i = 1; i < n; i++)
                        tstate[v[i]] = S_POOL;
            }
        } else if ((!strcmp(op, "push") || !strcmp(op, "pushu") || !strcmp(op, "setpool")) &&
                   sscanf(line, " %*s %ld %ld", &a, &b) == 2 && valid_t(a, S_HAND) && valid_p(b)) {
            char ev[1024];
            int r;
            if (!strcmp(op, "push")) {
                r = ABT_pool_push_thread(pools[b], th[a]);
            } else if (!strcmp(op, "pushu")) {
                ABT_unit u;
                ABT_thread_get_unit(th[a], &u);
                r = ABT_pool_push(pools[b], u);
            } else {
                r = ABT_thread_set_associated_pool(th[a], pools[b]);
            }
            snprintf(ev, sizeof ev, "%s", obuf);
            olen = 0;
            OUT("%s %d%s", op, r, ev);
            if (r == ABT_SUCCESS && strcmp(op, "setpool"))
                tstate[a] = S_POOL;
        } else if (!strcmp(op, "run") && sscanf(line, " %*s %ld %15s %ld", &a, a1, &b) >= 2 && valid_t(a, S_HAND) &&
                   (a1[0] == 'f' || a1[0] == 'y' || (a1[0] == 'm' && valid_p(b)))) {
            char ev[1024];
            action = a1[0];
            mig_target = (int)b;
            int done0 = finished[a];
            body_ran = 0;
            int r = ABT_self_schedule(th[a], ABT_POOL_NULL);
            snprintf(ev, sizeof ev, "%s", obuf);
            olen = 0;
            if (!body_ran) {
                /* a pending migration request was honoured at schedule time: pushed, not run */
                tstate[a] = S_POOL;
                OUT("run %d migrated%s", r, ev);
            } else if (finished[a] != done0) {
                tstate[a] = S_TERM;
                OUT("run %d term%s", r, ev);
            } else {
                tstate[a] = S_POOL;
                OUT("run %d yield%s", r, ev);
            }
        } else if (!strcmp(op, "revive") && sscanf(line, " %*s %ld %ld", &a, &b) == 2 && valid_t(a, S_TERM) &&
                   valid_p(b)) {
            char ev[1024];
            int r = ABT_thread_revive(pools[b], body, (void *)(intptr_t)a, &th[a]);
            snprintf(ev, sizeof ev, "%s", obuf);
            olen = 0;
            OUT("revive %d%s", r, ev);
            if (r == ABT_SUCCESS)
                tstate[a] = S_POOL;
        } else if (!strcmp(op, "free") && sscanf(line, " %*s %ld", &a) == 1 && valid_t(a, S_TERM)) {
            char ev[1024];
            ABT_thread t = th[a];
            int r = ABT_thread_free(&t);
            snprintf(ev, sizeof ev, "%s", obuf);
            olen = 0;
            OUT("free %d%s", r, ev);
            tstate[a] = S_FREE;
        } else if (!strcmp(op, "fail") && sscanf(line, " %*s %ld", &a) == 1 && a >= 2 && a < NPOOLS) {
            fail_next[a] = 1;
            OUT("fail");
        } else if (!strcmp(op, "xlat") && sscanf(line, " %*s %ld", &a) == 1 && a >= 0 && a < nthreads &&
                   tstate[a] != S_FREE) {
            ABT_unit u = ABT_UNIT_NULL;
            ABT_thread back = ABT_THREAD_NULL;
            ABT_thread_get_unit(th[a], &u);
            int r = ABT_unit_get_thread(u, &back);
            if (ABTI_unit_is_builtin(u))
                OUT("xlat %d builtin t%d", r, tindex(back));
            else
                OUT("xlat %d u%d t%d", r, slot_of(u), tindex(back));
        } else if (!strcmp(op, "stat")) {
            OUT("stat");
            dump_table();
        } else if (!strcmp(op, "fin")) {
            OUT("fin");
            for (int i = 0; i < nthreads; i++)
                OUT(" %d/%d", entered[i], finished[i]);
        } else {
            OUT("bad-op");
        }
        puts(obuf);
    }
    fflush(stdout);
    _exit(0);
}
