/* vsched scenario: the join / cancel / exit / revive / free life cycle of secondary execution streams on the REAL
 * library (C17, Model.XsLife).
 * usage: sc_xslife <seed> <mode> <log> <nstreams 1..3> <nops per stream> <ext%> <par%>
 *
 * Two API actors, the primary ULT (actor 99) and one external pthread (actor 0), execute per-stream histories over
 *   create | push a ULT | cancel | push a ULT that calls ABT_xstream_exit | poll get_state | poll until TERMINATED |
 *   join | join again | revive | free | create again
 * The operations on one stream are issued one at a time (the API contract: one of join / revive / free at a time per
 * stream; cancel only on a running stream), alternating between the two actors; different streams progress
 * concurrently, and a `par` poll (ABT_xstream_get_state) of one actor overlaps the join / revive / cancel / push the
 * other actor is executing on the same stream.  After cancel / exit the usual continuation is "poll until TERMINATED
 * becomes visible, join at once, revive".  The secondary streams' native threads are controlled by vsched as well
 * (pthread_create / mutex / cond / join are virtual).
 *
 * Trace (for vlib/t3_xslife.py): `xl life X<i> <n> tid=<native tid>` when a stream (re)enters the world, `xl call <a> <op>
 * X<i>` / `xl ret <a> <op> X<i> <rc> [<state>]` around every call, `xl unit X<i> <k>` / `xl exitunit X<i> <k>` when a
 * pushed ULT runs, the atomic operations on the named fields (X<i>+state, X<i>.sched+request, X<i>.schedU+request /
 * +state), the runtime's work-unit events, the virtual pthread lines `M`/`R`/`W` on X<i>'s ctx.state_lock / state_cond
 * and, after each of them, the plain context state word: `xl ctx X<i> <state>`.
 *
 * Native monitors (independent of the Lean model; plain counters are atomic between two schedule points):
 *  - every API call returns ABT_SUCCESS;
 *  - when ABT_xstream_join returns, the native thread's context state is WAITING (it has parked) and the public state
 *    is TERMINATED;
 *  - ABT_xstream_get_state: TERMINATED after a completed join until the revive; RUNNING after create / revive as long
 *    as nobody joined, cancelled or exited the stream (never TERMINATED by itself); a running ULT sees its own stream
 *    RUNNING;
 *  - every pushed ULT runs at most once, on the stream it was pushed to; when a join returns and nobody cancelled /
 *    exited the stream in this run, every ULT pushed so far has run; at the final free (after a clean run) every ULT
 *    pushed in any life has run exactly once;
 *  - an ABTI_ASSERT of the runtime that fails (e.g. `p_ctx->state == ABTD_XSTREAM_CONTEXT_STATE_WAITING` in
 *    ABTD_xstream_context_revive) is a monitor failure with the text of the assertion. */
#include "sc_common.h"
#include <sched.h>
#include <unistd.h>

#define MAXS 3
#define MAXOPS 96
#define MAXU 256
#define MAIN_ID 99
#define EXT_ID 0

enum { OP_CREATE, OP_PUSH, OP_CANCEL, OP_EXIT, OP_POLL, OP_POLLT, OP_JOIN, OP_REVIVE, OP_FREE, OP_NOPS };
static const char *OPN_[] = { "create", "push", "cancel", "exit", "poll", "pollt", "join", "revive", "free" };
enum { ST_NONE, ST_RUN, ST_DYING, ST_JOINED };
static const char *STN[] = { "none", "run", "dying", "joined" };

typedef struct {
    int op, who, par;
    int pre;           /* abstract state before the op (generation time = execution time: per-stream sequential) */
    int cx;            /* a cancel / exit was issued in this run before the op */
    volatile int started, done;
} sop;

typedef struct {
    int s, k;
    int ran, exitunit;
} unit;

typedef struct {
    int idx;
    ABT_xstream xs;
    ABT_pool pool;
    sop ops[MAXOPS];
    int nops;
    int life;
    long pushed, ran;  /* ordinary units over all lives */
    long exits_pushed, exits_ran;
    int native_tid;
} strm;

static strm S[MAXS];
static int ns = 1;
static unit units[MAXU];
static int nunits;
static long n_ops[OP_NOPS], n_par_polls, n_join_after_visible;

void __assert_fail(const char *assertion, const char *file, unsigned int line, const char *function)
{
    const char *base = strrchr(file, '/');
    vs_fail("ABTI_ASSERT(%s) failed in %s (%s:%u)%s", assertion, function, base ? base + 1 : file, line,
            strstr(assertion, "CONTEXT_STATE_WAITING")
                ? ": revive / free / join acted on a native thread that has not parked (join returned too early?)"
                : "");
    fprintf(stderr, "MONITOR: %s\n", vs_first_failure());
    fflush(NULL);
    _exit(1);
}

static const char *ctxname(int st)
{
    switch (st) {
        case ABTD_XSTREAM_CONTEXT_STATE_RUNNING: return "RUNNING";
        case ABTD_XSTREAM_CONTEXT_STATE_WAITING: return "WAITING";
        case ABTD_XSTREAM_CONTEXT_STATE_REQ_JOIN: return "REQ_JOIN";
        case ABTD_XSTREAM_CONTEXT_STATE_REQ_TERMINATE: return "REQ_TERMINATE";
        case ABTD_XSTREAM_CONTEXT_STATE_UNINIT: return "UNINIT";
    }
    return "UNKNOWN";
}

/* after every M / R / W line on a named object: the plain word the mutex protects */
static void ctx_word(char tag, const char *what, const void *obj)
{
    (void)tag;
    (void)what;
    for (int i = 0; i < ns; i++) {
        ABTI_xstream *p = S[i].xs != ABT_XSTREAM_NULL ? ABTI_xstream_get_ptr(S[i].xs) : NULL;
        if (p && (const char *)obj >= (const char *)&p->ctx && (const char *)obj < (const char *)(&p->ctx + 1))
            vs_note("xl ctx X%d %s", i + 1, ctxname(p->ctx.state));
    }
}

static const char *xstate(ABT_xstream_state st)
{
    return st == ABT_XSTREAM_STATE_RUNNING ? "RUNNING" : st == ABT_XSTREAM_STATE_TERMINATED ? "TERMINATED" : "OTHER";
}

/* ------------------------------------------------------------------ work units */
static void unit_body(void *arg)
{
    unit *u = (unit *)arg;
    strm *s = &S[u->s];
    ABT_xstream self;
    ABT_xstream_state st;
    ABT_OK(ABT_xstream_self(&self));
    u->ran++;
    if (u->exitunit)
        s->exits_ran++;
    else
        s->ran++;
    vs_note("xl %s X%d %d", u->exitunit ? "exitunit" : "unit", s->idx + 1, u->k);
    VSA_CHECK(u->ran == 1, "ULT %d pushed to X%d ran %d times", u->k, s->idx + 1, u->ran);
    VSA_CHECK(self == s->xs, "ULT %d pushed to the pool of X%d runs on another execution stream", u->k, s->idx + 1);
    ABT_OK(ABT_xstream_get_state(self, &st));
    VSA_CHECK(st == ABT_XSTREAM_STATE_RUNNING, "a ULT runs on X%d while ABT_xstream_get_state reports %s", s->idx + 1, xstate(st));
    if (u->exitunit) {
        int rc = ABT_xstream_exit();
        vs_fail("ABT_xstream_exit returned (%d) to its caller on a secondary stream", rc);
    }
}

/* ------------------------------------------------------------------ history generation */
static int pick_who(int cur, int extpct)
{
    if (sc_rnd(100) < 55)
        return cur; /* the same actor goes on */
    return sc_rnd(100) < extpct ? 0 : 1; /* 0 = external thread, 1 = primary ULT */
}

/* `left`: ULTs may be sitting in the pool of a stream that is not running (pushed while it was dying / joined, or cut
 * off by a cancel / exit).  A run that ends by a join without cancel / exit drains the pool (that is the property);
 * the history frees a stream only after such a run. */
static void gen(strm *s, int nops, int extpct, int parpct)
{
    int st = ST_NONE, cx = 0, left = 0, who = sc_rnd(100) < extpct ? 0 : 1, n = 0, force_join_by = -1, lives = 0;
#define EMIT(o)                                                                \
    do {                                                                       \
        s->ops[n].op = (o);                                                    \
        s->ops[n].who = who;                                                   \
        s->ops[n].pre = st;                                                    \
        s->ops[n].cx = cx;                                                     \
        s->ops[n].par = 0;                                                     \
        n++;                                                                   \
    } while (0)
    while (n < nops) {
        int r = sc_rnd(100), n0 = n;
        who = force_join_by >= 0 ? force_join_by : pick_who(who, extpct);
        if (st == ST_NONE) {
            if (lives >= 5 || (lives > 0 && sc_rnd(3) == 0))
                break;
            EMIT(OP_CREATE);
            lives++;
            st = ST_RUN;
            cx = 0;
        } else if (st == ST_RUN) {
            if (r < 28) {
                EMIT(OP_PUSH);
            } else if (r < 42) {
                EMIT(OP_CANCEL);
                st = ST_DYING;
                cx = 1;
                left = 1;
            } else if (r < 56) {
                EMIT(OP_EXIT);
                st = ST_DYING;
                cx = 1;
                left = 1;
            } else if (r < 66) {
                EMIT(OP_POLL);
            } else if (r < 94) {
                EMIT(OP_JOIN); /* a clean run ends: the pool is drained */
                st = ST_JOINED;
                left = 0;
            } else {
                EMIT(OP_FREE); /* free of a running stream: joins first (clean run) */
                st = ST_NONE;
                left = 0;
            }
        } else if (st == ST_DYING) {
            if (force_join_by >= 0) {
                EMIT(OP_JOIN);
                st = ST_JOINED;
                force_join_by = -1;
            } else if (r < 55) {
                EMIT(OP_POLLT); /* wait until TERMINATED is visible ... */
                if (sc_rnd(100) < 80)
                    force_join_by = who; /* ... and join at once */
            } else if (r < 85) {
                EMIT(OP_JOIN);
                st = ST_JOINED;
            } else if (r < 92) {
                EMIT(OP_PUSH);
            } else {
                EMIT(OP_POLL);
            }
        } else { /* ST_JOINED */
            if (r < 18) {
                EMIT(OP_JOIN); /* join again */
            } else if (r < 68 || (r >= 84 && left)) {
                EMIT(OP_REVIVE);
                st = ST_RUN;
                cx = 0;
            } else if (r < 76) {
                EMIT(OP_POLL);
            } else if (r < 84) {
                EMIT(OP_PUSH);
                left = 1;
            } else {
                EMIT(OP_FREE);
                st = ST_NONE;
            }
        }
        /* a poll of the other actor may overlap the previous operation */
        if (n > n0 && n >= 2 && s->ops[n - 1].op == OP_POLL && s->ops[n - 1].who != s->ops[n - 2].who && sc_rnd(100) < parpct) {
            int po = s->ops[n - 2].op;
            if (po == OP_JOIN || po == OP_REVIVE || po == OP_CANCEL || po == OP_PUSH || po == OP_POLLT || po == OP_EXIT)
                s->ops[n - 1].par = 1;
        }
    }
    /* drain and free */
    who = pick_who(who, extpct);
    if (st == ST_RUN || st == ST_DYING) {
        EMIT(OP_JOIN);
        if (st == ST_RUN)
            left = 0;
        st = ST_JOINED;
    }
    if (st == ST_JOINED) {
        if (left) {
            EMIT(OP_REVIVE);
            st = ST_RUN;
            cx = 0;
            if (sc_rnd(2)) {
                EMIT(OP_JOIN);
                st = ST_JOINED;
            }
        }
        EMIT(OP_FREE);
        st = ST_NONE;
    }
    s->nops = n;
#undef EMIT
}

/* ------------------------------------------------------------------ execution */
static void relax(int id)
{
    if (id == MAIN_ID)
        ABT_thread_yield();
    else
        sched_yield();
}

static void *xp(strm *s) { return (void *)ABTI_xstream_get_ptr(s->xs); }

static void name_stream(strm *s)
{
    ABTI_xstream *p = ABTI_xstream_get_ptr(s->xs);
    vsa_name_xstream(s->xs, "X%d", s->idx + 1);
    vs_note("xl life X%d %d ptr=%p", s->idx + 1, s->life, (void *)p);
}
/* the objects hanging off the stream were released inside ABT_xstream_free while other threads ran: their addresses may
 * already carry the names of another stream's objects, so the entries are dropped by <address, name> */
static void unname1(const void *addr, const char *fmt, int x)
{
    char b[40];
    snprintf(b, sizeof b, fmt, x);
    if (addr)
        vs_unname_named(addr, b);
}
static void unname_stream(int x, ABTI_xstream *p, void *sched, void *schedu, void *rootu, void *pool, void *poolq)
{
    unname1(p, "X%d", x);
    unname1(sched, "X%d.sched", x);
    unname1(schedu, "X%d.schedU", x);
    unname1(rootu, "X%d.rootU", x);
    unname1(pool, "P%d", x);
    unname1(poolq, "P%d.q", x);
}

static void do_op(int id, strm *s, sop *o)
{
    int rc = ABT_SUCCESS, x = s->idx + 1;
    ABT_xstream_state st;
    n_ops[o->op]++;
    switch (o->op) {
        case OP_CREATE: {
            ABT_OK(ABT_pool_create_basic(ABT_POOL_FIFO, ABT_POOL_ACCESS_MPMC, ABT_TRUE, &s->pool));
            vsa_name_pool(s->pool, "P%d", x);
            s->life++;
            vs_log("xl call %d create X%d", id, x);
            rc = ABT_xstream_create_basic(ABT_SCHED_BASIC, 1, &s->pool, ABT_SCHED_CONFIG_NULL, &s->xs);
            if (rc == ABT_SUCCESS)
                name_stream(s);
            vs_note("xl ret %d create X%d %d", id, x, rc);
            VSA_CHECK(rc == ABT_SUCCESS, "ABT_xstream_create_basic returned %d", rc);
            break;
        }
        case OP_PUSH:
        case OP_EXIT: {
            if (nunits >= MAXU)
                break;
            unit *u = &units[nunits];
            u->s = s->idx;
            u->k = nunits++;
            u->ran = 0;
            u->exitunit = o->op == OP_EXIT;
            if (u->exitunit)
                s->exits_pushed++;
            else
                s->pushed++;
            vs_log("xl call %d %s X%d %d", id, OPN_[o->op], x, u->k);
            rc = ABT_thread_create(s->pool, unit_body, u, ABT_THREAD_ATTR_NULL, NULL);
            vs_note("xl ret %d %s X%d %d", id, OPN_[o->op], x, rc);
            VSA_CHECK(rc == ABT_SUCCESS, "ABT_thread_create returned %d", rc);
            break;
        }
        case OP_CANCEL:
            vs_log("xl call %d cancel X%d", id, x);
            rc = ABT_xstream_cancel(s->xs);
            vs_note("xl ret %d cancel X%d %d", id, x, rc);
            VSA_CHECK(rc == ABT_SUCCESS, "ABT_xstream_cancel returned %d", rc);
            break;
        case OP_POLL: {
            int times = 1 + sc_rnd(3);
            if (o->par)
                n_par_polls++;
            for (int t = 0; t < times; t++) {
                vs_log("xl call %d poll X%d", id, x);
                rc = ABT_xstream_get_state(s->xs, &st);
                vs_note("xl ret %d poll X%d %d %s", id, x, rc, xstate(st));
                VSA_CHECK(rc == ABT_SUCCESS, "ABT_xstream_get_state returned %d", rc);
                if (o->pre == ST_RUN && !o->par)
                    VSA_CHECK(st == ABT_XSTREAM_STATE_RUNNING,
                              "ABT_xstream_get_state(X%d) reports %s although nobody joined, cancelled or exited the stream since it was %s",
                              x, xstate(st), "created / revived");
                if (o->pre == ST_JOINED && !o->par)
                    VSA_CHECK(st == ABT_XSTREAM_STATE_TERMINATED, "ABT_xstream_get_state(X%d) reports %s after a completed join", x,
                              xstate(st));
                if (o->par && st == ABT_XSTREAM_STATE_TERMINATED) {
                    /* overlapping the previous operation: TERMINATED needs a cause (a join / cancel / exit issued in this run,
                     * the overlapped operation included) */
                    sop *p = o - 1;
                    int cause = p->cx || p->pre == ST_DYING || p->pre == ST_JOINED || p->op == OP_JOIN || p->op == OP_CANCEL ||
                                p->op == OP_EXIT;
                    VSA_CHECK(cause, "ABT_xstream_get_state(X%d) reports TERMINATED although nobody joined, cancelled or exited it", x);
                }
                if (t + 1 < times)
                    relax(id);
            }
            break;
        }
        case OP_POLLT: {
            /* poll until the termination caused by cancel / exit is visible */
            for (long spins = 0;; spins++) {
                vs_log("xl call %d poll X%d", id, x);
                rc = ABT_xstream_get_state(s->xs, &st);
                vs_note("xl ret %d poll X%d %d %s", id, x, rc, xstate(st));
                VSA_CHECK(rc == ABT_SUCCESS, "ABT_xstream_get_state returned %d", rc);
                if (st == ABT_XSTREAM_STATE_TERMINATED)
                    break;
                relax(id);
            }
            break;
        }
        case OP_JOIN: {
            if (o > s->ops && (o - 1)->op == OP_POLLT && (o - 1)->who == o->who)
                n_join_after_visible++;
            vs_log("xl call %d join X%d", id, x);
            rc = ABT_xstream_join(s->xs);
            /* no schedule point since the join returned */
            ABTI_xstream *p = ABTI_xstream_get_ptr(s->xs);
            int cst = p->ctx.state;
            int pst = ABTD_atomic_relaxed_load_int(&p->state);
            vs_note("xl ret %d join X%d %d ctx=%s pub=%s", id, x, rc, ctxname(cst), xstate((ABT_xstream_state)pst));
            VSA_CHECK(rc == ABT_SUCCESS, "ABT_xstream_join returned %d", rc);
            VSA_CHECK(cst == ABTD_XSTREAM_CONTEXT_STATE_WAITING,
                      "ABT_xstream_join(X%d) returned while the native thread of the stream has not parked (context state %s): "
                      "a revive / free that follows acts on a running thread",
                      x, ctxname(cst));
            VSA_CHECK(pst == ABT_XSTREAM_STATE_TERMINATED, "ABT_xstream_join(X%d) returned while the stream's state is %s", x,
                      xstate((ABT_xstream_state)pst));
            if (o->pre == ST_RUN && !o->cx)
                VSA_CHECK(s->ran == s->pushed,
                          "ABT_xstream_join(X%d) returned (nobody cancelled / exited the stream in this run) but %ld of %ld pushed ULTs "
                          "have not run",
                          x, s->pushed - s->ran, s->pushed);
            break;
        }
        case OP_REVIVE:
            vs_log("xl call %d revive X%d", id, x);
            rc = ABT_xstream_revive(s->xs);
            vs_note("xl ret %d revive X%d %d", id, x, rc);
            VSA_CHECK(rc == ABT_SUCCESS, "ABT_xstream_revive after a completed join returned %d", rc);
            ABT_OK(ABT_xstream_get_state(s->xs, &st));
            VSA_CHECK(st == ABT_XSTREAM_STATE_RUNNING, "ABT_xstream_get_state(X%d) reports %s right after ABT_xstream_revive", x,
                      xstate(st));
            break;
        case OP_FREE: {
            ABTI_xstream *p = ABTI_xstream_get_ptr(s->xs);
            void *sched = p->p_main_sched, *schedu = p->p_main_sched ? (void *)p->p_main_sched->p_ythread : NULL,
                 *rootu = p->p_root_ythread;
            ABTI_pool *pp = ABTI_pool_get_ptr(s->pool);
            void *pq = pp->data;
            vs_log("xl call %d free X%d", id, x);
            rc = ABT_xstream_free(&s->xs);
            vs_note("xl ret %d free X%d %d", id, x, rc);
            unname_stream(x, p, sched, schedu, rootu, pp, pq);
            VSA_CHECK(rc == ABT_SUCCESS, "ABT_xstream_free returned %d", rc);
            VSA_CHECK(s->xs == ABT_XSTREAM_NULL, "ABT_xstream_free did not reset the handle");
            VSA_CHECK(s->ran == s->pushed && s->exits_ran == s->exits_pushed,
                      "X%d freed after a clean run: %ld of %ld pushed ULTs (%ld of %ld exit ULTs) have run", x, s->ran, s->pushed,
                      s->exits_ran, s->exits_pushed);
            break;
        }
    }
}

/* may op k of s start?  everything before it is done; a `par` poll only needs its predecessor to have started */
static int startable(strm *s, int k)
{
    sop *o = &s->ops[k];
    if (o->started)
        return 0;
    for (int j = 0; j < k; j++) {
        if (j == k - 1 && o->par) {
            if (!s->ops[j].started)
                return 0;
        } else if (!s->ops[j].done) {
            return 0;
        }
    }
    return 1;
}

static void actor_loop(int id)
{
    int me = id == MAIN_ID ? 1 : 0;
    for (;;) {
        int cand[MAXS * 2][2], nc = 0, remaining = 0;
        for (int i = 0; i < ns; i++) {
            strm *s = &S[i];
            int f = 0;
            for (int k = 0; k < s->nops; k++)
                if (s->ops[k].who == me && !s->ops[k].started)
                    remaining++;
            while (f < s->nops && s->ops[f].done)
                f++;
            for (int k = f; k < s->nops && k <= f + 1; k++)
                if (s->ops[k].who == me && startable(s, k)) {
                    cand[nc][0] = i;
                    cand[nc][1] = k;
                    nc++;
                }
        }
        if (nc == 0) {
            if (!remaining)
                break;
            relax(id);
            continue;
        }
        int c = sc_rnd(nc);
        strm *s = &S[cand[c][0]];
        sop *o = &s->ops[cand[c][1]];
        o->started = 1;
        do_op(id, s, o);
        o->done = 1;
    }
}

static void ext_body(actor *a)
{
    (void)a;
    actor_loop(EXT_ID);
}

int main(int argc, char **argv)
{
    vsa_setup(argc, argv);
    ns = (int)vsa_param(0, 1);
    int nops = (int)vsa_param(1, 10);
    int extpct = (int)vsa_param(2, 50);
    int parpct = (int)vsa_param(3, 60);
    if (ns < 1)
        ns = 1;
    if (ns > MAXS)
        ns = MAXS;
    if (nops > MAXOPS - 8)
        nops = MAXOPS - 8;
    ABT_init(0, NULL);
    vsa_begin();
    vs_set_mutex_fn(ctx_word);
    vs_note("scenario xslife ns=%d nops=%d ext%%=%d par%%=%d", ns, nops, extpct, parpct);
    sc_nes = 1;
    ABT_OK(ABT_xstream_self(&sc_xs[0]));
    ABT_OK(ABT_xstream_get_main_pools(sc_xs[0], 1, &sc_pool[0]));
    vsa_name_xstream(sc_xs[0], "X0");
    {
        ABT_thread self;
        ABT_OK(ABT_thread_self(&self));
        vsa_name_thread(self, "A%d", MAIN_ID);
        vs_note("actor A%d kind=ult es=0", MAIN_ID);
    }
    for (int i = 0; i < ns; i++) {
        S[i].idx = i;
        S[i].xs = ABT_XSTREAM_NULL;
        gen(&S[i], nops, extpct, parpct);
        for (int k = 0; k < S[i].nops; k++)
            vs_note("xl plan X%d %d %s who=%d par=%d pre=%s cx=%d", i + 1, k, OPN_[S[i].ops[k].op], S[i].ops[k].who, S[i].ops[k].par,
                    STN[S[i].ops[k].pre], S[i].ops[k].cx);
    }
    sc_nactors = 1;
    sc_actors[0].kind = AK_EXT;
    sc_actors[0].es = 0;
    sc_actors[0].body = ext_body;
    vs_note("actor A%d kind=ext es=0", EXT_ID);
    sc_launch();
    actor_loop(MAIN_ID);
    sc_join_all();
    for (int i = 0; i < ns; i++)
        VSA_CHECK(S[i].xs == ABT_XSTREAM_NULL, "scenario: X%d not freed at the end", i + 1);
    for (int k = 0; k < nunits; k++)
        VSA_CHECK(units[k].ran == 1, "ULT %d pushed to X%d ran %d times by the end of the scenario", k, units[k].s + 1, units[k].ran);
    {
        char line[256];
        int n = snprintf(line, sizeof line, "xl end join_after_visible=%ld par_polls=%ld", n_join_after_visible, n_par_polls);
        for (int o = 0; o < OP_NOPS; o++)
            n += snprintf(line + n, sizeof line - n, " %s=%ld", OPN_[o], n_ops[o]);
        vs_note("%s", line);
    }
    ABT_finalize();
    int rc = vsa_end();
    if (rc)
        fprintf(stderr, "MONITOR: %s\n", vs_first_failure());
    return rc;
}
