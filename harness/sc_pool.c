/* vsched scenario: concurrent producers / consumers on one detached built-in pool (C07, concurrent half).
 * usage: sc_pool <seed> <mode> <log> <kind> <access> <nprod> <ncons> <nunits> <rounds> [ext%] [big]
 *   big    1: large batches (one ABT_pool_push_threads_ex call with 65-130 units, i.e. more than the wrapper's 64-entry
 *          stack buffer) against consumers whose pop_many can empty the pool
 *   kind   0 FIFO | 1 FIFO_WAIT | 2 RANDWS
 *   access 0 MPMC | 1 SPSC | 2 MPSC | 3 SPMC | 4 PRIV (one actor does everything)
 * The pool PW0 is created with ABT_pool_create_basic(kind, access, automatic = off) and never given to a scheduler.
 * Units are real ULTs created on a staging pool and popped back at once (they never run while they travel).  Unit u
 * belongs to producer u % nprod, who pushes it (push / push_many, RANDWS: head or tail by the context flag) whenever it is
 * free; consumers take units with pop / pop_many / pop_wait / pop_timedwait / remove and hand them back (or, MPMC only,
 * push them again themselves).  Each access mode's contract is respected: the number of pushing / popping threads is what
 * the mode permits, and every actor is an external pthread or a ULT, each on its own OS thread where possible.
 * Monitors (plain C: under vsched a statement sequence without a hook point is atomic):
 *   - every handle a pop hands out is one of the scenario's units, currently pushed, not handed out since its push;
 *     num_popped equals the number of non-NULL handles written; remove succeeds only on a pushed unit;
 *   - a pop that returns nothing (a pop_many that returns fewer than asked) although more units than that were in the
 *     pool during the whole call: completed pushes minus takes begun by anybody else never fell to that count;
 *   - FIFO kinds: the units one consumer gets from one pusher come in that pusher's push order;
 *   - one push_many is one atomic multi-push: a pop_many that came back short (so it emptied the pool) while no other
 *     taker was active must not leave units of a batch it got a unit of in the pool (a strict prefix of the batch); in
 *     any run of units handed out together, the units of one batch are contiguous (nobody else's unit in between);
 *   - at the end (quiescent): get_size / is_empty are exact, the drain returns exactly the units still pushed, per pusher
 *     in push order (FIFO kinds), then the pool is empty. */
#define _GNU_SOURCE
#include "sc_common.h"
#include "pool/thread_queue.h"
#include <sched.h>
#include <unistd.h>

#define MAXU 160
enum { K_FIFO = 0, K_FIFO_WAIT = 1, K_RANDWS = 2 };
enum { ACC_MPMC = 0, ACC_SPSC = 1, ACC_MPSC = 2, ACC_SPMC = 3, ACC_PRIV = 4 };
static const char *KN[] = { "fifo", "fifo_wait", "randws" };
static const char *ACN[] = { "mpmc", "spsc", "mpsc", "spmc", "priv" };

#pragma GCC diagnostic ignored "-Wdeprecated-declarations" /* ABT_pool_pop_timedwait / ABT_pool_remove are under test */

/* layout replicas of the file-local `struct data` of fifo.c / randws.c and fifo_wait.c (only for offsets) */
struct poll_data {
    ABTD_spinlock mutex;
    thread_queue_t queue;
};
struct fwait_data {
    pthread_mutex_t mutex;
    pthread_cond_t cond;
    thread_queue_t queue;
};

enum { U_FREE = 0, U_IN = 1, U_HELD = 2 };
static ABT_pool PL, stage;
static int kind, access_mode, nprod, ncons, nunits, rounds;
static ABT_thread U[MAXU];
static int u_state[MAXU];
static int u_by[MAXU];    /* actor that pushed it last */
static long u_seq[MAXU];  /* that actor's push sequence number */
static int u_pushes[MAXU], u_takes[MAXU], u_ran[MAXU];
static long u_batch[MAXU]; /* id of the push_many call that pushed it last, 0 = single push */
static long batch_ids;
static int big;
static int n_bigbatch, n_prefixchecks, n_contigchecks;
static long seq_of[MAX_ACTORS + 1];
static long last_seq[MAX_ACTORS + 1][MAX_ACTORS + 1]; /* consumer x pusher */
static int prod_done;
static long push_done, take_begun; /* completed pushes (units); takes begun (capacity), corrected when the call ends */
static int n_push, n_pushmany, n_pop, n_popmany, n_popwait, n_timedwait, n_remove, n_empty, n_short, n_rmfail, n_lbchecks;

/* calls that may come back empty-handed: lower bound of the pool's content over the call */
static struct {
    int active, cap, overlap; /* overlap: another taker was active at some moment of this call */
    long minlb;
} tk[MAX_ACTORS + 1];

static void relax(actor *a)
{
    if (a->kind == AK_ULT)
        ABT_thread_yield();
    else
        sched_yield();
}

static void unit_body(void *arg)
{
    u_ran[(int)(intptr_t)arg]++;
}

static int unit_of(ABT_thread h)
{
    if (h == ABT_THREAD_NULL)
        return -1;
    for (int i = 0; i < nunits; i++)
        if (U[i] == h)
            return i;
    return -2;
}

static void take_begin(int me, int cap)
{
    int others = 0;
    for (int b = 0; b <= MAX_ACTORS; b++)
        if (tk[b].active) {
            long lb = push_done - take_begun - cap; /* without b's own capacity: + tk[b].cap */
            lb += tk[b].cap;
            if (lb < tk[b].minlb)
                tk[b].minlb = lb;
            tk[b].overlap = 1;
            others = 1;
        }
    tk[me].overlap = others;
    tk[me].active = 1;
    tk[me].cap = cap;
    tk[me].minlb = push_done - take_begun;
    take_begun += cap;
}

/* the call took `took` units; returns the least number of units that were in the pool (and not being taken by anybody
 * else) at every instant of the call */
static long take_end(int me, int took)
{
    long lb = tk[me].minlb;
    take_begun -= tk[me].cap - took;
    tk[me].active = 0;
    return lb;
}

static void mark_pushed(int me, int u)
{
    VSA_CHECK(u_state[u] != U_IN, "scenario bug: U%d pushed while in the pool", u);
    u_state[u] = U_IN;
    u_by[u] = me;
    u_seq[u] = ++seq_of[me];
    u_batch[u] = 0;
    u_pushes[u]++;
}

/* the units handed out together (one pop_many / the drain) are a contiguous run of the queue: the units of one
 * push_many batch must be contiguous in it.  `bat` are their batch ids, taken before anything is disposed. */
static void contig_check(const long *bat, int n, const char *how)
{
    n_contigchecks++;
    for (int l = 2; l < n; l++) {
        if (bat[l] == 0 || bat[l - 1] == bat[l])
            continue;
        for (int i = 0; i < l - 1; i++)
            if (bat[i] == bat[l]) {
                vs_fail("%s on PW0: units of one push_many batch are not contiguous (slot %d and slot %d belong to batch %ld, slot %d "
                        "does not): the batch did not enter the pool atomically", how, i, l, bat[l], l - 1);
                return;
            }
    }
}

/* a pop_many came back with fewer units than it asked for, i.e. it emptied the pool, and no other taker was active during
 * the call: a batch it got a unit of must be gone from the pool entirely */
static void prefix_check(const long *bat, int n, int max)
{
    n_prefixchecks++;
    for (int i = 0; i < n; i++) {
        if (bat[i] == 0)
            continue;
        int left = 0, gotb = 0;
        for (int v = 0; v < nunits; v++)
            left += (u_batch[v] == bat[i] && u_state[v] == U_IN);
        for (int j = 0; j < n; j++)
            gotb += bat[j] == bat[i];
        if (left) {
            vs_fail("pop_many(%d) on PW0 emptied the pool (%d unit(s) returned) and got %d unit(s) of push_many batch %ld, but %d unit(s) of "
                    "that batch are still to come out: it observed a strict prefix of one push_many", max, n, gotb, bat[i], left);
            return;
        }
    }
}

static void do_push(actor *a, int u)
{
    int head = (kind == K_RANDWS) && sc_rnd(3) == 0;
    ABT_pool_context ctx = head ? ABT_POOL_CONTEXT_OP_THREAD_CREATE : ABT_POOL_CONTEXT_OP_POOL_OTHER;
    mark_pushed(a->id, u);
    n_push++;
    vs_log("apiCall push PW0 %d %d", u, head);
    ABT_OK(ABT_pool_push_thread_ex(PL, U[u], ctx));
    push_done++;
    vs_note("apiRet push PW0");
}

static void do_push_many(actor *a, int *us, int n)
{
    int head = (kind == K_RANDWS) && sc_rnd(3) == 0;
    ABT_pool_context ctx = head ? ABT_POOL_CONTEXT_OP_THREAD_REVIVE : ABT_POOL_CONTEXT_OP_POOL_OTHER;
    ABT_thread hs[MAXU];
    char line[8 * MAXU + 16];
    int k = 0;
    long id = ++batch_ids;
    for (int i = 0; i < n; i++) {
        /* head pushes reverse the array order inside the pool: a pusher's later units sit in front.  The order monitor is
         * only used for FIFO kinds, where head is never selected. */
        mark_pushed(a->id, us[i]);
        u_batch[us[i]] = id;
        hs[i] = U[us[i]];
        k += snprintf(line + k, sizeof line - k, " %d", us[i]);
    }
    n_pushmany++;
    n_bigbatch += n > 64;
    vs_log("apiCall pushMany PW0 %d%s", head, line);
    ABT_OK(ABT_pool_push_threads_ex(PL, hs, (size_t)n, ctx));
    push_done += n;
    vs_note("apiRet pushMany PW0");
}

static void got_unit(actor *a, int u, const char *how)
{
    if (u == -2) {
        vs_fail("%s on PW0 returned a handle that is none of the scenario's units", how);
        return;
    }
    VSA_CHECK(u_state[u] == U_IN, "%s on PW0 returned U%d which is %s (handed out twice, or never pushed)", how, u,
              u_state[u] == U_HELD ? "already held by an actor" : "in no pool");
    if (u_state[u] != U_IN)
        return;
    u_state[u] = U_HELD;
    u_takes[u]++;
}

static void order_check(actor *a, int u)
{
    if (kind == K_RANDWS || u < 0)
        return;
    int p = u_by[u];
    VSA_CHECK(u_seq[u] > last_seq[a->id][p],
              "FIFO order broken on PW0: A%d got U%d (push #%ld of A%d) after a unit that A%d pushed later (#%ld)", a->id, u,
              u_seq[u], p, p, last_seq[a->id][p]);
    if (u_seq[u] > last_seq[a->id][p])
        last_seq[a->id][p] = u_seq[u];
}

/* the consumer is done with the unit: hand it back to its producer, or (MPMC) push it again */
static void dispose(actor *a, int u)
{
    if (u < 0 || u_state[u] != U_HELD)
        return;
    if (access_mode == ACC_MPMC && !prod_done && sc_rnd(4) == 0) {
        u_state[u] = U_FREE;
        do_push(a, u);
    } else {
        u_state[u] = U_FREE;
    }
}

static void producer_round(actor *a, int me_prod)
{
    int mine[MAXU], n = 0;
    for (int u = me_prod; u < nunits; u += nprod)
        if (u_state[u] == U_FREE)
            mine[n++] = u;
    if (n == 0) {
        relax(a);
        return;
    }
    /* shuffle a little so that the push order differs from the unit numbering */
    for (int i = n - 1; i > 0; i--) {
        int j = sc_rnd(i + 1), t = mine[i];
        mine[i] = mine[j];
        mine[j] = t;
    }
    if (big) {
        /* one call with more units than the wrapper's 64-entry buffer; wait (bounded) until enough units are back */
        for (int patience = 60; n < 65 && patience > 0; patience--) {
            relax(a);
            n = 0;
            for (int u = me_prod; u < nunits; u += nprod)
                if (u_state[u] == U_FREE)
                    mine[n++] = u;
        }
        if (n == 0)
            return;
        int k = n < 65 ? n : 65 + sc_rnd(n - 64 < 66 ? n - 64 : 66);
        if (k >= 2)
            do_push_many(a, mine, k);
        else
            do_push(a, mine[0]);
    } else if (n >= 2 && sc_rnd(3) == 0) {
        int k = 2 + sc_rnd(n - 1 < 3 ? n - 1 : 3);
        if (k > n)
            k = n;
        do_push_many(a, mine, k);
    } else {
        do_push(a, mine[0]);
    }
}

static void producer_body(actor *a)
{
    for (int r = 0; r < rounds && !vs_failed(); r++) {
        producer_round(a, a->id);
        for (int y = sc_rnd(3); y > 0; y--)
            relax(a);
    }
    prod_done++;
}

/* one consumer operation; returns the number of units obtained */
static int consumer_op(actor *a, int op)
{
    int tail = (kind == K_RANDWS) && sc_rnd(3) == 0;
    ABT_pool_context ctx = tail ? ABT_POOL_CONTEXT_OWNER_SECONDARY : ABT_POOL_CONTEXT_OWNER_PRIMARY;
    int me = a->id;
    if (big)
        op = op < 65 ? 50 : (op < 85 ? 0 : 65); /* mostly pop_many, some pop, some pop_wait */
    if (op < 40) { /* pop */
        ABT_thread th = ABT_THREAD_NULL;
        n_pop++;
        take_begin(me, 1);
        vs_log("apiCall pop PW0 %d", tail);
        ABT_OK(ABT_pool_pop_thread_ex(PL, &th, ctx));
        int u = unit_of(th);
        vs_note("apiRet pop PW0 %d", u);
        long lb = take_end(me, u >= 0 ? 1 : 0);
        if (u == -1) {
            n_empty++, n_lbchecks++;
            VSA_CHECK(lb <= 0, "pop on PW0 returned nothing although at least %ld unit(s) were in the pool during the whole call", lb);
            return 0;
        }
        got_unit(a, u, "pop");
        if (!tail)
            order_check(a, u);
        dispose(a, u);
        return 1;
    } else if (op < 60) { /* pop_many */
        ABT_thread hs[MAXU + 4];
        long bat[MAXU + 4];
        int max = big ? (int[]){ nunits + 2, nunits + 2, 40, 10 }[sc_rnd(4)] : 1 + sc_rnd(4);
        size_t num = 9999;
        for (int i = 0; i < MAXU + 4; i++)
            hs[i] = ABT_THREAD_NULL;
        n_popmany++;
        take_begin(me, max);
        vs_log("apiCall popMany PW0 %d %d", max, tail);
        ABT_OK(ABT_pool_pop_threads_ex(PL, hs, (size_t)max, &num, ctx));
        char line[8 * MAXU + 64];
        int k = 0, nonnull = 0, valid = 0;
        int lim = num <= MAXU + 4 ? (int)num : MAXU + 4;
        for (int i = 0; i < lim; i++)
            k += snprintf(line + k, sizeof line - k, " %d", unit_of(hs[i]));
        line[k] = 0;
        vs_note("apiRet popMany PW0 %zu%s", num, line);
        for (int i = 0; i < MAXU + 4; i++)
            nonnull += hs[i] != ABT_THREAD_NULL;
        for (int i = 0; i < lim; i++) {
            int u = unit_of(hs[i]);
            valid += u >= 0;
            bat[i] = u >= 0 ? u_batch[u] : 0;
        }
        int alone = !tk[me].overlap;
        long lb = take_end(me, valid);
        VSA_CHECK(num <= (size_t)max, "pop_many(%d) on PW0 reported num_popped=%zu", max, num);
        VSA_CHECK((size_t)nonnull == num, "pop_many(%d) on PW0 reported num_popped=%zu but wrote %d non-NULL handle(s)", max, num, nonnull);
        for (int i = 0; i < lim; i++) {
            int u = unit_of(hs[i]);
            if (u == -1) {
                vs_fail("pop_many on PW0 counted slot %d of %zu but left ABT_THREAD_NULL there (a unit it did not pop)", i, num);
                continue;
            }
            got_unit(a, u, "pop_many");
            if (!tail)
                order_check(a, u);
        }
        contig_check(bat, lim, "pop_many");
        if ((int)num < max && alone && valid == lim)
            prefix_check(bat, lim, max);
        if ((int)num < max) {
            n_short++, n_lbchecks++;
            VSA_CHECK(lb <= (long)num, "pop_many(%d) on PW0 returned %zu unit(s) although at least %ld were in the pool during the whole call",
                      max, num, lb);
        }
        for (int i = 0; i < lim; i++)
            dispose(a, unit_of(hs[i]));
        return valid;
    } else if (op < 85) { /* pop_wait / pop_timedwait */
        ABT_thread th = ABT_THREAD_NULL;
        long bud = (long[]){ 1500, 4000, 12000 }[sc_rnd(3)] + (kind == K_FIFO_WAIT ? 0 : 50);
        int timed = op >= 75;
        take_begin(me, 1);
        if (!timed) {
            n_popwait++;
            vs_log("apiCall popWait PW0 %d", tail);
            ABT_OK(ABT_pool_pop_wait_thread_ex(PL, &th, 1e-9 * (double)bud, ctx));
        } else {
            struct timespec ts;
            clock_gettime(CLOCK_REALTIME, &ts);
            long long abs_ns = (long long)ts.tv_sec * 1000000000LL + ts.tv_nsec + bud;
            double abs_s = (double)(abs_ns / 1000000000LL) + 1e-9 * (double)(abs_ns % 1000000000LL);
            ABT_unit unit = ABT_UNIT_NULL;
            n_timedwait++;
            tail = 0;
            vs_log("apiCall popTimedwait PW0 0");
            ABT_OK(ABT_pool_pop_timedwait(PL, &unit, abs_s));
            if (unit != ABT_UNIT_NULL)
                ABT_OK(ABT_unit_get_thread(unit, &th));
        }
        int u = unit_of(th);
        vs_note("apiRet %s PW0 %d", timed ? "popTimedwait" : "popWait", u);
        long lb = take_end(me, u >= 0 ? 1 : 0);
        if (u == -1) {
            n_empty++, n_lbchecks++;
            VSA_CHECK(lb <= 0, "%s on PW0 returned nothing although at least %ld unit(s) were in the pool during the whole call",
                      timed ? "pop_timedwait" : "pop_wait", lb);
            return 0;
        }
        got_unit(a, u, timed ? "pop_timedwait" : "pop_wait");
        if (!tail)
            order_check(a, u);
        dispose(a, u);
        return 1;
    } else { /* remove: a unit that is (probably) in the pool, sometimes one that is not */
        int cand[MAXU], n = 0, want_in = sc_rnd(5) != 0;
        for (int u = 0; u < nunits; u++)
            if ((u_state[u] == U_IN) == want_in && u_state[u] != U_HELD)
                cand[n++] = u;
        if (n == 0)
            return 0;
        int u = cand[sc_rnd(n)];
        ABT_unit unit = ABT_UNIT_NULL;
        ABT_OK(ABT_thread_get_unit(U[u], &unit));
        n_remove++;
        take_begin(me, 1);
        vs_log("apiCall remove PW0 %d", u);
        int rc = ABT_pool_remove(PL, unit);
        vs_note("apiRet remove PW0 %d", rc == ABT_SUCCESS ? 1 : 0);
        take_end(me, rc == ABT_SUCCESS ? 1 : 0);
        VSA_CHECK(rc == ABT_SUCCESS || rc == ABT_ERR_POOL, "ABT_pool_remove on PW0 returned %d", rc);
        if (rc == ABT_SUCCESS) {
            got_unit(a, u, "remove");
            dispose(a, u);
            return 1;
        }
        n_rmfail++;
        return 0;
    }
}

static void consumer_body(actor *a)
{
    int budget = rounds * (nprod > ncons ? (nprod + ncons - 1) / ncons : 1) * (big ? 4 : 2) + 4 + sc_rnd(6);
    int idle = 0;
    while (budget-- > 0 && !vs_failed()) {
        int done = prod_done >= nprod;
        int got = consumer_op(a, sc_rnd(100));
        if (got == 0) {
            if (done && sc_rnd(2))
                break;
            if (++idle % 3 == 0)
                usleep(2); /* do not spin on an empty pool for ever: let (virtual) time pass */
            relax(a);
        }
        if (sc_rnd(3) == 0)
            relax(a);
    }
}

/* ABT_POOL_ACCESS_PRIV: one actor pushes and pops */
static void solo_body(actor *a)
{
    for (int r = 0; r < 2 * rounds && !vs_failed(); r++) {
        if (sc_rnd(2))
            producer_round(a, 0);
        else
            consumer_op(a, sc_rnd(100));
    }
    prod_done = nprod;
}

#define OFFN(tag, field, off, size) vs_note("O %s %s %zu %zu", tag, field, (size_t)(off), (size_t)(size))

int main(int argc, char **argv)
{
    vsa_setup(argc, argv);
    kind = (int)vsa_param(0, 0);
    access_mode = (int)vsa_param(1, 0);
    nprod = (int)vsa_param(2, 2);
    ncons = (int)vsa_param(3, 2);
    nunits = (int)vsa_param(4, 8);
    rounds = (int)vsa_param(5, 6);
    int extpct = (int)vsa_param(6, 60);
    big = (int)vsa_param(7, 0) != 0;
    if (kind < 0 || kind > 2)
        kind = 0;
    if (access_mode < 0 || access_mode > 4)
        access_mode = 0;
    if (access_mode == ACC_SPSC || access_mode == ACC_SPMC || access_mode == ACC_PRIV)
        nprod = 1;
    if (access_mode == ACC_SPSC || access_mode == ACC_MPSC)
        ncons = 1;
    if (access_mode == ACC_PRIV)
        ncons = 0;
    if (nprod < 1)
        nprod = 1;
    if (nprod > 4)
        nprod = 4;
    if (ncons > 4)
        ncons = 4;
    if (nunits > MAXU)
        nunits = MAXU;
    if (nunits < nprod)
        nunits = nprod;
    ABT_init(0, NULL);
    vsa_begin();
    vs_note("scenario pool kind=%d access=%d nprod=%d ncons=%d nunits=%d rounds=%d big=%d", kind, access_mode, nprod, ncons, nunits, rounds, big);
    OFFN("PWpoll", "lock", offsetof(struct poll_data, mutex), sizeof(ABTD_spinlock));
    OFFN("PWpoll", "is_empty", offsetof(struct poll_data, queue) + offsetof(thread_queue_t, is_empty), sizeof(int));
    OFFN("PWpoll", "queue", offsetof(struct poll_data, queue), sizeof(thread_queue_t));
    OFFN("PWfwait", "lock", offsetof(struct fwait_data, mutex), sizeof(pthread_mutex_t));
    OFFN("PWfwait", "cond", offsetof(struct fwait_data, cond), sizeof(pthread_cond_t));
    OFFN("PWfwait", "is_empty", offsetof(struct fwait_data, queue) + offsetof(thread_queue_t, is_empty), sizeof(int));
    OFFN("PWfwait", "queue", offsetof(struct fwait_data, queue), sizeof(thread_queue_t));
    OFFN("ABTI_thread", "is_in_pool", offsetof(ABTI_thread, is_in_pool), sizeof(int));
    /* every ULT actor gets its own execution stream where possible: streams 1 .. nes-1 */
    int nact = access_mode == ACC_PRIV ? 1 : nprod + ncons;
    int nes = 1 + nact;
    if (nes > MAX_ES)
        nes = MAX_ES;
    sc_streams(nes, ABT_SCHED_BASIC);

    ABT_pool_kind pk = kind == K_FIFO ? ABT_POOL_FIFO : (kind == K_FIFO_WAIT ? ABT_POOL_FIFO_WAIT : ABT_POOL_RANDWS);
    ABT_pool_access pa = (ABT_pool_access[]){ ABT_POOL_ACCESS_MPMC, ABT_POOL_ACCESS_SPSC, ABT_POOL_ACCESS_MPSC, ABT_POOL_ACCESS_SPMC,
                                               ABT_POOL_ACCESS_PRIV }[access_mode];
    ABT_OK(ABT_pool_create_basic(pk, pa, ABT_FALSE, &PL));
    vsa_name_pool(PL, "PW0");
    /* the queue object again, this time with its loads logged (the latest registration wins) */
    vs_name_ex(ABTI_pool_get_ptr(PL)->data, kind == K_FIFO_WAIT ? sizeof(struct fwait_data) : sizeof(struct poll_data), 0, "PW0.q");
    vs_note("obj PW0 kind=%s access=%s", KN[kind], ACN[access_mode]);
    ABT_OK(ABT_pool_create_basic(ABT_POOL_FIFO, ABT_POOL_ACCESS_MPMC, ABT_FALSE, &stage));
    for (int i = 0; i < nunits; i++) {
        ABT_thread got = ABT_THREAD_NULL;
        ABT_OK(ABT_thread_create(stage, unit_body, (void *)(intptr_t)i, ABT_THREAD_ATTR_NULL, &U[i]));
        ABT_OK(ABT_pool_pop_thread(stage, &got));
        VSA_CHECK(got == U[i], "staging pool returned another unit");
        vsa_name_thread(U[i], "U%d", i);
        u_state[i] = U_FREE;
    }

    sc_nactors = nact;
    for (int i = 0; i < sc_nactors; i++) {
        sc_actors[i].kind = sc_rnd(100) < extpct ? AK_EXT : AK_ULT;
        sc_actors[i].es = 1 + (i % (nes - 1));
        const char *role;
        if (access_mode == ACC_PRIV)
            sc_actors[i].body = solo_body, role = "solo";
        else if (i < nprod)
            sc_actors[i].body = producer_body, role = "producer";
        else
            sc_actors[i].body = consumer_body, role = "consumer";
        vs_note("actor A%d kind=%s es=%d role=%s", i, AKN[sc_actors[i].kind], sc_actors[i].es, role);
    }
    sc_launch();
    sc_join_all();

    /* quiescent: size / emptiness exact, drain returns exactly what is still pushed */
    {
        int in = 0;
        for (int i = 0; i < nunits; i++)
            in += u_state[i] == U_IN;
        size_t n = 99;
        ABT_bool e = ABT_FALSE;
        ABT_OK(ABT_pool_get_size(PL, &n));
        ABT_OK(ABT_pool_is_empty(PL, &e));
        vs_note("quiescent PW0 size=%zu empty=%d expected=%d", n, (int)e, in);
        VSA_CHECK((int)n == in, "PW0 quiescent: get_size=%zu but %d unit(s) are pushed and not handed out", n, in);
        VSA_CHECK((e == ABT_TRUE) == (in == 0), "PW0 quiescent: is_empty=%d with %d unit(s) in the pool", (int)e, in);
        ABT_thread hs[MAXU + 4];
        size_t num = 0;
        for (int i = 0; i < MAXU + 4; i++)
            hs[i] = ABT_THREAD_NULL;
        int me = MAX_ACTORS; /* the primary ULT (A99) */
        vs_log("apiCall popMany PW0 %d 0", nunits + 2);
        ABT_OK(ABT_pool_pop_threads(PL, hs, (size_t)(nunits + 2), &num));
        {
            char line[8 * MAXU + 64];
            long bat[MAXU + 4];
            int k = 0, nb = 0;
            for (size_t i = 0; i < num && i < MAXU + 4; i++) {
                int u = unit_of(hs[i]);
                k += snprintf(line + k, sizeof line - k, " %d", u);
                bat[nb++] = u >= 0 ? u_batch[u] : 0;
            }
            line[k] = 0;
            vs_note("apiRet popMany PW0 %zu%s", num, line);
            contig_check(bat, nb, "final drain");
        }
        VSA_CHECK((int)num == in, "final drain of PW0 returned %zu unit(s), %d are pushed and not handed out", num, in);
        actor drain = { .id = me };
        for (size_t i = 0; i < num && i < MAXU + 4; i++) {
            int u = unit_of(hs[i]);
            if (u == -1) {
                vs_fail("final drain of PW0 counted slot %zu but left ABT_THREAD_NULL there", i);
                continue;
            }
            got_unit(&drain, u, "final drain");
            order_check(&drain, u);
            if (u >= 0)
                u_state[u] = U_FREE;
        }
        for (int i = 0; i < nunits; i++)
            VSA_CHECK(u_state[i] == U_FREE && u_pushes[i] == u_takes[i], "U%d: pushed %d time(s), handed out %d time(s), state %d (lost)",
                      i, u_pushes[i], u_takes[i], u_state[i]);
        ABT_OK(ABT_pool_get_size(PL, &n));
        ABT_OK(ABT_pool_is_empty(PL, &e));
        VSA_CHECK(n == 0 && e == ABT_TRUE, "PW0 not empty after the drain: size=%zu is_empty=%d", n, (int)e);
    }
    vs_note("pool stats push=%d pushMany=%d pop=%d popMany=%d popWait=%d popTimedwait=%d remove=%d empty=%d short=%d rmfail=%d lbchecks=%d "
            "bigbatch=%d prefixchecks=%d contigchecks=%d",
            n_push, n_pushmany, n_pop, n_popmany, n_popwait, n_timedwait, n_remove, n_empty, n_short, n_rmfail, n_lbchecks, n_bigbatch,
            n_prefixchecks, n_contigchecks);

    /* let the units run: push them to the primary stream's pool, join, free */
    for (int i = 0; i < nunits; i++)
        ABT_OK(ABT_pool_push_thread(sc_pool[0], U[i]));
    for (int i = 0; i < nunits; i++) {
        ABT_OK(ABT_thread_join(U[i]));
        VSA_CHECK(u_ran[i] == 1, "U%d ran %d times", i, u_ran[i]);
        vs_unname(ABTI_thread_get_ptr(U[i]));
        ABT_OK(ABT_thread_free(&U[i]));
    }
    vs_unname(ABTI_pool_get_ptr(PL)->data);
    vs_unname(ABTI_pool_get_ptr(PL)->data);
    vs_unname(ABTI_pool_get_ptr(PL));
    ABT_OK(ABT_pool_free(&PL));
    ABT_OK(ABT_pool_free(&stage));
    sc_stop_streams();
    ABT_finalize();
    int rc = vsa_end();
    if (rc)
        fprintf(stderr, "MONITOR: %s\n", vs_first_failure());
    return rc;
}
