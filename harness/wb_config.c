/* Differential driver for ABT_sched_config / ABT_pool_config (C20) through the public
 * API (plus ABTI_*_config_read for the internal read path).  Same protocol as
 * `driver config`; values are bit patterns in decimal; every destination is an 8-byte
 * buffer pre-filled with 0xAA and printed as 16 hex digits (most significant first). */
#include "abti.h"
#include <stdio.h>
#include <string.h>
#include <inttypes.h>

static ABT_sched_config sc = ABT_SCHED_CONFIG_NULL;
static ABT_pool_config pc = ABT_POOL_CONFIG_NULL;

typedef struct {
    int idx;
    int tag;
    uint64_t bits;
} pair_t;

static double as_double(uint64_t b)
{
    double d;
    memcpy(&d, &b, 8);
    return d;
}

/* one static call site per combination of C argument types */
#define VAR(p) ((ABT_sched_config_var){ .idx = (p).idx, .type = (ABT_sched_config_type)(p).tag })
#define AS_I(p) ((int)(uint32_t)(p).bits)
#define AS_D(p) (as_double((p).bits))
#define AS_P(p) ((void *)(uintptr_t)(p).bits)

static int create1(ABT_sched_config *c, pair_t a)
{
    switch (a.tag) {
        case ABT_SCHED_CONFIG_DOUBLE:
            return ABT_sched_config_create(c, VAR(a), AS_D(a), ABT_sched_config_var_end);
        case ABT_SCHED_CONFIG_PTR:
            return ABT_sched_config_create(c, VAR(a), AS_P(a), ABT_sched_config_var_end);
        default:
            return ABT_sched_config_create(c, VAR(a), AS_I(a), ABT_sched_config_var_end);
    }
}

#define CALL2(A, B) ABT_sched_config_create(c, VAR(a), A, VAR(b), B, ABT_sched_config_var_end)
static int create2(ABT_sched_config *c, pair_t a, pair_t b)
{
    int ka = a.tag == ABT_SCHED_CONFIG_DOUBLE ? 1 : a.tag == ABT_SCHED_CONFIG_PTR ? 2 : 0;
    int kb = b.tag == ABT_SCHED_CONFIG_DOUBLE ? 1 : b.tag == ABT_SCHED_CONFIG_PTR ? 2 : 0;
    switch (ka * 3 + kb) {
        case 0: return CALL2(AS_I(a), AS_I(b));
        case 1: return CALL2(AS_I(a), AS_D(b));
        case 2: return CALL2(AS_I(a), AS_P(b));
        case 3: return CALL2(AS_D(a), AS_I(b));
        case 4: return CALL2(AS_D(a), AS_D(b));
        case 5: return CALL2(AS_D(a), AS_P(b));
        case 6: return CALL2(AS_P(a), AS_I(b));
        case 7: return CALL2(AS_P(a), AS_D(b));
        default: return CALL2(AS_P(a), AS_P(b));
    }
}

static void print_buf(const char *head, const unsigned char *buf)
{
    uint64_t v;
    memcpy(&v, buf, 8);
    printf("%s%016" PRIx64, head, v);
}

int main(void)
{
    setvbuf(stdout, NULL, _IOLBF, 0);
    if (ABT_init(0, NULL) != ABT_SUCCESS)
        return 3;
    ABT_sched_config_create(&sc, ABT_sched_config_var_end);
    ABT_pool_config_create(&pc);
    char line[1024];
    while (fgets(line, sizeof line, stdin)) {
        char op[32], a1[64], a2[64], a3[64];
        int n = sscanf(line, "%31s %63s %63s %63s", op, a1, a2, a3);
        if (n < 1)
            continue;
        if (!strcmp(op, "screate") && n >= 2) {
            int k = atoi(a1), i, off = 0, ok = 1;
            pair_t p[2];
            char *q = line;
            /* skip "screate k" */
            sscanf(q, "%*s %*s%n", &off);
            q += off;
            if (k < 0 || k > 2)
                ok = 0;
            for (i = 0; ok && i < k; i++) {
                if (sscanf(q, "%d %d %" SCNu64 "%n", &p[i].idx, &p[i].tag, &p[i].bits, &off) != 3)
                    ok = 0;
                q += off;
            }
            if (!ok) {
                printf("bad-op\n");
                continue;
            }
            ABT_sched_config nc = ABT_SCHED_CONFIG_NULL;
            int r = k == 0 ? ABT_sched_config_create(&nc, ABT_sched_config_var_end)
                           : k == 1 ? create1(&nc, p[0]) : create2(&nc, p[0], p[1]);
            if (r == ABT_SUCCESS) {
                ABT_sched_config_free(&sc);
                sc = nc;
                printf("ok\n");
            } else {
                printf("err %d\n", r);
            }
        } else if (!strcmp(op, "pcreate") && n == 1) {
            ABT_pool_config_free(&pc);
            int r = ABT_pool_config_create(&pc);
            printf(r == ABT_SUCCESS ? "ok\n" : "err %d\n", r);
        } else if ((!strcmp(op, "sset") || !strcmp(op, "pset")) && n == 4) {
            int idx = atoi(a1), tag = atoi(a2), r;
            unsigned char val[8];
            const void *pv = val;
            if (!strcmp(a3, "null")) {
                pv = NULL;
            } else {
                uint64_t bits = strtoull(a3, NULL, 10);
                if (tag == ABT_SCHED_CONFIG_INT) {
                    int iv = (int)(uint32_t)bits;
                    memset(val, 0x55, 8);
                    memcpy(val, &iv, 4);
                } else {
                    memcpy(val, &bits, 8);
                }
            }
            if (op[0] == 's')
                r = ABT_sched_config_set(sc, idx, (ABT_sched_config_type)tag, pv);
            else
                r = ABT_pool_config_set(pc, idx, (ABT_pool_config_type)tag, pv);
            printf("err %d\n", r);
        } else if ((!strcmp(op, "sget") || !strcmp(op, "pget")) && n == 2) {
            int idx = atoi(a1), r, ty = -7;
            unsigned char buf[8];
            memset(buf, 0xAA, 8);
            if (op[0] == 's') {
                ABT_sched_config_type t = (ABT_sched_config_type)-7;
                r = ABT_sched_config_get(sc, idx, &t, buf);
                ty = (int)t;
            } else {
                ABT_pool_config_type t = (ABT_pool_config_type)-7;
                r = ABT_pool_config_get(pc, idx, &t, buf);
                ty = (int)t;
            }
            if (r == ABT_SUCCESS) {
                printf("got %d ", ty);
                print_buf("", buf);
                printf("\n");
            } else {
                printf("err %d\n", r);
            }
        } else if ((!strcmp(op, "sreadi") || !strcmp(op, "preadi")) && n == 2) {
            int idx = atoi(a1), r;
            unsigned char buf[8];
            memset(buf, 0xAA, 8);
            if (op[0] == 's')
                r = ABTI_sched_config_read(ABTI_sched_config_get_ptr(sc), idx, buf);
            else
                r = ABTI_pool_config_read(ABTI_pool_config_get_ptr(pc), idx, buf);
            if (r == ABT_SUCCESS) {
                print_buf("readi ", buf);
                printf("\n");
            } else {
                printf("err %d\n", r);
            }
        } else if (!strcmp(op, "sread") && n == 3) {
            int nv = atoi(a1), mask = atoi(a2), i;
            unsigned char buf[4][8];
            void *p[4];
            if (nv < 0 || nv > 4) {
                printf("bad-op\n");
                continue;
            }
            memset(buf, 0xAA, sizeof buf);
            for (i = 0; i < 4; i++)
                p[i] = (mask >> i) & 1 ? (void *)buf[i] : NULL;
            int r = ABT_sched_config_read(sc, nv, p[0], p[1], p[2], p[3]);
            if (r != ABT_SUCCESS) {
                printf("err %d\n", r);
                continue;
            }
            printf("read");
            for (i = 0; i < nv; i++) {
                if (p[i])
                    print_buf(" ", buf[i]);
                else
                    printf(" -");
            }
            printf("\n");
        } else {
            printf("bad-op\n");
        }
    }
    ABT_sched_config_free(&sc);
    ABT_pool_config_free(&pc);
    ABT_finalize();
    return 0;
}
