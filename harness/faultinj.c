/* C18 fault injection core (see faultinj.h).  Everything here is reachable from
 * inside malloc(), so: no stdio, no allocation, one spin lock. */
#define _GNU_SOURCE
#include "faultinj.h"
#include <errno.h>
#include <pthread.h>
#include <string.h>
#include <sys/mman.h>
#include <unistd.h>
#include <stdlib.h>

#define NOINSTR __attribute__((no_instrument_function))

void *__real_malloc(size_t);
void *__real_calloc(size_t, size_t);
void *__real_realloc(void *, size_t);
int __real_posix_memalign(void **, size_t, size_t);
void *__real_aligned_alloc(size_t, size_t);
void __real_free(void *);
void *__real_mmap(void *, size_t, int, int, int, off_t);
int __real_munmap(void *, size_t);
int __real_pthread_create(pthread_t *, const pthread_attr_t *, void *(*)(void *), void *);
int __real_pthread_join(pthread_t, void **);
int __real_pthread_mutex_init(pthread_mutex_t *, const pthread_mutexattr_t *);
int __real_pthread_mutex_destroy(pthread_mutex_t *);
int __real_pthread_cond_init(pthread_cond_t *, const pthread_condattr_t *);
int __real_pthread_cond_destroy(pthread_cond_t *);
int __real_pthread_barrier_init(pthread_barrier_t *, const pthread_barrierattr_t *, unsigned);
int __real_pthread_barrier_destroy(pthread_barrier_t *);

static const char *opnames[FI_NOPS] = { "malloc", "calloc", "realloc", "posix_memalign", "aligned_alloc",
                                        "mmap", "pthread_create", "pthread_mutex_init",
                                        "pthread_cond_init", "pthread_barrier_init" };
static const char *kindnames[FK_N] = { "heap", "map", "thread", "mutex", "cond", "barrier" };
NOINSTR const char *fi_opname(int op) { return op >= 0 && op < FI_NOPS ? opnames[op] : "?"; }
NOINSTR const char *fi_kindname(int k) { return k >= 0 && k < FK_N ? kindnames[k] : "?"; }

/* ---------------- ledger ---------------- */
#define LBITS 16
#define LSIZE (1u << LBITS)
static fi_ent tab[LSIZE];
static long n_live;
static int n_bad_release, n_double_free;
/* quarantine: a block freed by the armed thread inside the window is poisoned and NOT handed back to
 * libc until the window closes, so that a second free of the same address is recognised with
 * certainty (the address cannot have been re-issued) and a read through a dangling pointer sees
 * 0xDD.. instead of plausible old contents */
#define MAXQ 8192
static unsigned qlist[MAXQ];
static int n_q;
static volatile int lk;
NOINSTR static void lock(void) { while (__atomic_test_and_set(&lk, __ATOMIC_ACQUIRE)) ; }
NOINSTR static void unlock(void) { __atomic_clear(&lk, __ATOMIC_RELEASE); }
NOINSTR static unsigned hash(void *p, int kind)
{
    uint64_t x = (uint64_t)(uintptr_t)p * 0x9E3779B97F4A7C15ull + (uint64_t)kind * 0x1234567ull;
    return (unsigned)(x >> (64 - LBITS));
}

/* ---------------- window ---------------- */
static volatile int w_on;
static pthread_t w_thr;
static int w_failat, w_count, w_fired, w_pre_released, w_nrid;
static uint32_t w_id;
#define MAXEV 16384
static fi_event ev[MAXEV];
static int n_ev;
static void *fail_bt[FI_BT];
static __thread int depth_tls;

NOINSTR static int in_window(void) { return w_on && pthread_equal(pthread_self(), w_thr); }

NOINSTR static void walk(void **out)
{
    int i = 0;
    void **fp = (void **)__builtin_frame_address(0);
    memset(out, 0, sizeof(void *) * FI_BT);
    while (i < FI_BT && fp) {
        void *ret = fp[1];
        void **nx = (void **)fp[0];
        if (!ret)
            break;
        out[i++] = ret;
        if (nx <= fp || ((uintptr_t)nx & 7) || (char *)nx - (char *)fp > (1 << 20))
            break;
        fp = nx;
    }
}

NOINSTR static void log_ev(int acquire, int op, int failed, int idx, int rid)
{
    if (n_ev < MAXEV) {
        fi_event *e = &ev[n_ev++];
        e->acquire = (uint8_t)acquire;
        e->op = (uint8_t)op;
        e->failed = (uint8_t)failed;
        e->depth = (uint8_t)depth_tls;
        e->idx = idx;
        e->rid = rid;
    }
}

/* gate: returns 1 when this acquisition must fail */
NOINSTR static int gate(int op, int *p_idx)
{
    *p_idx = 0;
    if (!in_window())
        return 0;
    int idx = ++w_count;
    *p_idx = idx;
    if (idx == w_failat) {
        w_fired = 1;
        walk(fail_bt);
        log_ev(1, op, 1, idx, -1);
        {   /* breadcrumb for the case that the process dies before it can report */
            char buf[32 + FI_BT * 20];
            size_t n = 0;
            const char *h = "0123456789abcdef";
            memcpy(buf, "FAILSITE", 8);
            n = 8;
            for (int i = 0; i < FI_BT && fail_bt[i]; i++) {
                uintptr_t a = (uintptr_t)fail_bt[i];
                buf[n++] = ' ';
                buf[n++] = '0';
                buf[n++] = 'x';
                for (int sft = 60; sft >= 0; sft -= 4)
                    if ((a >> sft) || sft == 0)
                        buf[n++] = h[(a >> sft) & 15];
            }
            buf[n++] = '\n';
            ssize_t r = write(2, buf, n);
            (void)r;
        }
        return 1;
    }
    return 0;
}

NOINSTR static void record(void *key, size_t size, int kind, int op, int idx)
{
    int inw = in_window();
    lock();
    /* used==2 are tombstones: keep probing for an existing key first */
    unsigned h2 = hash(key, kind), freeslot = LSIZE;
    for (;;) {
        if (tab[h2].used == 0) {
            if (freeslot == LSIZE)
                freeslot = h2;
            break;
        }
        if (tab[h2].used == 2 && freeslot == LSIZE)
            freeslot = h2;
        if (tab[h2].used == 1 && tab[h2].key == key && tab[h2].kind == kind) {
            freeslot = h2; /* re-initialisation of a live key (e.g. mutex_init twice) */
            n_live--;
            break;
        }
        h2 = (h2 + 1) & (LSIZE - 1);
    }
    fi_ent *e = &tab[freeslot];
    e->key = key;
    e->size = size;
    e->kind = (uint8_t)kind;
    e->op = (uint8_t)op;
    e->used = 1;
    e->win = inw ? w_id : 0;
    e->rid = inw ? w_nrid++ : -1;
    n_live++;
    int rid = e->rid;
    unlock();
    if (inw) {
        walk(e->bt);
        log_ev(1, op, 0, idx, rid);
    }
}

/* returns 1 when the key was live.  quarantine: keep the entry (state 3) instead of a tombstone;
 * *p_size receives the recorded size of a live block */
NOINSTR static int forget_q(void *key, int kind, int quarantine, size_t *p_size)
{
    int inw = in_window();
    int found = 0, rid = -1, dbl = 0;
    lock();
    unsigned h = hash(key, kind);
    while (tab[h].used) {
        if (tab[h].used == 3 && tab[h].key == key && tab[h].kind == kind) {
            dbl = 1; /* second free of a block that was freed inside this window */
            break;
        }
        if (tab[h].used == 1 && tab[h].key == key && tab[h].kind == kind) {
            found = 1;
            rid = tab[h].rid;
            if (p_size)
                *p_size = tab[h].size;
            if (inw && tab[h].win != w_id) {
                w_pre_released++;
                rid = -1;
            }
            if (quarantine && n_q < MAXQ) {
                tab[h].used = 3;
                qlist[n_q++] = h;
                found = 2;
            } else {
                tab[h].used = 2;
            }
            n_live--;
            break;
        }
        h = (h + 1) & (LSIZE - 1);
    }
    if (!found) {
        n_bad_release++;
        if (dbl)
            n_double_free++;
    }
    unlock();
    if (inw)
        log_ev(0, kind, found ? 0 : dbl ? 4 : 3, 0, rid);
    return found;
}
NOINSTR static int forget(void *key, int kind) { return forget_q(key, kind, 0, NULL); }

NOINSTR void fi_note(const char *s)
{
    ssize_t r = write(2, s, strlen(s));
    (void)r;
}

NOINSTR void fi_arm(int k)
{
    w_thr = pthread_self();
    w_failat = k;
    w_count = 0;
    w_fired = 0;
    w_pre_released = 0;
    w_nrid = 0;
    n_ev = 0;
    w_id++;
    memset(fail_bt, 0, sizeof fail_bt);
    __atomic_store_n(&w_on, 1, __ATOMIC_SEQ_CST);
}
NOINSTR void fi_disarm(void)
{
    __atomic_store_n(&w_on, 0, __ATOMIC_SEQ_CST);
    /* hand the quarantined blocks back to libc */
    for (;;) {
        void *p = NULL;
        lock();
        if (n_q > 0) {
            unsigned h = qlist[--n_q];
            p = tab[h].key;
            tab[h].used = 2;
        }
        unlock();
        if (!p)
            break;
        __real_free(p);
    }
}
NOINSTR int fi_fired(void) { return w_fired; }
NOINSTR int fi_count(void) { return w_count; }
NOINSTR int fi_nevents(void) { return n_ev; }
NOINSTR const fi_event *fi_events(void) { return ev; }
NOINSTR void *const *fi_fail_bt(void) { return fail_bt; }
NOINSTR long fi_live_total(void) { return n_live; }
NOINSTR int fi_pre_released(void) { return w_pre_released; }
NOINSTR int fi_bad_releases(void) { return n_bad_release; }
NOINSTR int fi_double_frees(void) { return n_double_free; }
NOINSTR uint32_t fi_window(void) { return w_id; }
NOINSTR int fi_live_in_window(const fi_ent **out, int max)
{
    int n = 0;
    for (unsigned i = 0; i < LSIZE; i++)
        if (tab[i].used == 1 && tab[i].win == w_id) {
            if (n < max)
                out[n] = &tab[i];
            n++;
        }
    return n;
}
NOINSTR int fi_live_list(const fi_ent **out, int max)
{
    int n = 0;
    for (unsigned i = 0; i < LSIZE; i++)
        if (tab[i].used == 1) {
            if (n < max)
                out[n] = &tab[i];
            n++;
        }
    return n;
}

/* ---------------- wrappers ---------------- */
NOINSTR void *__wrap_malloc(size_t n)
{
    int idx;
    if (gate(FI_MALLOC, &idx)) {
        errno = ENOMEM;
        return NULL;
    }
    void *p = __real_malloc(n);
    if (p)
        record(p, n, FK_HEAP, FI_MALLOC, idx);
    else if (in_window())
        log_ev(1, FI_MALLOC, 2, idx, -1);
    return p;
}
NOINSTR void *__wrap_calloc(size_t a, size_t b)
{
    int idx;
    if (gate(FI_CALLOC, &idx)) {
        errno = ENOMEM;
        return NULL;
    }
    void *p = __real_calloc(a, b);
    if (p)
        record(p, a * b, FK_HEAP, FI_CALLOC, idx);
    else if (in_window())
        log_ev(1, FI_CALLOC, 2, idx, -1);
    return p;
}
NOINSTR void *__wrap_realloc(void *old, size_t n)
{
    int idx;
    if (gate(FI_REALLOC, &idx)) {
        errno = ENOMEM;
        return NULL; /* old block stays valid */
    }
    if (old)
        forget(old, FK_HEAP);
    void *p = __real_realloc(old, n);
    if (p)
        record(p, n, FK_HEAP, FI_REALLOC, idx);
    else if (old)
        record(old, 0, FK_HEAP, FI_REALLOC, idx);
    return p;
}
NOINSTR int __wrap_posix_memalign(void **pp, size_t al, size_t n)
{
    int idx;
    if (gate(FI_MEMALIGN, &idx))
        return ENOMEM;
    int r = __real_posix_memalign(pp, al, n);
    if (r == 0)
        record(*pp, n, FK_HEAP, FI_MEMALIGN, idx);
    else if (in_window())
        log_ev(1, FI_MEMALIGN, 2, idx, -1);
    return r;
}
NOINSTR void *__wrap_aligned_alloc(size_t al, size_t n)
{
    int idx;
    if (gate(FI_ALIGNED, &idx)) {
        errno = ENOMEM;
        return NULL;
    }
    void *p = __real_aligned_alloc(al, n);
    if (p)
        record(p, n, FK_HEAP, FI_ALIGNED, idx);
    else if (in_window())
        log_ev(1, FI_ALIGNED, 2, idx, -1);
    return p;
}
NOINSTR void __wrap_free(void *p)
{
    if (!p)
        return;
    size_t size = 0;
    int r = forget_q(p, FK_HEAP, in_window(), &size);
    if (r == 1)
        __real_free(p);
    else if (r == 2 && size)
        memset(p, 0xDD, size); /* quarantined until fi_disarm() */
    /* a free of a block that is not live is recorded and NOT forwarded: the
     * ledger reports it (double free / free of a foreign pointer) and the run
     * continues deterministically instead of depending on glibc's detection */
}
NOINSTR void *__wrap_mmap(void *a, size_t n, int prot, int fl, int fd, off_t off)
{
    int idx;
    if (gate(FI_MMAP, &idx)) {
        errno = ENOMEM;
        return MAP_FAILED;
    }
    void *p = __real_mmap(a, n, prot, fl, fd, off);
    if (p != MAP_FAILED)
        record(p, n, FK_MAP, FI_MMAP, idx);
    else if (in_window())
        log_ev(1, FI_MMAP, 2, idx, -1);
    return p;
}
NOINSTR int __wrap_munmap(void *p, size_t n)
{
    forget(p, FK_MAP);
    return __real_munmap(p, n);
}
NOINSTR int __wrap_pthread_create(pthread_t *t, const pthread_attr_t *at, void *(*f)(void *), void *arg)
{
    int idx;
    if (gate(FI_THREAD, &idx))
        return EAGAIN;
    int r = __real_pthread_create(t, at, f, arg);
    if (r == 0)
        record((void *)(uintptr_t)*t, 0, FK_THREAD, FI_THREAD, idx);
    else if (in_window())
        log_ev(1, FI_THREAD, 2, idx, -1);
    return r;
}
NOINSTR int __wrap_pthread_join(pthread_t t, void **ret)
{
    int r = __real_pthread_join(t, ret);
    forget((void *)(uintptr_t)t, FK_THREAD);
    return r;
}
NOINSTR int __wrap_pthread_mutex_init(pthread_mutex_t *m, const pthread_mutexattr_t *a)
{
    int idx;
    if (gate(FI_MUTEX, &idx))
        return ENOMEM;
    int r = __real_pthread_mutex_init(m, a);
    if (r == 0)
        record(m, 0, FK_MUTEX, FI_MUTEX, idx);
    return r;
}
NOINSTR int __wrap_pthread_mutex_destroy(pthread_mutex_t *m)
{
    if (!forget(m, FK_MUTEX))
        return EINVAL;
    return __real_pthread_mutex_destroy(m);
}
NOINSTR int __wrap_pthread_cond_init(pthread_cond_t *c, const pthread_condattr_t *a)
{
    int idx;
    if (gate(FI_COND, &idx))
        return ENOMEM;
    int r = __real_pthread_cond_init(c, a);
    if (r == 0)
        record(c, 0, FK_COND, FI_COND, idx);
    return r;
}
NOINSTR int __wrap_pthread_cond_destroy(pthread_cond_t *c)
{
    if (!forget(c, FK_COND))
        return EINVAL;
    return __real_pthread_cond_destroy(c);
}
NOINSTR int __wrap_pthread_barrier_init(pthread_barrier_t *b, const pthread_barrierattr_t *a, unsigned n)
{
    int idx;
    if (gate(FI_BARRIER, &idx))
        return ENOMEM;
    int r = __real_pthread_barrier_init(b, a, n);
    if (r == 0)
        record(b, 0, FK_BARRIER, FI_BARRIER, idx);
    return r;
}
NOINSTR int __wrap_pthread_barrier_destroy(pthread_barrier_t *b)
{
    if (!forget(b, FK_BARRIER))
        return EINVAL;
    return __real_pthread_barrier_destroy(b);
}

/* ---------------- call trace (library built with -finstrument-functions) ---------------- */
#define MAXTR 65536
typedef struct { void *fn; uint8_t enter; uint8_t depth; int evpos; } tr_ent;
static tr_ent tr[MAXTR];
static int n_tr;
NOINSTR void __cyg_profile_func_enter(void *fn, void *site)
{
    (void)site;
    if (in_window()) {
        if (n_tr < MAXTR) {
            tr[n_tr].fn = fn;
            tr[n_tr].enter = 1;
            tr[n_tr].depth = (uint8_t)depth_tls;
            tr[n_tr].evpos = n_ev;
            n_tr++;
        }
        depth_tls++;
    }
}
NOINSTR void __cyg_profile_func_exit(void *fn, void *site)
{
    (void)site;
    if (in_window()) {
        if (depth_tls > 0)
            depth_tls--;
        if (n_tr < MAXTR) {
            tr[n_tr].fn = fn;
            tr[n_tr].enter = 0;
            tr[n_tr].depth = (uint8_t)depth_tls;
            tr[n_tr].evpos = n_ev;
            n_tr++;
        }
    }
}
NOINSTR int fi_trace_len(void) { return n_tr; }
NOINSTR void fi_trace_reset(void) { n_tr = 0; depth_tls = 0; }
NOINSTR int fi_trace_get(int i, void **fn, int *enter, int *depth, int *evpos)
{
    if (i < 0 || i >= n_tr)
        return 0;
    *fn = tr[i].fn;
    *enter = tr[i].enter;
    *depth = tr[i].depth;
    *evpos = tr[i].evpos;
    return 1;
}
