/* C01, native part: "by some execution stream that schedules its pool" for the predefined schedulers over 1..4 pools, and
 * for a stacked scheduler.
 *  (a) every predefined scheduler (BASIC, BASIC_WAIT, PRIO, RANDWS) of a secondary stream over k = 1..4 pools that only this
 *      stream serves: ULTs and tasklets pushed to every one of the k pools all run (each exactly once) before the join of
 *      the stream returns;
 *  (b) a scheduler stacked on the primary stream's pool (ABT_pool_add_sched) over its own pool: an outer ULT joins a ULT of
 *      the inner pool (direct hand-over between the levels), the other units of the inner pool still all run.
 * exit 0 ok, 1 violation */
#include <abt.h>
#include <stdio.h>
#include <string.h>
#include <time.h>
#define MAXU 64
static int ran[MAXU];
static int bad;
static void body(void *arg)
{
    int id = (int)(long)arg;
    __sync_fetch_and_add(&ran[id], 1);
}
static void ybody(void *arg)
{
    int id = (int)(long)arg;
    ABT_thread_yield();
    __sync_fetch_and_add(&ran[id], 1);
}
static double now(void)
{
    struct timespec ts;
    clock_gettime(CLOCK_MONOTONIC, &ts);
    return ts.tv_sec + 1e-9 * ts.tv_nsec;
}
static const char *SN[] = { "BASIC", "BASIC_WAIT", "PRIO", "RANDWS" };
static void matrix(void)
{
    ABT_sched_predef kinds[4] = { ABT_SCHED_BASIC, ABT_SCHED_BASIC_WAIT, ABT_SCHED_PRIO, ABT_SCHED_RANDWS };
    for (int s = 0; s < 4 && !bad; s++)
        for (int k = 1; k <= 4 && !bad; k++) {
            ABT_pool pools[4];
            for (int i = 0; i < k; i++)
                ABT_pool_create_basic(s == 1 ? ABT_POOL_FIFO_WAIT : ABT_POOL_FIFO, ABT_POOL_ACCESS_MPMC, ABT_TRUE, &pools[i]);
            memset(ran, 0, sizeof ran);
            ABT_xstream xs;
            ABT_xstream_create_basic(kinds[s], k, pools, ABT_SCHED_CONFIG_NULL, &xs);
            int n = 0;
            for (int i = 0; i < k; i++)
                for (int j = 0; j < 4; j++) {
                    if (j & 1)
                        ABT_task_create(pools[i], body, (void *)(long)n, NULL);
                    else
                        ABT_thread_create(pools[i], j == 2 ? ybody : body, (void *)(long)n, ABT_THREAD_ATTR_NULL, NULL);
                    n++;
                }
            /* the join must return only after all of them (they live in pools only this stream serves); a watchdog
             * thread is not needed: if a pool is never looked at, the join itself does not return (checked by time) */
            double t0 = now();
            int left = n;
            while (now() - t0 < 5.0) {
                left = 0;
                for (int i = 0; i < n; i++)
                    left += ran[i] == 0;
                if (!left)
                    break;
                ABT_thread_yield();
            }
            if (left) {
                printf("%s scheduler over %d pool(s): %d of %d work units never ran within 5 s:", SN[s], k, left, n);
                for (int i = 0; i < k; i++) {
                    int m = 0;
                    for (int j = 0; j < 4; j++)
                        m += ran[4 * i + j] == 0;
                    if (m)
                        printf(" pool %d: %d", i, m);
                }
                printf("\n");
                bad = 1;
                fflush(stdout);
                _Exit(1); /* (the stream cannot be joined) */
            }
            ABT_xstream_join(xs);
            for (int i = 0; i < n; i++)
                if (ran[i] != 1) {
                    printf("%s scheduler over %d pool(s): unit %d ran %d times\n", SN[s], k, i, ran[i]);
                    bad = 1;
                }
            ABT_xstream_free(&xs);
        }
}
static ABT_thread inner_t0;
static void joiner(void *arg)
{
    (void)arg;
    ABT_thread_join(inner_t0); /* blocks: inner_t0 has not run; it is resumed by inner_t0's exit (direct hand-over) */
    __sync_fetch_and_add(&ran[40], 1);
    ABT_thread_yield();
    __sync_fetch_and_add(&ran[41], 1);
}
static void stacked(void)
{
    memset(ran, 0, sizeof ran);
    ABT_xstream self;
    ABT_pool mainpool, inner;
    ABT_xstream_self(&self);
    ABT_xstream_get_main_pools(self, 1, &mainpool);
    ABT_pool_create_basic(ABT_POOL_FIFO, ABT_POOL_ACCESS_MPMC, ABT_TRUE, &inner);
    ABT_sched S;
    ABT_sched_config cfg;
    ABT_sched_config_create(&cfg, ABT_sched_config_automatic, ABT_TRUE, ABT_sched_config_var_end);
    ABT_sched_create_basic(ABT_SCHED_BASIC, 1, &inner, cfg, &S);
    ABT_sched_config_free(&cfg);
    ABT_thread_create(inner, ybody, (void *)0L, ABT_THREAD_ATTR_NULL, &inner_t0);
    for (int j = 1; j <= 12; j++) {
        if (j & 1)
            ABT_task_create(inner, body, (void *)(long)j, NULL);
        else
            ABT_thread_create(inner, ybody, (void *)(long)j, ABT_THREAD_ATTR_NULL, NULL);
    }
    ABT_thread J;
    ABT_thread_create(mainpool, joiner, NULL, ABT_THREAD_ATTR_NULL, &J);
    ABT_pool_add_sched(mainpool, S);
    ABT_thread_free(&J);
    double t0 = now();
    int left = 13;
    while (now() - t0 < 5.0) {
        left = 0;
        for (int i = 0; i <= 12; i++)
            left += ran[i] == 0;
        if (!left)
            break;
        ABT_thread_yield();
    }
    if (left || ran[40] != 1 || ran[41] != 1) {
        printf("stacked scheduler: %d of 13 units of its pool never ran (outer joiner resumed %d, continued %d)\n", left, ran[40], ran[41]);
        bad = 1;
    }
    for (int i = 0; i <= 12; i++)
        if (ran[i] > 1) {
            printf("stacked scheduler: unit %d ran %d times\n", i, ran[i]);
            bad = 1;
        }
    ABT_thread_free(&inner_t0);
}
int main(void)
{
    ABT_init(0, NULL);
    matrix();
    if (!bad)
        stacked();
    if (bad) {
        fflush(stdout);
        _Exit(1);
    }
    ABT_finalize();
    printf("predefined schedulers over 1..4 pools and a stacked scheduler: every unit ran exactly once\n");
    return 0;
}
