/* T2 harness for Model.MigRules: the request rules of ABT_thread_migrate_to_pool / ABT_thread_migrate_to_sched on the real
 * library, driven from the primary ULT over four private pools that no stream serves (ABT_self_schedule plays scheduler).
 *   req p <unit pool> <migratable 0|1> 1 <target pool>
 *   req s <unit pool> <migratable 0|1> <k> <pool> ... <pool>      (a basic scheduler object over k >= 1 distinct pools)
 * answer: `ok <pool the unit is in after its next scheduling point> cb=<callback calls>` for an accepted request,
 *         `<error name> stay=<1 iff the unit is still in its pool after its next scheduling point> cb=<n>` otherwise */
#include <abt.h>
#include <stdio.h>
#include <string.h>
#define NP 4
static ABT_pool P[NP];
static int cb_calls;
static void mig_cb(ABT_thread t, void *arg) { (void)t; (void)arg; cb_calls++; }
static void yielder(void *arg)
{
    (void)arg;
    ABT_thread_yield();
    ABT_thread_yield();
}
static int pidx(ABT_pool p)
{
    for (int i = 0; i < NP; i++)
        if (P[i] == p)
            return i;
    return -1;
}
static int run_one(ABT_pool from)
{
    ABT_thread t = ABT_THREAD_NULL;
    ABT_pool_pop_thread(from, &t);
    if (t == ABT_THREAD_NULL)
        return 0;
    ABT_self_schedule(t, ABT_POOL_NULL);
    return 1;
}
static const char *ename(int rc)
{
    switch (rc) {
        case ABT_SUCCESS: return "ok";
        case ABT_ERR_INV_THREAD: return "inv_thread";
        case ABT_ERR_MIGRATION_TARGET: return "migration_target";
        case ABT_ERR_MIGRATION_NA: return "migration_na";
        default: return "other";
    }
}
int main(void)
{
    char line[256];
    ABT_init(0, NULL);
    for (int i = 0; i < NP; i++)
        ABT_pool_create_basic(ABT_POOL_FIFO, ABT_POOL_ACCESS_MPMC, ABT_FALSE, &P[i]);
    setvbuf(stdout, NULL, _IOLBF, 1 << 12);
    while (fgets(line, sizeof line, stdin)) {
        char kind;
        int u, mig, k, pl[NP], n = 0, off = 0;
        if (sscanf(line, " req %c %d %d %d%n", &kind, &u, &mig, &k, &off) != 4 || (kind != 'p' && kind != 's') || u < 0 || u >= NP ||
            (mig != 0 && mig != 1) || k < 1 || k > NP || (kind == 'p' && k != 1)) {
            puts("bad-op");
            continue;
        }
        const char *s = line + off;
        int ok = 1;
        while (n < k) {
            int v, o2 = 0;
            if (sscanf(s, " %d%n", &v, &o2) != 1 || v < 0 || v >= NP) {
                ok = 0;
                break;
            }
            for (int j = 0; j < n; j++)
                if (pl[j] == v)
                    ok = 0;
            pl[n++] = v;
            s += o2;
        }
        if (!ok) {
            puts("bad-op");
            continue;
        }
        ABT_thread th;
        ABT_thread_create(P[u], yielder, NULL, ABT_THREAD_ATTR_NULL, &th);
        ABT_thread_set_migratable(th, mig ? ABT_TRUE : ABT_FALSE);
        cb_calls = 0;
        ABT_thread_set_callback(th, mig_cb, NULL);
        ABT_sched sc = ABT_SCHED_NULL;
        int rc;
        if (kind == 'p') {
            rc = ABT_thread_migrate_to_pool(th, P[pl[0]]);
        } else {
            ABT_pool ps[NP];
            for (int j = 0; j < k; j++)
                ps[j] = P[pl[j]];
            ABT_sched_create_basic(ABT_SCHED_BASIC, k, ps, ABT_SCHED_CONFIG_NULL, &sc);
            rc = ABT_thread_migrate_to_sched(th, sc);
        }
        run_one(P[u]); /* the unit runs to its first yield: an accepted request is carried out there */
        ABT_pool now = ABT_POOL_NULL;
        ABT_thread_get_last_pool(th, &now);
        if (rc == ABT_SUCCESS)
            printf("ok %d cb=%d\n", pidx(now), cb_calls);
        else
            printf("%s stay=%d cb=%d\n", ename(rc), now == P[u], cb_calls);
        for (int r = 0; r < 8; r++)
            for (int i = 0; i < NP; i++)
                run_one(P[i]);
        ABT_thread_free(&th);
        if (sc != ABT_SCHED_NULL)
            ABT_sched_free(&sc);
    }
    ABT_finalize();
    return 0;
}
