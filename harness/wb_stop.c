/* Scheduler-termination decision and pool-consumer accounting (C06 / C01) — white-box + API driver.
 *
 *   wb_stop                                   line protocol on stdin, one answer line per op line (`driver stop`)
 *   wb_stop e2e-blocked PREDEF KIND ACC VIA CYCLES
 *   wb_stop e2e-replace PREDEF1 PREDEF2 KIND ACC SAMEPOOL FREE
 *
 * (i) pure decisions, one real call per line
 *   hu N {acc kind size nb ns}*N                        ABTI_sched_has_unit of a real scheduler over N pools
 *   hs used r0 r1 N {acc kind s1 nb1 ns1 s2 nb2 ns2}*N  ABT_sched_has_to_stop; if the two snapshots (or r0/r1) differ the
 *                                                       pools' is_empty is scripted: first call = first scan (and the
 *                                                       request word changes to r1 "concurrently"), second call = re-scan
 *   ce ult run main|same                                ABTI_xstream_check_events(stream, running scheduler)
 *   fin r / exit r                                      ABT_sched_finish / ABT_sched_exit
 *   sizes are made by pushing work units that are never run; num_blocked / num_scheds / access / request / used are
 *   stored directly.
 * (ii) API histories (see Driver/Stop.lean for the ops); after every call ` | pools P=num_scheds.. | scheds K:used:request..`
 *   of every live pool / scheduler.  The harness learns that the runtime freed a pool / scheduler object from the
 *   object's own free callback (wrapped at registration), never by looking at freed memory.
 * (iii) end-to-end programs with a watchdog: exit 0 = property holds, 1 = join returned too early, 3 = join hangs. */
#include "abti.h"
#include <pthread.h>
#include <stdio.h>
#include <stdlib.h>
#include <string.h>
#include <unistd.h>

#define NPOOL 96
#define NSCHED 96
#define NXS 24
#define MAXP 8

static ABT_pool pool[NPOOL];
static volatile int pool_live[NPOOL];
static ABT_pool_user_free_fn pool_orig_free[NPOOL];
static ABT_sched sched[NSCHED];
static volatile int sched_live[NSCHED];
static ABT_sched_free_fn sched_orig_free[NSCHED];
static ABT_xstream xs[NXS];
static int xs_state[NXS]; /* 0 none, 1 running, 2 joined */

static char cur_line[4096];
static volatile long op_seq, wd_limit_s = 12;

#define CK(call)                                                                                                       \
    do {                                                                                                               \
        int rc_ = (call);                                                                                              \
        if (rc_ != ABT_SUCCESS) {                                                                                      \
            fprintf(stderr, "%s failed: %d (line `%s`)\n", #call, rc_, cur_line);                                       \
            exit(3);                                                                                                   \
        }                                                                                                              \
    } while (0)

/* ------------------------------------------------------------------ watchdog */
static void *watchdog(void *arg)
{
    long seen = -1, since = 0;
    (void)arg;
    while (1) {
        usleep(200000);
        if (op_seq == seen) {
            since++;
            if (since * 200 >= wd_limit_s * 1000) {
                fprintf(stderr, "HANG: no progress for %ld s in `%s`\n", wd_limit_s, cur_line);
                fflush(stdout);
                _exit(5);
            }
        } else {
            seen = op_seq;
            since = 0;
        }
    }
    return NULL;
}

/* ------------------------------------------------------------------ registration + free hooks */
static void pool_free_hook(ABT_pool h)
{
    int i;
    for (i = 0; i < NPOOL; i++)
        if (pool_live[i] && pool[i] == h) {
            ABT_pool_user_free_fn f = pool_orig_free[i];
            pool_live[i] = 0;
            pool[i] = ABT_POOL_NULL;
            if (f)
                f(h);
            return;
        }
    fprintf(stderr, "free of an unregistered pool\n");
}

static int sched_free_hook(ABT_sched h)
{
    int i;
    for (i = 0; i < NSCHED; i++)
        if (sched_live[i] && sched[i] == h) {
            ABT_sched_free_fn f = sched_orig_free[i];
            sched_live[i] = 0;
            sched[i] = ABT_SCHED_NULL;
            return f ? f(h) : ABT_SUCCESS;
        }
    fprintf(stderr, "free of an unregistered scheduler\n");
    return ABT_SUCCESS;
}

static int reg_pool(long slot, ABT_pool h)
{
    ABTI_pool *p = ABTI_pool_get_ptr(h);
    if (slot < 0 || slot >= NPOOL || pool_live[slot] || !p)
        return 0;
    pool[slot] = h;
    pool_orig_free[slot] = p->optional_def.p_free;
    p->optional_def.p_free = pool_free_hook;
    pool_live[slot] = 1;
    return 1;
}

static int reg_sched(long slot, ABT_sched h)
{
    ABTI_sched *p = ABTI_sched_get_ptr(h);
    if (slot < 0 || slot >= NSCHED || sched_live[slot] || !p)
        return 0;
    sched[slot] = h;
    sched_orig_free[slot] = p->free;
    p->free = sched_free_hook;
    sched_live[slot] = 1;
    return 1;
}

static const char *used_name(ABTI_sched_used u)
{
    return u == ABTI_SCHED_NOT_USED ? "notused" : u == ABTI_SCHED_MAIN ? "main" : u == ABTI_SCHED_IN_POOL ? "inpool" : "?";
}

static void dump(const char *status)
{
    int i;
    printf("%s | pools", status);
    for (i = 0; i < NPOOL; i++)
        if (pool_live[i])
            printf(" %d=%d", i, (int)ABTD_atomic_acquire_load_int32(&ABTI_pool_get_ptr(pool[i])->num_scheds));
    printf(" | scheds");
    for (i = 0; i < NSCHED; i++)
        if (sched_live[i])
            printf(" %d:%s:%u", i, used_name(ABTI_sched_get_ptr(sched[i])->used),
                   (unsigned)ABTD_atomic_acquire_load_uint32(&ABTI_sched_get_ptr(sched[i])->request));
    printf("\n");
}

/* ------------------------------------------------------------------ parsing */
static int parse_long(const char *t, long *out)
{
    char *end;
    if (!t || !*t || *t == '+')
        return 0;
    *out = strtol(t, &end, 10);
    return *end == 0;
}

static int parse_nat(const char *t, long *out)
{
    return parse_long(t, out) && t[0] != '-' && *out >= 0;
}

static int parse_predef(const char *t, ABT_sched_predef *out)
{
    if (!strcmp(t, "default"))
        *out = ABT_SCHED_DEFAULT;
    else if (!strcmp(t, "basic"))
        *out = ABT_SCHED_BASIC;
    else if (!strcmp(t, "basic_wait"))
        *out = ABT_SCHED_BASIC_WAIT;
    else if (!strcmp(t, "prio"))
        *out = ABT_SCHED_PRIO;
    else if (!strcmp(t, "randws"))
        *out = ABT_SCHED_RANDWS;
    else
        return 0;
    return 1;
}

static int parse_kind(const char *t, ABT_pool_kind *out, int *idx)
{
    if (!strcmp(t, "fifo")) {
        *out = ABT_POOL_FIFO;
        *idx = 0;
    } else if (!strcmp(t, "fifo_wait")) {
        *out = ABT_POOL_FIFO_WAIT;
        *idx = 1;
    } else if (!strcmp(t, "randws")) {
        *out = ABT_POOL_RANDWS;
        *idx = 2;
    } else
        return 0;
    return 1;
}

/* access token -> enum; `inv` = a value outside the enum (index 5) */
static int parse_acc(const char *t, ABT_pool_access *out, int *idx)
{
    static const char *names[6] = { "priv", "spsc", "mpsc", "spmc", "mpmc", "inv" };
    static const ABT_pool_access vals[5] = { ABT_POOL_ACCESS_PRIV, ABT_POOL_ACCESS_SPSC, ABT_POOL_ACCESS_MPSC,
                                             ABT_POOL_ACCESS_SPMC, ABT_POOL_ACCESS_MPMC };
    int i;
    for (i = 0; i < 6; i++)
        if (!strcmp(t, names[i])) {
            *idx = i;
            *out = i < 5 ? vals[i] : (ABT_pool_access)97;
            return 1;
        }
    return 0;
}

static int parse_used(const char *t, ABTI_sched_used *out)
{
    if (!strcmp(t, "notused"))
        *out = ABTI_SCHED_NOT_USED;
    else if (!strcmp(t, "main"))
        *out = ABTI_SCHED_MAIN;
    else if (!strcmp(t, "inpool"))
        *out = ABTI_SCHED_IN_POOL;
    else
        return 0;
    return 1;
}

/* slots: `noarr` (no array given), numbers of live pools, `n<P>` NULL entries to be registered as P.
 * returns the number of entries or -1 (malformed) / -2 (dead or busy slot) */
typedef struct {
    int noarr, n;
    ABT_pool arr[MAXP];
    long newslot[MAXP]; /* -1 or the slot a NULL entry is registered at */
} slots_t;

static int parse_slots(char **tok, int ntok, slots_t *s)
{
    int i;
    s->noarr = 0;
    s->n = 0;
    for (i = 0; i < ntok; i++) {
        long v;
        if (!strcmp(tok[i], "noarr")) {
            if (i != 0)
                return -1;
            s->noarr = 1;
            continue;
        }
        if (s->n >= MAXP)
            return -1;
        if (tok[i][0] == 'n') {
            if (!parse_nat(tok[i] + 1, &v))
                return -1;
            if (v >= NPOOL || pool_live[v])
                return -2;
            s->arr[s->n] = ABT_POOL_NULL;
            s->newslot[s->n] = v;
        } else {
            if (!parse_nat(tok[i], &v))
                return -1;
            if (s->noarr)
                return -1;
            if (v >= NPOOL || !pool_live[v])
                return -2;
            s->arr[s->n] = pool[v];
            s->newslot[s->n] = -1;
        }
        s->n++;
    }
    return s->n;
}

/* after a successful creation: the pools the runtime made for the NULL entries */
static int reg_new_pools(ABT_sched h, slots_t *s)
{
    int n = 0, i;
    ABT_pool got[MAXP];
    CK(ABT_sched_get_num_pools(h, &n));
    if (n != s->n || n > MAXP)
        return 0;
    if (n > 0)
        CK(ABT_sched_get_pools(h, n, 0, got));
    for (i = 0; i < n; i++) {
        if (s->newslot[i] >= 0) {
            if (!reg_pool(s->newslot[i], got[i]))
                return 0;
        } else if (got[i] != s->arr[i])
            return 0;
    }
    return 1;
}

/* ------------------------------------------------------------------ a user-defined scheduler (public API only) */
static int us_init(ABT_sched s, ABT_sched_config c)
{
    (void)s;
    (void)c;
    return ABT_SUCCESS;
}

static void us_run(ABT_sched s)
{
    int n = 0, i;
    ABT_pool ps[MAXP];
    unsigned work = 0;
    ABT_sched_get_num_pools(s, &n);
    if (n > MAXP)
        n = MAXP;
    ABT_sched_get_pools(s, n, 0, ps);
    while (1) {
        int ran = 0;
        for (i = 0; i < n; i++) {
            ABT_thread t = ABT_THREAD_NULL;
            ABT_pool_pop_thread(ps[i], &t);
            if (t != ABT_THREAD_NULL) {
                ABT_self_schedule(t, ABT_POOL_NULL);
                ran = 1;
                break;
            }
        }
        if (!ran || ++work >= 16) {
            ABT_bool stop = ABT_FALSE;
            work = 0;
            ABT_xstream_check_events(s);
            ABT_sched_has_to_stop(s, &stop);
            if (stop == ABT_TRUE)
                break;
            if (!ran)
                usleep(100);
        }
    }
}

static int us_free(ABT_sched s)
{
    (void)s;
    return ABT_SUCCESS;
}

static ABT_sched_def user_def = { .type = ABT_SCHED_TYPE_ULT, .init = us_init, .run = us_run, .free = us_free,
                                  .get_migr_pool = NULL };

static ABT_sched_config mk_config(int automatic)
{
    ABT_sched_config cfg;
    CK(ABT_sched_config_create(&cfg, ABT_sched_config_automatic, automatic ? ABT_TRUE : ABT_FALSE,
                               ABT_sched_config_var_end));
    return cfg;
}

/* ------------------------------------------------------------------ (i) decisions */
#define NDUMMY 24
static ABT_thread dummy[NDUMMY];
static int dummy_ready;
static ABT_pool wbpool[MAXP][3][5];
static int wbpool_made[MAXP][3][5];

static void never_run(void *arg)
{
    (void)arg;
    fprintf(stderr, "a dummy unit was executed\n");
    abort();
}

static void make_dummies(void)
{
    ABT_pool stage;
    int i;
    if (dummy_ready)
        return;
    CK(ABT_pool_create_basic(ABT_POOL_FIFO, ABT_POOL_ACCESS_MPMC, ABT_FALSE, &stage));
    for (i = 0; i < NDUMMY; i++) {
        ABT_thread t;
        CK(ABT_thread_create(stage, never_run, NULL, ABT_THREAD_ATTR_NULL, &dummy[i]));
        CK(ABT_pool_pop_thread(stage, &t));
        if (t != dummy[i]) {
            fprintf(stderr, "staging pool returned another unit\n");
            exit(3);
        }
    }
    dummy_ready = 1;
}

typedef struct {
    ABT_pool_access acc;
    int acci, kindi;
    ABT_pool_kind kind;
    long s[2], nb[2], ns[2];
    ABT_pool h;
    int calls;
    ABT_pool_user_is_empty_fn orig_is_empty;
} view_t;

static view_t views[MAXP];
static int nviews;
static ABTI_sched *script_sched;
static long script_r1;

static ABT_bool scripted_is_empty(ABT_pool h)
{
    int i;
    for (i = 0; i < nviews; i++)
        if (views[i].h == h) {
            view_t *v = &views[i];
            ABTI_pool *p = ABTI_pool_get_ptr(h);
            int k = v->calls++ == 0 ? 0 : 1;
            if (k == 0) {
                /* somebody else's request arrives while the first scan is running */
                ABTD_atomic_release_store_uint32(&script_sched->request, (uint32_t)script_r1);
            } else {
                ABTD_atomic_release_store_int32(&p->num_blocked, (int32_t)v->nb[1]);
                ABTD_atomic_release_store_int32(&p->num_scheds, (int32_t)v->ns[1]);
            }
            return v->s[k] == 0 ? ABT_TRUE : ABT_FALSE;
        }
    fprintf(stderr, "scripted is_empty on an unknown pool\n");
    abort();
}

/* parse N views of `fields` numbers each (3 or 6) */
static int parse_views(char **tok, int ntok, int n, int two)
{
    int per = two ? 8 : 5, i;
    if (n < 0 || n > MAXP || ntok != n * per)
        return 0;
    for (i = 0; i < n; i++) {
        char **t = tok + i * per;
        view_t *v = &views[i];
        if (!parse_acc(t[0], &v->acc, &v->acci) || !parse_kind(t[1], &v->kind, &v->kindi))
            return 0;
        if (!parse_nat(t[2], &v->s[0]) || !parse_long(t[3], &v->nb[0]) || !parse_long(t[4], &v->ns[0]))
            return 0;
        if (two) {
            if (!parse_nat(t[5], &v->s[1]) || !parse_long(t[6], &v->nb[1]) || !parse_long(t[7], &v->ns[1]))
                return 0;
        } else {
            v->s[1] = v->s[0];
            v->nb[1] = v->nb[0];
            v->ns[1] = v->ns[0];
        }
        v->calls = 0;
    }
    nviews = n;
    return 1;
}

/* build a real scheduler over the pools of views[], run `what` (0 has_unit, 1 has_to_stop), undo */
static int decide(int what, ABTI_sched_used used, long r0, long r1)
{
    ABT_pool arr[MAXP];
    ABT_sched s;
    ABTI_sched *ps;
    ABT_sched_config cfg;
    int32_t saved_ns[MAXP];
    int i, k, scripted = (r0 != r1), nd = 0, answer;
    make_dummies();
    for (i = 0; i < nviews; i++) {
        view_t *v = &views[i];
        int ai = v->acci < 5 ? v->acci : 4;
        if (!wbpool_made[i][v->kindi][ai]) {
            static const ABT_pool_access vals[5] = { ABT_POOL_ACCESS_PRIV, ABT_POOL_ACCESS_SPSC, ABT_POOL_ACCESS_MPSC,
                                                     ABT_POOL_ACCESS_SPMC, ABT_POOL_ACCESS_MPMC };
            CK(ABT_pool_create_basic(v->kind, vals[ai], ABT_FALSE, &wbpool[i][v->kindi][ai]));
            wbpool_made[i][v->kindi][ai] = 1;
        }
        v->h = arr[i] = wbpool[i][v->kindi][ai];
        if (v->s[0] != v->s[1] || v->nb[0] != v->nb[1] || v->ns[0] != v->ns[1])
            scripted = 1;
    }
    cfg = mk_config(0);
    CK(ABT_sched_create_basic(ABT_SCHED_BASIC, nviews, nviews ? arr : NULL, cfg, &s));
    CK(ABT_sched_config_free(&cfg));
    ps = ABTI_sched_get_ptr(s);
    if ((int)ps->num_pools != nviews) {
        fprintf(stderr, "scheduler has %d pools, wanted %d\n", (int)ps->num_pools, nviews);
        exit(3);
    }
    for (i = 0; i < nviews; i++) {
        view_t *v = &views[i];
        ABTI_pool *p = ABTI_pool_get_ptr(v->h);
        saved_ns[i] = ABTD_atomic_acquire_load_int32(&p->num_scheds);
        p->access = v->acc;
        ABTD_atomic_release_store_int32(&p->num_blocked, (int32_t)v->nb[0]);
        ABTD_atomic_release_store_int32(&p->num_scheds, (int32_t)v->ns[0]);
        if (scripted) {
            v->orig_is_empty = p->required_def.p_is_empty;
            p->required_def.p_is_empty = scripted_is_empty;
        } else {
            for (k = 0; k < v->s[0]; k++) {
                if (nd >= NDUMMY) {
                    fprintf(stderr, "too many dummy units\n");
                    exit(3);
                }
                CK(ABT_pool_push_thread(v->h, dummy[nd++]));
            }
        }
    }
    script_sched = ps;
    script_r1 = r1;
    ABTD_atomic_release_store_uint32(&ps->request, (uint32_t)r0);
    ps->used = used;
    if (what == 0) {
        answer = ABTI_sched_has_unit(ps) == ABT_TRUE;
    } else {
        ABT_bool stop = 77;
        CK(ABT_sched_has_to_stop(s, &stop));
        answer = stop == ABT_TRUE ? 1 : stop == ABT_FALSE ? 0 : 2;
    }
    /* undo */
    ps->used = ABTI_SCHED_NOT_USED;
    ABTD_atomic_release_store_uint32(&ps->request, 0);
    for (i = 0; i < nviews; i++) {
        view_t *v = &views[i];
        ABTI_pool *p = ABTI_pool_get_ptr(v->h);
        static const ABT_pool_access vals[5] = { ABT_POOL_ACCESS_PRIV, ABT_POOL_ACCESS_SPSC, ABT_POOL_ACCESS_MPSC,
                                                 ABT_POOL_ACCESS_SPMC, ABT_POOL_ACCESS_MPMC };
        p->access = vals[v->acci < 5 ? v->acci : 4];
        ABTD_atomic_release_store_int32(&p->num_blocked, 0);
        ABTD_atomic_release_store_int32(&p->num_scheds, saved_ns[i]);
        if (scripted) {
            p->required_def.p_is_empty = v->orig_is_empty;
        } else {
            for (k = 0; k < v->s[0]; k++) {
                ABT_thread t = ABT_THREAD_NULL;
                CK(ABT_pool_pop_thread(v->h, &t));
                if (t == ABT_THREAD_NULL) {
                    fprintf(stderr, "a pushed dummy unit is gone\n");
                    exit(3);
                }
            }
        }
    }
    CK(ABT_sched_free(&s));
    for (i = 0; i < nviews; i++) {
        /* a scheduler free that forgets the release must not accumulate in the persistent pools */
        ABTI_pool *p = ABTI_pool_get_ptr(views[i].h);
        ABTD_atomic_release_store_int32(&p->num_scheds, 0);
    }
    return answer;
}

static void op_ce(long ult, long run, int same, long mainreq)
{
    static ABTI_xstream fx;
    static ABTI_sched fmain, frun;
    static ABTI_ythread fy;
    memset(&fx, 0, sizeof(fx));
    memset(&fmain, 0, sizeof(fmain));
    memset(&frun, 0, sizeof(frun));
    memset(&fy, 0, sizeof(fy));
    fx.p_main_sched = &fmain;
    fmain.p_ythread = &fy;
    fmain.used = ABTI_SCHED_MAIN;
    frun.used = ABTI_SCHED_IN_POOL;
    ABTD_atomic_release_store_uint32(&fy.thread.request, (uint32_t)ult);
    ABTD_atomic_release_store_uint32(&fmain.request, (uint32_t)(same ? run : mainreq));
    ABTD_atomic_release_store_uint32(&frun.request, (uint32_t)run);
    ABTI_xstream_check_events(&fx, same ? &fmain : &frun);
    if (same)
        printf("ce %u same\n", (unsigned)ABTD_atomic_acquire_load_uint32(&fmain.request));
    else
        printf("ce %u %u\n", (unsigned)ABTD_atomic_acquire_load_uint32(&frun.request),
               (unsigned)ABTD_atomic_acquire_load_uint32(&fmain.request));
}

static void op_req(int exit_req, long r)
{
    ABT_pool p;
    ABT_sched s;
    ABT_sched_config cfg = mk_config(0);
    CK(ABT_pool_create_basic(ABT_POOL_FIFO, ABT_POOL_ACCESS_MPMC, ABT_FALSE, &p));
    CK(ABT_sched_create_basic(ABT_SCHED_BASIC, 1, &p, cfg, &s));
    CK(ABT_sched_config_free(&cfg));
    ABTD_atomic_release_store_uint32(&ABTI_sched_get_ptr(s)->request, (uint32_t)r);
    if (exit_req)
        CK(ABT_sched_exit(s));
    else
        CK(ABT_sched_finish(s));
    printf("%s %u\n", exit_req ? "exit" : "fin", (unsigned)ABTD_atomic_acquire_load_uint32(&ABTI_sched_get_ptr(s)->request));
    ABTD_atomic_release_store_uint32(&ABTI_sched_get_ptr(s)->request, 0);
    CK(ABT_sched_free(&s));
    ABTD_atomic_release_store_int32(&ABTI_pool_get_ptr(p)->num_scheds, 0);
    CK(ABT_pool_free(&p));
}

/* ------------------------------------------------------------------ (ii) set_main_sched through a ULT of the stream */
typedef struct {
    ABT_xstream target;
    int basic;
    ABT_sched sched;
    ABT_sched_predef predef;
    int n;
    ABT_pool *arr;
    volatile int rc;
} setmain_arg;

static void setmain_fn(void *a)
{
    setmain_arg *p = (setmain_arg *)a;
    while (1) {
        ABT_xstream self;
        ABT_bool eq = ABT_FALSE;
        ABT_xstream_self(&self);
        ABT_xstream_equal(self, p->target, &eq);
        if (eq == ABT_TRUE)
            break;
        ABT_thread_yield();
    }
    if (p->basic)
        p->rc = ABT_xstream_set_main_sched_basic(p->target, p->predef, p->n, p->arr);
    else
        p->rc = ABT_xstream_set_main_sched(p->target, p->sched);
}

static int do_setmain(long x, setmain_arg *a)
{
    a->target = xs[x];
    a->rc = -1;
    if (x == 0 || xs_state[x] == 2) {
        /* the caller's own stream, or a stream that is not running */
        if (a->basic)
            return ABT_xstream_set_main_sched_basic(a->target, a->predef, a->n, a->arr);
        return ABT_xstream_set_main_sched(a->target, a->sched);
    } else {
        ABT_pool p0;
        ABT_thread t;
        CK(ABT_xstream_get_main_pools(xs[x], 1, &p0));
        CK(ABT_thread_create(p0, setmain_fn, a, ABT_THREAD_ATTR_NULL, &t));
        CK(ABT_thread_free(&t));
        return a->rc;
    }
}

/* ------------------------------------------------------------------ line protocol */
static int split(char *line, char **tok, int max)
{
    int n = 0;
    char *t = strtok(line, " \t\r\n");
    while (t && n < max) {
        tok[n++] = t;
        t = strtok(NULL, " \t\r\n");
    }
    return t ? -1 : n;
}

static void bad(void)
{
    printf("bad-op\n");
}

static void herr(const char *why)
{
    printf("harness-error %s\n", why);
}

static void line_mode(void)
{
    char line[4096], *tok[160];
    pthread_t wd;
    int initialised = 0;
    setvbuf(stdout, NULL, _IOLBF, 0);
    pthread_create(&wd, NULL, watchdog, NULL);
    CK(ABT_init(0, NULL));
    while (fgets(line, sizeof(line), stdin)) {
        int n;
        long a, b, c;
        strncpy(cur_line, line, sizeof(cur_line) - 1);
        cur_line[strcspn(cur_line, "\n")] = 0;
        op_seq++;
        n = split(line, tok, 160);
        if (n == 0)
            continue;
        if (n < 0) {
            bad();
            continue;
        }
        if (!strcmp(tok[0], "hu")) {
            if (n < 2 || !parse_nat(tok[1], &a) || !parse_views(tok + 2, n - 2, (int)a, 0)) {
                bad();
                continue;
            }
            printf("hu %d\n", decide(0, ABTI_SCHED_NOT_USED, 0, 0));
        } else if (!strcmp(tok[0], "hs")) {
            ABTI_sched_used u;
            if (n < 5 || !parse_used(tok[1], &u) || !parse_nat(tok[2], &a) || !parse_nat(tok[3], &b) ||
                !parse_nat(tok[4], &c) || !parse_views(tok + 5, n - 5, (int)c, 1)) {
                bad();
                continue;
            }
            printf("hs %d\n", decide(1, u, a, b));
        } else if (!strcmp(tok[0], "ce")) {
            int same;
            if (n != 4 || !parse_nat(tok[1], &a) || !parse_nat(tok[2], &b)) {
                bad();
                continue;
            }
            same = !strcmp(tok[3], "same");
            c = 0;
            if (!same && !parse_nat(tok[3], &c)) {
                bad();
                continue;
            }
            op_ce(a, b, same, c);
        } else if (!strcmp(tok[0], "fin") || !strcmp(tok[0], "exit")) {
            if (n != 2 || !parse_nat(tok[1], &a)) {
                bad();
                continue;
            }
            op_req(tok[0][0] == 'e', a);
        } else if (!strcmp(tok[0], "init")) {
            ABT_sched ms;
            ABT_pool mp;
            if (n != 1) {
                bad();
                continue;
            }
            if (initialised) {
                dump("err");
                continue;
            }
            CK(ABT_xstream_self(&xs[0]));
            CK(ABT_xstream_get_main_sched(xs[0], &ms));
            CK(ABT_sched_get_pools(ms, 1, 0, &mp));
            if (!reg_sched(0, ms) || !reg_pool(0, mp)) {
                herr("init");
                continue;
            }
            xs_state[0] = 1;
            initialised = 1;
            dump("ok");
        } else if (!strcmp(tok[0], "pool")) {
            ABT_pool_access acc;
            ABT_pool_kind kind;
            int ai, ki, rc;
            ABT_pool h;
            if (n != 5 || !parse_nat(tok[1], &a) || !parse_nat(tok[2], &b) || b > 1 || !parse_acc(tok[3], &acc, &ai) ||
                ai == 5 || !parse_kind(tok[4], &kind, &ki)) {
                bad();
                continue;
            }
            if (a >= NPOOL || pool_live[a]) {
                dump("err");
                continue;
            }
            rc = ABT_pool_create_basic(kind, acc, b ? ABT_TRUE : ABT_FALSE, &h);
            if (rc == ABT_SUCCESS && !reg_pool(a, h)) {
                herr("pool");
                continue;
            }
            dump(rc == ABT_SUCCESS ? "ok" : "err");
        } else if (!strcmp(tok[0], "poolfree")) {
            int rc;
            if (n != 2 || !parse_nat(tok[1], &a)) {
                bad();
                continue;
            }
            if (a >= NPOOL || !pool_live[a]) {
                dump("err");
                continue;
            }
            rc = ABT_pool_free(&pool[a]);
            dump(rc == ABT_SUCCESS ? "ok" : "err");
        } else if (!strcmp(tok[0], "sched") || !strcmp(tok[0], "schedu")) {
            int user = tok[0][5] == 'u', base = user ? 3 : 4, rc, ns;
            ABT_sched_predef predef = ABT_SCHED_BASIC;
            slots_t sl;
            ABT_sched h;
            ABT_sched_config cfg;
            if (n < base || !parse_nat(tok[1], &a) || (!user && !parse_predef(tok[2], &predef)) ||
                !parse_nat(tok[base - 1], &b) || b > 1) {
                bad();
                continue;
            }
            ns = parse_slots(tok + base, n - base, &sl);
            if (ns == -1 || (user && (sl.noarr || ns == 0))) {
                bad();
                continue;
            }
            if (ns == -2 || a >= NSCHED || sched_live[a]) {
                dump("err");
                continue;
            }
            cfg = mk_config((int)b);
            if (user)
                rc = ABT_sched_create(&user_def, sl.n, sl.arr, cfg, &h);
            else
                rc = ABT_sched_create_basic(predef, sl.noarr ? 0 : sl.n, sl.noarr ? NULL : sl.arr, cfg, &h);
            CK(ABT_sched_config_free(&cfg));
            if (rc == ABT_SUCCESS && (!reg_sched(a, h) || !reg_new_pools(h, &sl))) {
                herr("sched");
                continue;
            }
            dump(rc == ABT_SUCCESS ? "ok" : "err");
        } else if (!strcmp(tok[0], "schedfree")) {
            int rc;
            ABT_sched h;
            if (n != 2 || !parse_nat(tok[1], &a)) {
                bad();
                continue;
            }
            if (a >= NSCHED || !sched_live[a]) {
                dump("err");
                continue;
            }
            h = sched[a];
            rc = ABT_sched_free(&h);
            dump(rc == ABT_SUCCESS ? "ok" : "err");
        } else if (!strcmp(tok[0], "xs")) {
            int rc;
            ABT_xstream h;
            if ((n != 3 && n != 4) || !parse_nat(tok[1], &a)) {
                bad();
                continue;
            }
            if (n == 3) {
                if (!parse_nat(tok[2], &b)) {
                    bad();
                    continue;
                }
                if (a >= NXS || xs_state[a] || b >= NSCHED || !sched_live[b]) {
                    dump("err");
                    continue;
                }
                rc = ABT_xstream_create(sched[b], &h);
            } else {
                ABT_sched ms;
                ABT_pool mp;
                if (tok[2][0] != 'n' || tok[3][0] != 'n' || !parse_nat(tok[2] + 1, &b) || !parse_nat(tok[3] + 1, &c)) {
                    bad();
                    continue;
                }
                if (a >= NXS || xs_state[a] || b >= NSCHED || sched_live[b] || c >= NPOOL || pool_live[c]) {
                    dump("err");
                    continue;
                }
                rc = ABT_xstream_create(ABT_SCHED_NULL, &h);
                if (rc == ABT_SUCCESS) {
                    CK(ABT_xstream_get_main_sched(h, &ms));
                    CK(ABT_sched_get_pools(ms, 1, 0, &mp));
                    if (!reg_sched(b, ms) || !reg_pool(c, mp)) {
                        herr("xs");
                        continue;
                    }
                }
            }
            if (rc == ABT_SUCCESS) {
                xs[a] = h;
                xs_state[a] = 1;
            }
            dump(rc == ABT_SUCCESS ? "ok" : "err");
        } else if (!strcmp(tok[0], "xsb")) {
            ABT_sched_predef predef;
            slots_t sl;
            ABT_xstream h;
            ABT_sched ms;
            int rc, ns;
            if (n < 4 || !parse_nat(tok[1], &a) || !parse_nat(tok[2], &b) || !parse_predef(tok[3], &predef)) {
                bad();
                continue;
            }
            ns = parse_slots(tok + 4, n - 4, &sl);
            if (ns == -1) {
                bad();
                continue;
            }
            if (ns == -2 || a >= NXS || xs_state[a] || b >= NSCHED || sched_live[b]) {
                dump("err");
                continue;
            }
            rc = ABT_xstream_create_basic(predef, sl.noarr ? 0 : sl.n, sl.noarr ? NULL : sl.arr, ABT_SCHED_CONFIG_NULL, &h);
            if (rc == ABT_SUCCESS) {
                CK(ABT_xstream_get_main_sched(h, &ms));
                if (!reg_sched(b, ms) || !reg_new_pools(ms, &sl)) {
                    herr("xsb");
                    continue;
                }
                xs[a] = h;
                xs_state[a] = 1;
            }
            dump(rc == ABT_SUCCESS ? "ok" : "err");
        } else if (!strcmp(tok[0], "join") || !strcmp(tok[0], "revive") || !strcmp(tok[0], "xfree")) {
            int rc;
            if (n != 2 || !parse_nat(tok[1], &a)) {
                bad();
                continue;
            }
            if (a >= NXS || !xs_state[a] || a == 0) {
                /* the primary stream can be neither joined nor freed; the model has it live */
                if (a == 0 && xs_state[0] && tok[0][0] != 'x') {
                    herr("primary");
                    continue;
                }
                dump("err");
                continue;
            }
            if (tok[0][0] == 'j') {
                rc = ABT_xstream_join(xs[a]);
                if (rc == ABT_SUCCESS)
                    xs_state[a] = 2;
            } else if (tok[0][0] == 'r') {
                if (xs_state[a] != 2) {
                    herr("revive of a running stream");
                    continue;
                }
                rc = ABT_xstream_revive(xs[a]);
                if (rc == ABT_SUCCESS)
                    xs_state[a] = 1;
            } else {
                rc = ABT_xstream_free(&xs[a]);
                if (rc == ABT_SUCCESS)
                    xs_state[a] = 0;
            }
            dump(rc == ABT_SUCCESS ? "ok" : "err");
        } else if (!strcmp(tok[0], "setmain")) {
            setmain_arg sa;
            int rc;
            memset(&sa, 0, sizeof(sa));
            if ((n != 3 && n != 4) || !parse_nat(tok[1], &a)) {
                bad();
                continue;
            }
            if (n == 3) {
                if (!parse_nat(tok[2], &b)) {
                    bad();
                    continue;
                }
                if (a >= NXS || !xs_state[a] || b >= NSCHED || !sched_live[b]) {
                    dump("err");
                    continue;
                }
                sa.sched = sched[b];
                rc = do_setmain(a, &sa);
            } else {
                ABT_sched ms;
                ABT_pool mp;
                if (tok[2][0] != 'n' || tok[3][0] != 'n' || !parse_nat(tok[2] + 1, &b) || !parse_nat(tok[3] + 1, &c)) {
                    bad();
                    continue;
                }
                if (a >= NXS || !xs_state[a] || b >= NSCHED || sched_live[b] || c >= NPOOL || pool_live[c]) {
                    dump("err");
                    continue;
                }
                sa.sched = ABT_SCHED_NULL;
                rc = do_setmain(a, &sa);
                if (rc == ABT_SUCCESS) {
                    CK(ABT_xstream_get_main_sched(xs[a], &ms));
                    CK(ABT_sched_get_pools(ms, 1, 0, &mp));
                    if (!reg_sched(b, ms) || !reg_pool(c, mp)) {
                        herr("setmain");
                        continue;
                    }
                }
            }
            dump(rc == ABT_SUCCESS ? "ok" : "err");
        } else if (!strcmp(tok[0], "setmainb")) {
            setmain_arg sa;
            slots_t sl;
            ABT_sched ms;
            int rc, ns;
            memset(&sa, 0, sizeof(sa));
            if (n < 4 || !parse_nat(tok[1], &a) || !parse_nat(tok[2], &b) || !parse_predef(tok[3], &sa.predef)) {
                bad();
                continue;
            }
            ns = parse_slots(tok + 4, n - 4, &sl);
            if (ns == -1) {
                bad();
                continue;
            }
            if (ns == -2 || a >= NXS || !xs_state[a] || b >= NSCHED || sched_live[b]) {
                dump("err");
                continue;
            }
            sa.basic = 1;
            sa.n = sl.noarr ? 0 : sl.n;
            sa.arr = sl.noarr ? NULL : sl.arr;
            rc = do_setmain(a, &sa);
            if (rc == ABT_SUCCESS) {
                CK(ABT_xstream_get_main_sched(xs[a], &ms));
                if (!reg_sched(b, ms) || !reg_new_pools(ms, &sl)) {
                    herr("setmainb");
                    continue;
                }
            }
            dump(rc == ABT_SUCCESS ? "ok" : "err");
        } else {
            bad();
        }
    }
    fflush(stdout);
    _exit(0); /* streams may still run; no finalize */
}

/* ------------------------------------------------------------------ (iii) end-to-end programs */
static const ABT_sched_predef predefs[4] = { ABT_SCHED_BASIC, ABT_SCHED_BASIC_WAIT, ABT_SCHED_PRIO, ABT_SCHED_RANDWS };
static const char *predef_names[4] = { "BASIC", "BASIC_WAIT", "PRIO", "RANDWS" };
static const ABT_pool_kind kinds[3] = { ABT_POOL_FIFO, ABT_POOL_FIFO_WAIT, ABT_POOL_RANDWS };
static const char *kind_names[3] = { "FIFO", "FIFO_WAIT", "RANDWS" };
static const ABT_pool_access accs[5] = { ABT_POOL_ACCESS_PRIV, ABT_POOL_ACCESS_SPSC, ABT_POOL_ACCESS_MPSC,
                                         ABT_POOL_ACCESS_SPMC, ABT_POOL_ACCESS_MPMC };
static const char *acc_names[5] = { "PRIV", "SPSC", "MPSC", "SPMC", "MPMC" };

static ABT_eventual e2e_ev;
static volatile int e2e_started, e2e_finished, e2e_done;

static void blocked_fn(void *a)
{
    (void)a;
    e2e_started = 1;
    ABT_eventual_wait(e2e_ev, NULL);
    e2e_finished = 1;
}

static void *setter_thread(void *a)
{
    (void)a;
    usleep(100000);
    ABT_eventual_set(e2e_ev, NULL, 0);
    return NULL;
}

typedef struct {
    ABT_xstream es;
    ABT_sched_predef predef;
    ABT_pool *pp;
    int times;
} repl_arg;

static void replace_fn(void *a)
{
    repl_arg *r = (repl_arg *)a;
    int i;
    for (i = 0; i < r->times; i++)
        CK(ABT_xstream_set_main_sched_basic(r->es, r->predef, 1, r->pp));
}

/* a stream over a user-owned pool that earlier schedulers were attached to; a ULT of the pool is blocked at the join */
static int e2e_blocked(int pd, int kd, int ac, int via, int cycles)
{
    ABT_pool p;
    ABT_xstream es;
    ABT_xstream_state st;
    pthread_t wd, setter;
    size_t tot = 0, sz = 1;
    int i, rc, fin;
    wd_limit_s = 15;
    snprintf(cur_line, sizeof(cur_line), "e2e-blocked %d %d %d %d %d", pd, kd, ac, via, cycles);
    pthread_create(&wd, NULL, watchdog, NULL);
    CK(ABT_init(0, NULL));
    CK(ABT_eventual_create(0, &e2e_ev));
    CK(ABT_pool_create_basic(kinds[kd], accs[ac], ABT_FALSE, &p));
    if (via == 0) {
        /* earlier streams over the pool, joined and freed */
        for (i = 0; i < cycles; i++) {
            CK(ABT_xstream_create_basic(predefs[pd], 1, &p, ABT_SCHED_CONFIG_NULL, &es));
            if (i & 1)
                CK(ABT_xstream_join(es));
            CK(ABT_xstream_free(&es));
        }
        CK(ABT_xstream_create_basic(predefs[pd], 1, &p, ABT_SCHED_CONFIG_NULL, &es));
    } else if (via == 1) {
        /* earlier scheduler objects over the pool, created and freed without a stream */
        for (i = 0; i < cycles; i++) {
            ABT_sched s;
            CK(ABT_sched_create_basic(predefs[pd], 1, &p, ABT_SCHED_CONFIG_NULL, &s));
            CK(ABT_sched_free(&s));
        }
        CK(ABT_xstream_create_basic(predefs[pd], 1, &p, ABT_SCHED_CONFIG_NULL, &es));
    } else if (via == 2) {
        /* the stream's own earlier main schedulers over the pool, replaced */
        repl_arg ra;
        ABT_thread t;
        CK(ABT_xstream_create_basic(predefs[pd], 1, &p, ABT_SCHED_CONFIG_NULL, &es));
        ra.es = es;
        ra.predef = predefs[(pd + 1) % 4];
        ra.pp = &p;
        ra.times = cycles;
        CK(ABT_thread_create(p, replace_fn, &ra, ABT_THREAD_ATTR_NULL, &t));
        CK(ABT_thread_free(&t));
    } else if (via == 4) {
        /* a user-owned scheduler over the pool served earlier streams (joined and freed) and is used again */
        ABT_sched s;
        ABT_sched_config cfg = mk_config(0);
        CK(ABT_sched_create_basic(predefs[pd], 1, &p, cfg, &s));
        CK(ABT_sched_config_free(&cfg));
        for (i = 0; i < cycles; i++) {
            CK(ABT_xstream_create(s, &es));
            if (i & 1)
                CK(ABT_xstream_join(es));
            CK(ABT_xstream_free(&es));
        }
        CK(ABT_xstream_create(s, &es));
    } else {
        /* control: first use of the pool */
        CK(ABT_xstream_create_basic(predefs[pd], 1, &p, ABT_SCHED_CONFIG_NULL, &es));
    }
    op_seq++;
    CK(ABT_thread_create(p, blocked_fn, NULL, ABT_THREAD_ATTR_NULL, NULL));
    while (!e2e_started)
        usleep(500);
    do {
        CK(ABT_pool_get_total_size(p, &tot));
        CK(ABT_pool_get_size(p, &sz));
        usleep(200);
    } while (!(tot == 1 && sz == 0));
    op_seq++;
    pthread_create(&setter, NULL, setter_thread, NULL);
    rc = ABT_xstream_join(es);
    fin = e2e_finished;
    CK(ABT_xstream_get_state(es, &st));
    op_seq++;
    printf("e2e-blocked sched=%s pool=%s/%s via=%d cycles=%d: ABT_xstream_join rc=%d state=%s, ULT blocked in the pool "
           "finished at the return of join: %d (num_scheds=%d)\n",
           predef_names[pd], kind_names[kd], acc_names[ac], via, cycles, rc,
           st == ABT_XSTREAM_STATE_TERMINATED ? "TERMINATED" : "RUNNING", fin,
           (int)ABTD_atomic_acquire_load_int32(&ABTI_pool_get_ptr(p)->num_scheds));
    fflush(stdout);
    pthread_join(setter, NULL);
    _exit(rc == ABT_SUCCESS && fin && st == ABT_XSTREAM_STATE_TERMINATED ? 0 : 1);
}

typedef struct {
    ABT_xstream es;
    ABT_sched_predef predef;
    ABT_pool *pp;
} jr_arg;

static void replace_when_join_pending(void *a)
{
    jr_arg *r = (jr_arg *)a;
    ABTI_xstream *px = ABTI_xstream_get_ptr(r->es);
    /* wait until the join request is visible on the main-scheduler ULT (xstream_join has then also set FINISH on
     * the current main scheduler) */
    while (!(ABTD_atomic_acquire_load_uint32(&px->p_main_sched->p_ythread->thread.request) & ABTI_THREAD_REQ_JOIN))
        ABT_thread_yield();
    CK(ABT_xstream_set_main_sched_basic(r->es, r->predef, 1, r->pp));
    e2e_done = 1;
}

/* the main scheduler is replaced while a join of the stream is pending */
static int e2e_replace(int pd1, int pd2, int kd, int ac, int samepool, int use_free)
{
    ABT_pool p, p2;
    ABT_xstream es;
    pthread_t wd;
    jr_arg ja;
    int rc;
    wd_limit_s = 8;
    snprintf(cur_line, sizeof(cur_line),
             "e2e-replace %d %d %d %d %d %d: ABT_xstream_%s has not returned although every unit of the stream finished "
             "(the replacing ULT is done)",
             pd1, pd2, kd, ac, samepool, use_free, use_free ? "free" : "join");
    pthread_create(&wd, NULL, watchdog, NULL);
    CK(ABT_init(0, NULL));
    CK(ABT_pool_create_basic(kinds[kd], accs[ac], ABT_FALSE, &p));
    CK(ABT_pool_create_basic(kinds[kd], accs[ac], ABT_FALSE, &p2));
    CK(ABT_xstream_create_basic(predefs[pd1], 1, &p, ABT_SCHED_CONFIG_NULL, &es));
    ja.es = es;
    ja.predef = predefs[pd2];
    ja.pp = samepool ? &p : &p2;
    CK(ABT_thread_create(p, replace_when_join_pending, &ja, ABT_THREAD_ATTR_NULL, NULL));
    op_seq++;
    if (use_free)
        rc = ABT_xstream_free(&es);
    else
        rc = ABT_xstream_join(es);
    op_seq++;
    printf("e2e-replace sched=%s->%s pool=%s/%s samepool=%d: ABT_xstream_%s rc=%d, replacing ULT done=%d\n",
           predef_names[pd1], predef_names[pd2], kind_names[kd], acc_names[ac], samepool, use_free ? "free" : "join", rc,
           e2e_done);
    fflush(stdout);
    _exit(rc == ABT_SUCCESS && e2e_done ? 0 : 1);
}

int main(int argc, char **argv)
{
    if (argc == 1) {
        line_mode();
        return 0;
    }
    if (argc == 7 && !strcmp(argv[1], "e2e-blocked")) {
        int pd = atoi(argv[2]) & 3, kd = atoi(argv[3]) % 3, ac = atoi(argv[4]) % 5;
        return e2e_blocked(pd, kd, ac, atoi(argv[5]), atoi(argv[6]));
    }
    if (argc == 8 && !strcmp(argv[1], "e2e-replace")) {
        return e2e_replace(atoi(argv[2]) & 3, atoi(argv[3]) & 3, atoi(argv[4]) % 3, atoi(argv[5]) % 5, atoi(argv[6]),
                           atoi(argv[7]));
    }
    fprintf(stderr, "usage: wb_stop | wb_stop e2e-blocked PD KD AC VIA CYCLES | wb_stop e2e-replace PD1 PD2 KD AC SAME FREE\n");
    return 2;
}
