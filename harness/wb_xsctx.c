/* T3x (C17): src/arch/abtd_stream.c — the tree's own text — compiled with *virtual*
 * pthread primitives and driven through a given interleaving by a controller, event by
 * event; the same schedule is run through Lean Model.XsCtx (`driver xsctx`).
 *
 * Two real threads execute the real functions: T = the native thread created by
 * ABTD_xstream_context_create (runs xstream_context_thread_func), C = the caller
 * (runs ABTD_xstream_context_join / _revive / _free in the order given on the first
 * input line).  Every pthread_* call they make parks the thread; the controller (main)
 * reads one schedule line, applies the ideal-primitive semantics (mutex owner, condvar
 * wait set, chosen / spurious wake-up) and lets exactly that thread run to its next
 * pthread_* call.  Nothing runs concurrently, so runs are deterministic.
 *
 *   line 1:  ops join revive join free
 *   then  :  T | C | T C | C T          step that actor (2nd name: whom a signal should wake)
 *            spur T | spur C            spurious wake-up
 *   output:  <actor> <event>[ woke=<T|C|none>] st=<state> next=<next primitive of that actor>
 */
#include "abti.h"
#include <pthread.h>
#include <semaphore.h>
#include <stdio.h>
#include <stdlib.h>
#include <string.h>

enum { A_T = 0, A_C = 1 };
typedef enum {
    P_NONE, P_START, P_RET, P_LOCK, P_UNLOCK, P_WAIT, P_BLOCKED, P_RELOCK, P_SIGNAL, P_CALL, P_PJOIN, P_DONE
} prim_t;
static const char *pname[] = { "none", "start", "ret", "lock", "unlock", "wait", "blocked", "relock", "signal",
                               "call", "pjoin", "finished" };
static const char aname[] = { 'T', 'C' };

static volatile prim_t pending[2];
static volatile int pend_arg[2];
static sem_t go[2], parked;
static int owner = -1; /* virtual state_lock */
static __thread int me = -1;
static pthread_t real_T;

static void park(prim_t p, int arg)
{
    pending[me] = p;
    pend_arg[me] = arg;
    __sync_synchronize();
    sem_post(&parked);
    sem_wait(&go[me]);
}

static void vp_assert_fail(const char *expr, int line)
{
    printf("%c ASSERT-FAIL line=%d `%s`\n", me >= 0 ? aname[me] : '?', line, expr);
    fflush(stdout);
    _exit(3);
}

/* ---- virtual primitives seen by abtd_stream.c ---- */
static int vp_mutex_lock(pthread_mutex_t *m)
{
    (void)m;
    park(P_LOCK, 0);
    return 0;
}
static int vp_mutex_unlock(pthread_mutex_t *m)
{
    (void)m;
    park(P_UNLOCK, 0);
    return 0;
}
static int vp_cond_wait(pthread_cond_t *c, pthread_mutex_t *m)
{
    (void)c;
    (void)m;
    park(P_WAIT, 0);    /* granted: mutex released, we are in the wait set */
    park(P_BLOCKED, 0); /* controller turns this into P_RELOCK on wake-up and grants it when the mutex is free */
    return 0;
}
static int vp_cond_signal(pthread_cond_t *c)
{
    (void)c;
    park(P_SIGNAL, 0);
    return 0;
}
static void *(*t_func)(void *);
static void *t_arg;
static void *trampoline(void *a)
{
    (void)a;
    me = A_T;
    park(P_START, 0);
    t_func(t_arg);
    pending[A_T] = P_DONE;
    __sync_synchronize();
    sem_post(&parked);
    return NULL;
}
static int vp_create(pthread_t *th, const pthread_attr_t *at, void *(*f)(void *), void *arg)
{
    (void)at;
    t_func = f;
    t_arg = arg;
    int r = pthread_create(&real_T, NULL, trampoline, NULL);
    *th = real_T;
    return r;
}
static int vp_join(pthread_t th, void **ret)
{
    (void)th;
    park(P_PJOIN, 0);
    return pthread_join(real_T, ret);
}

/* ---- the tree's abtd_stream.c with the primitives redirected ---- */
#undef ABTI_ASSERT
#define ABTI_ASSERT(c)                                                                                                 \
    do {                                                                                                               \
        if (!(c))                                                                                                      \
            vp_assert_fail(#c, __LINE__);                                                                              \
    } while (0)
#define pthread_mutex_lock vp_mutex_lock
#define pthread_mutex_unlock vp_mutex_unlock
#define pthread_cond_wait vp_cond_wait
#define pthread_cond_signal vp_cond_signal
#define pthread_create vp_create
#define pthread_join vp_join
#define ABTD_xstream_context_create wb_ctx_create
#define ABTD_xstream_context_free wb_ctx_free
#define ABTD_xstream_context_join wb_ctx_join
#define ABTD_xstream_context_revive wb_ctx_revive
#define ABTD_xstream_context_set_self wb_ctx_set_self
#define ABTD_xstream_context_print wb_ctx_print
#include "arch/abtd_stream.c"
#undef pthread_mutex_lock
#undef pthread_mutex_unlock
#undef pthread_cond_wait
#undef pthread_cond_signal
#undef pthread_create
#undef pthread_join

static ABTD_xstream_context ctx;

static void *thread_f(void *arg)
{
    (void)arg;
    park(P_RET, 0); /* "thread_f returns" is a scheduling point */
    return NULL;
}

enum { OP_JOIN = 0, OP_REVIVE = 1, OP_FREE = 2 };
static const char *opname[] = { "join", "revive", "free" };
static int ops[64], nops;
static volatile int last_ret = -1; /* op that returned since the last park of C */

static void *caller(void *a)
{
    (void)a;
    me = A_C;
    int i;
    for (i = 0; i < nops; i++) {
        park(P_CALL, ops[i]);
        if (ops[i] == OP_JOIN)
            wb_ctx_join(&ctx);
        else if (ops[i] == OP_REVIVE)
            wb_ctx_revive(&ctx);
        else
            wb_ctx_free(&ctx);
        last_ret = ops[i];
    }
    pending[A_C] = P_DONE;
    __sync_synchronize();
    sem_post(&parked);
    return NULL;
}

static const char *stname(void)
{
    switch (ctx.state) {
        case ABTD_XSTREAM_CONTEXT_STATE_RUNNING: return "RUNNING";
        case ABTD_XSTREAM_CONTEXT_STATE_WAITING: return "WAITING";
        case ABTD_XSTREAM_CONTEXT_STATE_REQ_JOIN: return "REQ_JOIN";
        case ABTD_XSTREAM_CONTEXT_STATE_REQ_TERMINATE: return "REQ_TERMINATE";
        default: return "OTHER";
    }
}

static void show_next(int a)
{
    if (pending[a] == P_CALL)
        printf(" next=call-%s", opname[pend_arg[a]]);
    else
        printf(" next=%s", pname[pending[a]]);
}

/* let actor a run to its next primitive */
static void release(int a)
{
    sem_post(&go[a]);
    sem_wait(&parked);
}

static void step_actor(int a, int prefer)
{
    prim_t p = pending[a];
    int woke = -2;
    const char *ev = pname[p];
    char evbuf[32];
    switch (p) {
        case P_DONE:
            printf("%c finished\n", aname[a]);
            return;
        case P_LOCK:
        case P_RELOCK:
            if (owner != -1)
                goto disabled;
            owner = a;
            break;
        case P_UNLOCK:
            owner = -1;
            break;
        case P_WAIT:
            owner = -1;
            break;
        case P_BLOCKED:
            goto disabled;
        case P_SIGNAL: {
            int other = 1 - a;
            woke = -1;
            if (prefer >= 0 && pending[prefer] == P_BLOCKED)
                woke = prefer;
            else if (pending[A_T] == P_BLOCKED)
                woke = A_T;
            else if (pending[A_C] == P_BLOCKED)
                woke = A_C;
            (void)other;
            if (woke >= 0)
                pending[woke] = P_RELOCK;
            break;
        }
        case P_CALL:
            if (pend_arg[a] == OP_JOIN && pending[A_T] == P_START)
                goto disabled; /* environment: join is issued only after T passed its start-up assertion */
            snprintf(evbuf, sizeof evbuf, "call-%s", opname[pend_arg[a]]);
            ev = evbuf;
            break;
        case P_PJOIN:
            if (pending[A_T] != P_DONE)
                goto disabled;
            break;
        default:
            break;
    }
    last_ret = -1;
    if (p == P_RELOCK) {
        /* the thread is parked at its P_BLOCKED park; it resumes from there */
        release(a);
    } else {
        release(a);
    }
    printf("%c %s", aname[a], ev);
    if (woke != -2)
        printf(" woke=%s", woke == A_T ? "T" : woke == A_C ? "C" : "none");
    printf(" st=%s", stname());
    show_next(a);
    if (a == A_C && last_ret >= 0)
        printf(" returned=%s", opname[last_ret]);
    printf("\n");
    return;
disabled:
    printf("%c disabled\n", aname[a]);
}

int main(void)
{
    char line[256];
    setvbuf(stdout, NULL, _IOLBF, 0);
    sem_init(&go[0], 0, 0);
    sem_init(&go[1], 0, 0);
    sem_init(&parked, 0, 0);
    if (!fgets(line, sizeof line, stdin) || strncmp(line, "ops", 3) != 0) {
        printf("bad-op\n");
        return 2;
    }
    char *tok = strtok(line + 3, " \n");
    while (tok && nops < 64) {
        if (!strcmp(tok, "join"))
            ops[nops++] = OP_JOIN;
        else if (!strcmp(tok, "revive"))
            ops[nops++] = OP_REVIVE;
        else if (!strcmp(tok, "free"))
            ops[nops++] = OP_FREE;
        else {
            printf("bad-op\n");
            return 2;
        }
        tok = strtok(NULL, " \n");
    }
    /* ABTD_xstream_context_create happens before anything else (as in xstream_create) */
    me = -1;
    if (wb_ctx_create(thread_f, NULL, &ctx) != ABT_SUCCESS) {
        printf("create failed\n");
        return 2;
    }
    sem_wait(&parked); /* T parked at start */
    pthread_t cth;
    pthread_create(&cth, NULL, caller, NULL);
    sem_wait(&parked); /* C parked at its first call (or finished) */
    printf("ops ok st=%s\n", stname());
    while (fgets(line, sizeof line, stdin)) {
        char w1[16] = "", w2[16] = "";
        int n = sscanf(line, "%15s %15s", w1, w2);
        if (n < 1)
            continue;
        if (!strcmp(w1, "spur") && n == 2 && (w2[0] == 'T' || w2[0] == 'C') && !w2[1]) {
            int a = w2[0] == 'T' ? A_T : A_C;
            if (pending[a] == P_BLOCKED) {
                pending[a] = P_RELOCK;
                printf("%c spur st=%s next=relock\n", aname[a], stname());
            } else {
                printf("%c disabled\n", aname[a]);
            }
        } else if ((w1[0] == 'T' || w1[0] == 'C') && !w1[1] && (n == 1 || ((w2[0] == 'T' || w2[0] == 'C') && !w2[1]))) {
            int a = w1[0] == 'T' ? A_T : A_C;
            int prefer = n == 2 ? (w2[0] == 'T' ? A_T : A_C) : -1;
            step_actor(a, prefer);
        } else {
            printf("bad-op\n");
        }
        fflush(stdout);
    }
    fflush(stdout);
    _exit(0); /* threads may still be parked */
}
