/* API-level differential driver for the built-in pools (C07):  wb_poolapi <fifo|fifo_wait|randws>
 * One detached pool per access mode (ABT_pool_create_basic(kind, access, ABT_FALSE, …)), NU real work
 * units (ULTs and tasklets) that are created on a staging pool, popped back and never run.
 * Line protocol identical to `driver pool <kind>`.  Everything goes through the public ABT_pool_*
 * entry points (pool.c wrappers + the kind's pool functions + thread_queue).
 *
 * The harness refuses ("undefined") what the pools' contract forbids — pushing a unit that is in a
 * pool, removing from a non-empty pool a unit that sits in another pool — from its own shadow
 * bookkeeping, as the model does from its state. */
#include "abti.h"
#include <stdio.h>
#include <string.h>
#include <stdlib.h>

#define NP 5
#define NU 16
#define TINY 0.0003

static const ABT_pool_access accesses[NP] = { ABT_POOL_ACCESS_PRIV, ABT_POOL_ACCESS_SPSC, ABT_POOL_ACCESS_MPSC,
                                              ABT_POOL_ACCESS_SPMC, ABT_POOL_ACCESS_MPMC };
static ABT_pool pools[NP], stage;
static ABT_thread th[NU + 1];
static int where[NU + 1]; /* pool index or -1 */
static int cur = 0;

static void never_run(void *arg)
{
    (void)arg;
    fprintf(stderr, "a test unit was executed\n");
    abort();
}

#define CK(call)                                                                                                       \
    do {                                                                                                               \
        int rc_ = (call);                                                                                              \
        if (rc_ != ABT_SUCCESS) {                                                                                      \
            fprintf(stderr, "%s failed: %d\n", #call, rc_);                                                            \
            exit(3);                                                                                                   \
        }                                                                                                              \
    } while (0)

static long id_of(ABT_thread t)
{
    int i;
    if (t == ABT_THREAD_NULL)
        return 0;
    for (i = 1; i <= NU; i++)
        if (th[i] == t)
            return i;
    return -1;
}

static void tail2(void)
{
    size_t n = 9999;
    ABT_bool e = 77;
    CK(ABT_pool_get_size(pools[cur], &n));
    CK(ABT_pool_is_empty(pools[cur], &e));
    printf(" | n=%zu e=%d\n", n, e == ABT_TRUE ? 1 : 0);
}

static void report_pop(ABT_thread t)
{
    long id = id_of(t);
    if (id > 0)
        where[id] = -1;
    if (id == 0)
        printf("pop null");
    else if (id < 0)
        printf("pop ?");
    else
        printf("pop %ld", id);
    tail2();
}

/* parse up to max unit ids (1..NU) from s; returns count or -1 */
static int parse_units(char *s, long *out, int max)
{
    int n = 0;
    char *tok = strtok(s, " \n");
    while (tok) {
        char *end;
        long v = strtol(tok, &end, 10);
        if (*end || v < 1 || v > NU || n >= max || tok[0] == '-' || tok[0] == '+')
            return -1;
        out[n++] = v;
        tok = strtok(NULL, " \n");
    }
    return n;
}

static int parse_nat(const char *tok, unsigned long *out)
{
    char *end;
    if (!tok || !*tok || tok[0] == '-' || tok[0] == '+')
        return 0;
    *out = strtoul(tok, &end, 10);
    return *end == 0;
}

int main(int argc, char **argv)
{
    ABT_pool_kind kind;
    char line[1024];
    int i;
    if (argc != 2)
        return 2;
    if (!strcmp(argv[1], "fifo"))
        kind = ABT_POOL_FIFO;
    else if (!strcmp(argv[1], "fifo_wait"))
        kind = ABT_POOL_FIFO_WAIT;
    else if (!strcmp(argv[1], "randws"))
        kind = ABT_POOL_RANDWS;
    else
        return 2;
    setvbuf(stdout, NULL, _IOLBF, 0); /* a hang must not swallow the answers already given */
    CK(ABT_init(0, NULL));
    for (i = 0; i < NP; i++)
        CK(ABT_pool_create_basic(kind, accesses[i], ABT_FALSE, &pools[i]));
    CK(ABT_pool_create_basic(ABT_POOL_FIFO, ABT_POOL_ACCESS_MPMC, ABT_FALSE, &stage));
    for (i = 1; i <= NU; i++) {
        ABT_thread got;
        if (i % 2)
            CK(ABT_thread_create(stage, never_run, NULL, ABT_THREAD_ATTR_NULL, &th[i]));
        else
            CK(ABT_task_create(stage, never_run, NULL, &th[i]));
        CK(ABT_pool_pop_thread(stage, &got));
        if (got != th[i]) {
            fprintf(stderr, "staging pool returned another unit\n");
            return 3;
        }
        where[i] = -1;
    }

    while (fgets(line, sizeof line, stdin)) {
        char copy[1024], *w[4] = { 0, 0, 0, 0 };
        int nw = 0;
        char *rest = NULL;
        unsigned long a, b;
        ABT_pool pool = pools[cur];
        strcpy(copy, line);
        /* first word + raw rest */
        {
            char *p = copy;
            while (*p == ' ')
                p++;
            w[0] = p;
            while (*p && *p != ' ' && *p != '\n')
                p++;
            if (*p) {
                *p++ = 0;
                rest = p;
            } else
                rest = p;
            nw = *w[0] ? 1 : 0;
        }
        if (!nw)
            continue;
        if (!strcmp(w[0], "sel")) {
            char *t1 = strtok(rest, " \n"), *t2 = strtok(NULL, " \n");
            if (t1 && !t2 && parse_nat(t1, &a) && a < NP) {
                cur = (int)a;
                printf("ok\n");
            } else
                printf("bad-op\n");
        } else if (!strcmp(w[0], "push")) {
            char *t1 = strtok(rest, " \n"), *t2 = strtok(NULL, " \n"), *t3 = strtok(NULL, " \n");
            if (t1 && t2 && !t3 && parse_nat(t1, &a) && parse_nat(t2, &b) && a >= 1 && a <= NU) {
                if (where[a] != -1) {
                    printf("undefined\n");
                } else {
                    CK(ABT_pool_push_thread_ex(pool, th[a], (ABT_pool_context)b));
                    where[a] = cur;
                    printf("push ok");
                    tail2();
                }
            } else
                printf("bad-op\n");
        } else if (!strcmp(w[0], "push_many")) {
            char *t1 = strtok(rest, " \n");
            long us[NU + 1];
            int n;
            if (t1 && parse_nat(t1, &b) && (n = parse_units(strtok(NULL, "\n"), us, NU + 1)) >= 0) {
                ABT_thread arr[NU + 1];
                int bad = 0, j, k;
                for (j = 0; j < n; j++) {
                    if (where[us[j]] != -1)
                        bad = 1;
                    for (k = 0; k < j; k++)
                        if (us[k] == us[j])
                            bad = 1;
                    arr[j] = th[us[j]];
                }
                if (bad) {
                    printf("undefined\n");
                } else {
                    CK(ABT_pool_push_threads_ex(pool, arr, (size_t)n, (ABT_pool_context)b));
                    for (j = 0; j < n; j++)
                        where[us[j]] = cur;
                    printf("push_many ok");
                    tail2();
                }
            } else
                printf("bad-op\n");
        } else if (!strcmp(w[0], "pop") || !strcmp(w[0], "pop_wait")) {
            char *t1 = strtok(rest, " \n"), *t2 = strtok(NULL, " \n");
            if (t1 && !t2 && parse_nat(t1, &b)) {
                ABT_thread t = (ABT_thread)(uintptr_t)0x5a5a;
                if (w[0][3] == 0)
                    CK(ABT_pool_pop_thread_ex(pool, &t, (ABT_pool_context)b));
                else
                    CK(ABT_pool_pop_wait_thread_ex(pool, &t, TINY, (ABT_pool_context)b));
                report_pop(t);
            } else
                printf("bad-op\n");
        } else if (!strcmp(w[0], "pop_timedwait")) {
            if (strtok(rest, " \n")) {
                printf("bad-op\n");
            } else {
                ABT_unit unit = (ABT_unit)(uintptr_t)0x5a5a;
                ABT_thread t = ABT_THREAD_NULL;
                CK(ABT_pool_pop_timedwait(pool, &unit, ABT_get_wtime() + TINY));
                if (unit != ABT_UNIT_NULL)
                    CK(ABT_unit_get_thread(unit, &t));
                report_pop(t);
            }
        } else if (!strcmp(w[0], "pop_many")) {
            char *t1 = strtok(rest, " \n"), *t2 = strtok(NULL, " \n"), *t3 = strtok(NULL, " \n");
            if (t1 && t2 && !t3 && parse_nat(t1, &b) && parse_nat(t2, &a) && a <= 64) {
                ABT_thread arr[64];
                size_t num = (size_t)-7, j;
                CK(ABT_pool_pop_threads_ex(pool, arr, (size_t)a, &num, (ABT_pool_context)b));
                if (num == (size_t)-7) {
                    printf("pop_many untouched");
                } else {
                    printf("pop_many %zu:", num);
                    for (j = 0; j < num && j < 64; j++) {
                        long id = id_of(arr[j]);
                        if (id > 0)
                            where[id] = -1;
                        if (id < 0)
                            printf(" ?");
                        else
                            printf(" %ld", id);
                    }
                }
                tail2();
            } else
                printf("bad-op\n");
        } else if (!strcmp(w[0], "remove")) {
            char *t1 = strtok(rest, " \n"), *t2 = strtok(NULL, " \n");
            if (t1 && !t2 && parse_nat(t1, &a) && a >= 1 && a <= NU) {
                size_t n = 0;
                CK(ABT_pool_get_size(pool, &n));
                if (n != 0 && where[a] != -1 && where[a] != cur) {
                    printf("undefined\n");
                } else {
                    ABT_unit unit;
                    int rc;
                    CK(ABT_thread_get_unit(th[a], &unit));
                    rc = ABT_pool_remove(pool, unit);
                    if (rc == ABT_SUCCESS) {
                        where[a] = -1;
                        printf("remove ok");
                    } else if (rc == ABT_ERR_POOL)
                        printf("remove err_pool");
                    else
                        printf("remove err %d", rc);
                    tail2();
                }
            } else
                printf("bad-op\n");
        } else if (!strcmp(w[0], "size") && !strtok(rest, " \n")) {
            size_t n = 9999;
            CK(ABT_pool_get_size(pool, &n));
            printf("size %zu\n", n);
        } else if (!strcmp(w[0], "is_empty") && !strtok(rest, " \n")) {
            ABT_bool e = 77;
            CK(ABT_pool_is_empty(pool, &e));
            printf("empty %d\n", e == ABT_TRUE ? 1 : 0);
        } else {
            printf("bad-op\n");
        }
    }

    /* drain, free the never-run units without joining them, free the pools */
    for (i = 0; i < NP; i++) {
        while (1) {
            ABT_thread t;
            CK(ABT_pool_pop_thread(pools[i], &t));
            if (t == ABT_THREAD_NULL)
                break;
        }
    }
    {
        ABTI_global *p_global = ABTI_global_get_global();
        ABTI_local *p_local = ABTI_local_get_local();
        for (i = 1; i <= NU; i++)
            ABTI_thread_free(p_global, p_local, ABTI_thread_get_ptr(th[i]));
    }
    for (i = 0; i < NP; i++)
        CK(ABT_pool_free(&pools[i]));
    CK(ABT_pool_free(&stage));
    CK(ABT_finalize());
    return 0;
}
