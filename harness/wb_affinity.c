/* White-box differential driver for src/arch/abtd_affinity_parser.c (C20).
 * Includes the .c file to reach the static consume_* functions.
 * Lines (same protocol as `driver affinity`):
 *   int <hex> | pint <hex>     -> ok <val> <index> | fail
 *   sym <code> <hex>           -> ok <index> | fail
 *   parse <hex>                -> ok n=<lists> total=<ids> h=<hash> [ids] ... | err <code> */
#include "arch/abtd_affinity_parser.c"
#include <stdio.h>
#include "wb_hex.h"

static void print_list(const ABTD_affinity_list *l)
{
    uint32_t i, j;
    unsigned long total = 0;
    uint32_t h = 7;
    for (i = 0; i < l->num; i++) {
        const ABTD_affinity_id_list *q = l->p_id_lists[i];
        total += q->num;
        h = h * 31u + 0x9e3779b9u;
        for (j = 0; j < q->num; j++)
            h = h * 31u + (uint32_t)q->ids[j];
    }
    printf("ok n=%u total=%lu h=%u", l->num, total, h);
    if (total <= 256 && l->num <= 256) {
        for (i = 0; i < l->num; i++) {
            const ABTD_affinity_id_list *q = l->p_id_lists[i];
            printf(" [");
            for (j = 0; j < q->num; j++)
                printf(j ? " %d" : "%d", q->ids[j]);
            printf("]");
        }
    }
    printf("\n");
}

int main(void)
{
    setvbuf(stdout, NULL, _IOLBF, 0);
    static char line[1 << 20], hex[1 << 20];
    while (fgets(line, sizeof line, stdin)) {
        int code;
        if (line[0] == '\n')
            continue;
        if (sscanf(line, "int %1048575s", hex) == 1 || sscanf(line, "pint %1048575s", hex) == 1) {
            char *s = wb_unhex(hex);
            if (!s) {
                printf("bad-op\n");
                continue;
            }
            uint32_t idx = 0;
            int v = -777;
            int r = line[0] == 'i' ? consume_int(s, &idx, &v) : consume_pint(s, &idx, &v);
            if (r)
                printf("ok %d %u\n", v, idx);
            else
                printf("fail\n");
            free(s);
        } else if (sscanf(line, "sym %d %1048575s", &code, hex) == 2) {
            char *s = wb_unhex(hex);
            if (!s) {
                printf("bad-op\n");
                continue;
            }
            uint32_t idx = 0;
            if (consume_symbol(s, &idx, (char)code))
                printf("ok %u\n", idx);
            else
                printf("fail\n");
            free(s);
        } else if (sscanf(line, "parse %1048575s", hex) == 1) {
            char *s = wb_unhex(hex);
            if (!s) {
                printf("bad-op\n");
                continue;
            }
            ABTD_affinity_list *l = NULL;
            int r = ABTD_affinity_list_create(s, &l);
            if (r == ABT_SUCCESS) {
                print_list(l);
                ABTD_affinity_list_free(l);
            } else {
                printf("err %d\n", r);
            }
            free(s);
        } else {
            printf("bad-op\n");
        }
    }
    return 0;
}
