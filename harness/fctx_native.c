/* C02 (assembly half), native side of the differential: run the routines of the tree's
 * fcontext_x86_64_sysv_elf_gas.S (compiled into this program from the tree under check) on
 * the CPU from fully specified machine states and print the final machine state in the same
 * canonical format as `driver x86` (lean/Driver/X86.lean; the protocol is documented there).
 *
 * All state memory lives in one arena mapped at a fixed address, so addresses in the lines
 * are real addresses.  Code addresses are written as markers (MARK_*), translated on input
 * and output.  A fault while a routine runs is reported as `crash sig=<n>`.
 */
#define _GNU_SOURCE
#include <setjmp.h>
#include <signal.h>
#include <stdint.h>
#include <stdio.h>
#include <stdlib.h>
#include <string.h>
#include <sys/mman.h>
#include <unistd.h>

#define ARENA_BASE 0x100000000000ULL
#define ARENA_SIZE (1ULL << 20)
#define MARK_LAND_A 0xC0DE00000AULL
#define MARK_LAND_B 0xC0DE00000BULL
#define MARK_LAND_C 0xC0DE00000CULL
#define MARK_CB 0xC0DE0000CBULL

extern uint64_t fctx_in[16], fctx_out[16], fctx_in_mxcsr, fctx_in_fpucw, fctx_out_mxcsr, fctx_out_fpucw;
extern uint64_t fctx_out_pc, fctx_target, fctx_ncalls, fctx_call_arg[4], fctx_call_sp[4], fctx_call_watch[4];
extern uint64_t fctx_watch_addr;
void fctx_run(void);
void fctx_land_a(void), fctx_land_b(void), fctx_land_c(void), fctx_cb(void);

/* the routines under test (no prototypes needed: entered through fctx_run) */
void switch_fcontext(void), jump_fcontext(void), init_and_switch_fcontext(void), init_and_jump_fcontext(void),
    switch_with_call_fcontext(void), jump_with_call_fcontext(void), init_and_switch_with_call_fcontext(void),
    init_and_jump_with_call_fcontext(void), peek_fcontext(void);

static const struct {
    const char *name;
    void (*fn)(void);
} routines[] = {
    { "switch_fcontext", switch_fcontext },
    { "jump_fcontext", jump_fcontext },
    { "init_and_switch_fcontext", init_and_switch_fcontext },
    { "init_and_jump_fcontext", init_and_jump_fcontext },
    { "switch_with_call_fcontext", switch_with_call_fcontext },
    { "jump_with_call_fcontext", jump_with_call_fcontext },
    { "init_and_switch_with_call_fcontext", init_and_switch_with_call_fcontext },
    { "init_and_jump_with_call_fcontext", init_and_jump_with_call_fcontext },
    { "peek_fcontext", peek_fcontext },
};

static const char *regnames[16] = { "rax", "rbx", "rcx", "rdx", "rsi", "rdi", "rbp", "rsp",
                                    "r8",  "r9",  "r10", "r11", "r12", "r13", "r14", "r15" };

static uint64_t to_real(uint64_t v)
{
    if (v == MARK_LAND_A) return (uint64_t)(uintptr_t)fctx_land_a;
    if (v == MARK_LAND_B) return (uint64_t)(uintptr_t)fctx_land_b;
    if (v == MARK_LAND_C) return (uint64_t)(uintptr_t)fctx_land_c;
    if (v == MARK_CB) return (uint64_t)(uintptr_t)fctx_cb;
    return v;
}

static uint64_t to_canon(uint64_t v)
{
    if (v == (uint64_t)(uintptr_t)fctx_land_a) return MARK_LAND_A;
    if (v == (uint64_t)(uintptr_t)fctx_land_b) return MARK_LAND_B;
    if (v == (uint64_t)(uintptr_t)fctx_land_c) return MARK_LAND_C;
    if (v == (uint64_t)(uintptr_t)fctx_cb) return MARK_CB;
    return v;
}

#define MAXWIN 8
#define MAXWORDS 4096
static struct { uint64_t base, n; } wins[MAXWIN];
static int nwins;
static struct { uint64_t addr, val; } words[MAXWORDS];
static int nwords;
static uint64_t dummy_watch;
static sigjmp_buf recover;
static volatile sig_atomic_t running;
static char altstack[1 << 16];

static void on_fault(int sig)
{
    if (running) {
        running = 0;
        siglongjmp(recover, sig);
    }
    _exit(100 + sig);
}

static int in_arena(uint64_t a, uint64_t nbytes)
{
    return a >= ARENA_BASE && a + nbytes <= ARENA_BASE + ARENA_SIZE && (a & 7) == 0;
}

static uint64_t *shadow; /* canonical initial contents of the arena (only windows are meaningful) */

static int parse_line(char *line, void (**fn)(void))
{
    char *save = NULL;
    char *tok = strtok_r(line, " \t\r\n", &save);
    if (!tok) return -1;
    *fn = NULL;
    for (size_t i = 0; i < sizeof(routines) / sizeof(routines[0]); i++)
        if (!strcmp(tok, routines[i].name)) *fn = routines[i].fn;
    if (!*fn) return 0;
    memset(fctx_in, 0, sizeof(uint64_t) * 16);
    fctx_in_mxcsr = 0x1F80;
    fctx_in_fpucw = 0x037F;
    nwins = nwords = 0;
    fctx_watch_addr = (uint64_t)(uintptr_t)&dummy_watch;
    while ((tok = strtok_r(NULL, " \t\r\n", &save))) {
        char *eq = strchr(tok, '=');
        if (!eq) return 0;
        *eq = 0;
        const char *k = tok, *v = eq + 1;
        if (!strcmp(k, "win")) {
            char *comma = strchr(v, ',');
            if (!comma || nwins >= MAXWIN) return 0;
            wins[nwins].base = strtoull(v, NULL, 10);
            wins[nwins].n = strtoull(comma + 1, NULL, 10);
            if (!in_arena(wins[nwins].base, wins[nwins].n * 8)) return 0;
            nwins++;
            continue;
        }
        char *end;
        uint64_t val = strtoull(v, &end, 10);
        if (*end || end == v) return 0;
        if (!strcmp(k, "mxcsr")) { fctx_in_mxcsr = val; continue; }
        if (!strcmp(k, "fpucw")) { fctx_in_fpucw = val; continue; }
        if (!strcmp(k, "watch")) {
            if (!in_arena(val, 8)) return 0;
            fctx_watch_addr = val;
            continue;
        }
        int r;
        for (r = 0; r < 16; r++)
            if (!strcmp(k, regnames[r])) break;
        if (r < 16) { fctx_in[r] = to_real(val); continue; }
        if (k[0] == 'm') {
            uint64_t a = strtoull(k + 1, &end, 10);
            if (*end || !in_arena(a, 8) || nwords >= MAXWORDS) return 0;
            words[nwords].addr = a;
            words[nwords].val = val;
            nwords++;
            continue;
        }
        return 0;
    }
    /* MXCSR: only rounding mode, FTZ, DAZ may vary (all exceptions masked, no status flags);
     * x87 CW: only precision and rounding control (all exceptions masked) */
    if ((fctx_in_mxcsr & ~0xE040ULL) != 0x1F80 || (fctx_in_fpucw & ~0x0F00ULL) != 0x007F) return 0;
    return 1;
}

int main(void)
{
    void *p = mmap((void *)ARENA_BASE, ARENA_SIZE, PROT_READ | PROT_WRITE,
                   MAP_PRIVATE | MAP_ANONYMOUS | MAP_FIXED_NOREPLACE, -1, 0);
    if (p != (void *)ARENA_BASE) {
        fprintf(stderr, "fctx_native: cannot map arena at %#llx\n", (unsigned long long)ARENA_BASE);
        return 3;
    }
    shadow = calloc(ARENA_SIZE / 8, 8);
    if (!shadow) return 3;
    stack_t ss = { .ss_sp = altstack, .ss_size = sizeof(altstack), .ss_flags = 0 };
    sigaltstack(&ss, NULL);
    struct sigaction sa;
    memset(&sa, 0, sizeof(sa));
    sa.sa_handler = on_fault;
    sa.sa_flags = SA_ONSTACK | SA_NODEFER;
    sigaction(SIGSEGV, &sa, NULL);
    sigaction(SIGBUS, &sa, NULL);
    sigaction(SIGILL, &sa, NULL);
    sigaction(SIGFPE, &sa, NULL);
    sigaction(SIGTRAP, &sa, NULL);

    static char line[1 << 18];
    static char out[1 << 18];
    while (fgets(line, sizeof(line), stdin)) {
        void (*fn)(void);
        int ok = parse_line(line, &fn);
        if (ok < 0) continue;
        if (!ok) {
            puts("bad-op");
            continue;
        }
        /* memory state: windows zeroed, then the given words */
        for (int w = 0; w < nwins; w++)
            memset((void *)(uintptr_t)wins[w].base, 0, wins[w].n * 8);
        for (int w = 0; w < nwins; w++)
            memset(&shadow[(wins[w].base - ARENA_BASE) / 8], 0, wins[w].n * 8);
        for (int i = 0; i < nwords; i++) {
            *(uint64_t *)(uintptr_t)words[i].addr = to_real(words[i].val);
            shadow[(words[i].addr - ARENA_BASE) / 8] = words[i].val;
        }
        fctx_target = (uint64_t)(uintptr_t)fn;
        fctx_ncalls = 0;
        fctx_out_pc = 0;
        memset(fctx_call_arg, 0, 32);
        memset(fctx_call_sp, 0, 32);
        memset(fctx_call_watch, 0, 32);
        int sig = sigsetjmp(recover, 1);
        if (sig == 0) {
            running = 1;
            fctx_run();
            running = 0;
        } else {
            /* FP control state is whatever the routine left: reset to the process default */
            unsigned int mx = 0x1F80;
            unsigned short cw = 0x037F;
            __asm__ volatile("ldmxcsr %0; fldcw %1" : : "m"(mx), "m"(cw));
            printf("crash sig=%d calls=%llu\n", sig, (unsigned long long)fctx_ncalls);
            continue;
        }
        char *o = out;
        static const uint64_t pcmark[4] = { 0, MARK_LAND_A, MARK_LAND_B, MARK_LAND_C };
        o += sprintf(o, "pc=%llu", (unsigned long long)pcmark[fctx_out_pc & 3]);
        for (int r = 0; r < 16; r++)
            o += sprintf(o, " %s=%llu", regnames[r], (unsigned long long)to_canon(fctx_out[r]));
        o += sprintf(o, " mxcsr=%llu fpucw=%llu calls=%llu", (unsigned long long)(fctx_out_mxcsr & 0xFFFFFFFFULL),
                     (unsigned long long)(fctx_out_fpucw & 0xFFFFULL), (unsigned long long)fctx_ncalls);
        for (uint64_t c = 0; c < fctx_ncalls && c < 4; c++)
            o += sprintf(o, " c=%llu,%llu,%llu,%llu", (unsigned long long)MARK_CB,
                         (unsigned long long)to_canon(fctx_call_arg[c]), (unsigned long long)fctx_call_sp[c],
                         (unsigned long long)to_canon(fctx_call_watch[c]));
        for (int w = 0; w < nwins; w++)
            for (uint64_t i = 0; i < wins[w].n; i++) {
                uint64_t a = wins[w].base + 8 * i;
                uint64_t v = to_canon(*(uint64_t *)(uintptr_t)a);
                if (v != shadow[(a - ARENA_BASE) / 8]) o += sprintf(o, " d%llu=%llu", (unsigned long long)a, (unsigned long long)v);
            }
        puts(out);
    }
    return 0;
}
