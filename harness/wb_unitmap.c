/* White-box differential driver for the unit -> work-unit table of src/unit.c (C14).
 * Includes unit.c so that the tree's own static functions (hash function included)
 * are the ones exercised.  Unit handles are arbitrary even non-zero integers chosen
 * by the check so that buckets collide; "threads" are opaque ids (never dereferenced).
 * malloc failure is injected by routing the posix_memalign used by ABTU_malloc through
 * a wrapper.  Line protocol identical to `driver unitmap`:
 *   new | map U T | mapf U T (malloc fails) | unmap U | get U | stress N K ROUNDS */
#include <stdlib.h>
#include <stdio.h>
#include <string.h>
#include <pthread.h>

static int wb_fail_next;
static int wb_posix_memalign(void **p, size_t a, size_t n)
{
    if (wb_fail_next) {
        wb_fail_next = 0;
        return 12; /* ENOMEM */
    }
    return (posix_memalign)(p, a, n);
}
#define posix_memalign(p, a, n) wb_posix_memalign(p, a, n)
#include "unit.c"
#undef posix_memalign

static ABTI_global *g;

static void table_free(void)
{
    if (!g)
        return;
    for (int i = 0; i < (int)ABTI_UNIT_HASH_TABLE_SIZE; i++) {
        unit_to_thread *c = atomic_relaxed_load_unit_to_thread(&g->unit_to_thread_entires[i].list);
        while (c) {
            unit_to_thread *n = c->p_next;
            free(c);
            c = n;
        }
    }
    free(g);
    g = NULL;
}

static void dump_bucket(ABT_unit unit)
{
    size_t i = unit_get_hash_index(unit);
    unit_to_thread *c = atomic_relaxed_load_unit_to_thread(&g->unit_to_thread_entires[i].list);
    printf(" | b%zu:", i);
    for (; c; c = c->p_next) {
        ABT_unit u = atomic_relaxed_load_unit(&c->unit);
        if (u == ABT_UNIT_NULL)
            printf(" -");
        else
            printf(" %lu>%lu", (unsigned long)(uintptr_t)u, (unsigned long)(uintptr_t)c->p_thread);
    }
    printf("\n");
}

/* ---- concurrent stress: N threads, each owns K units (all in few buckets) ---- */
typedef struct {
    int id, k, rounds;
    unsigned long *units;
    volatile int *go;
    long errors;
} stress_arg;

static void *stress_main(void *p)
{
    stress_arg *a = (stress_arg *)p;
    while (!*a->go)
        ;
    for (int r = 0; r < a->rounds; r++) {
        for (int i = 0; i < a->k; i++) {
            ABT_unit u = (ABT_unit)(uintptr_t)a->units[i];
            ABTI_thread *th = (ABTI_thread *)(uintptr_t)(a->units[i] * 16 + (unsigned)r % 7 * 2);
            if (unit_map_thread(g, u, th) != ABT_SUCCESS) {
                a->errors++;
                continue;
            }
            /* look up this and the previously mapped units of this thread */
            for (int j = 0; j <= i; j++) {
                ABT_unit uj = (ABT_unit)(uintptr_t)a->units[j];
                ABTI_thread *exp = (ABTI_thread *)(uintptr_t)(a->units[j] * 16 + (unsigned)r % 7 * 2);
                if (unit_get_thread_from_user_defined_unit(g, uj) != exp)
                    a->errors++;
            }
        }
        /* unmap in an order that changes from round to round */
        for (int i = a->k - 1; i >= 0; i--) {
            ABT_unit u = (ABT_unit)(uintptr_t)a->units[(i + r) % a->k];
            unit_unmap_thread(g, u);
        }
    }
    return NULL;
}

static unsigned long nth_unit_in_buckets(unsigned long n, int nbuckets)
{
    /* n-th even non-zero value whose hash index is < nbuckets */
    unsigned long v = 0, c = 0;
    for (;;) {
        v += 8;
        if (unit_get_hash_index((ABT_unit)(uintptr_t)v) < (size_t)nbuckets) {
            if (c == n)
                return v;
            c++;
        }
    }
}

int main(void)
{
    char line[256];
    setvbuf(stdout, NULL, _IOLBF, 1 << 16);
    while (fgets(line, sizeof line, stdin)) {
        unsigned long u, t;
        int n, k, rounds;
        if (!strncmp(line, "new", 3)) {
            table_free();
            g = (ABTI_global *)calloc(1, sizeof(ABTI_global));
            unit_init_hash_table(g);
            printf("ok\n");
        } else if (!g) {
            printf("bad-op\n");
        } else if (sscanf(line, "map %lu %lu", &u, &t) == 2 && u != 0 && !(u & 1)) {
            int r = unit_map_thread(g, (ABT_unit)(uintptr_t)u, (ABTI_thread *)(uintptr_t)t);
            printf("map %d", r);
            dump_bucket((ABT_unit)(uintptr_t)u);
        } else if (sscanf(line, "mapf %lu %lu", &u, &t) == 2 && u != 0 && !(u & 1)) {
            wb_fail_next = 1;
            int r = unit_map_thread(g, (ABT_unit)(uintptr_t)u, (ABTI_thread *)(uintptr_t)t);
            wb_fail_next = 0;
            printf("map %d", r);
            dump_bucket((ABT_unit)(uintptr_t)u);
        } else if (sscanf(line, "unmap %lu", &u) == 1 && u != 0 && !(u & 1)) {
            unit_unmap_thread(g, (ABT_unit)(uintptr_t)u);
            printf("unmap");
            dump_bucket((ABT_unit)(uintptr_t)u);
        } else if (sscanf(line, "get %lu", &u) == 1 && u != 0 && !(u & 1)) {
            ABTI_thread *th = unit_get_thread_from_user_defined_unit(g, (ABT_unit)(uintptr_t)u);
            printf("get %lu\n", (unsigned long)(uintptr_t)th);
        } else if (sscanf(line, "stress %d %d %d", &n, &k, &rounds) == 3 && n >= 1 && n <= 16 && k >= 1 && k <= 64) {
            /* fresh table; units of all threads fall into 2 buckets */
            table_free();
            g = (ABTI_global *)calloc(1, sizeof(ABTI_global));
            unit_init_hash_table(g);
            pthread_t th[16];
            stress_arg a[16];
            volatile int go = 0;
            for (int i = 0; i < n; i++) {
                a[i].id = i;
                a[i].k = k;
                a[i].rounds = rounds;
                a[i].go = &go;
                a[i].errors = 0;
                a[i].units = (unsigned long *)malloc(sizeof(unsigned long) * k);
                for (int j = 0; j < k; j++)
                    a[i].units[j] = nth_unit_in_buckets((unsigned long)(i * k + j), 2);
                pthread_create(&th[i], NULL, stress_main, &a[i]);
            }
            go = 1;
            long errs = 0;
            for (int i = 0; i < n; i++) {
                pthread_join(th[i], NULL);
                errs += a[i].errors;
                free(a[i].units);
            }
            /* afterwards every element must be a tombstone */
            long live = 0;
            for (int i = 0; i < (int)ABTI_UNIT_HASH_TABLE_SIZE; i++)
                for (unit_to_thread *c = atomic_relaxed_load_unit_to_thread(&g->unit_to_thread_entires[i].list); c;
                     c = c->p_next)
                    live += atomic_relaxed_load_unit(&c->unit) != ABT_UNIT_NULL;
            if (errs == 0 && live == 0)
                printf("stress ok\n");
            else
                printf("stress FAIL errors=%ld live=%ld\n", errs, live);
            /* continue with a fresh table (the model does the same) */
            table_free();
            g = (ABTI_global *)calloc(1, sizeof(ABTI_global));
            unit_init_hash_table(g);
        } else if (line[0] != '\n') {
            printf("bad-op\n");
        }
    }
    table_free();
    return 0;
}
