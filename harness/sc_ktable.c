/* vsched scenario for C16 (concurrent half): work-unit-local storage of ONE work unit accessed by its owner and by
 * other work units / external threads at the same time.
 * usage: sc_ktable <seed> <mode> <log> <nes> <nactors> <rounds> <nkeys> <tablesize> [ext%] [get%]
 *
 *   A0 is the owner: a ULT created with a migration callback attribute, so its key table already exists when it
 *   becomes visible (ythread_create -> ABTI_ktable_set_unsafe: the non-safe variant on a private table).  It uses
 *   ABT_key_set / ABT_self_set_specific / ABT_key_get / ABT_self_get_specific on itself.  A1.. (ULTs on any stream,
 *   external threads) use ABT_thread_set_specific / ABT_thread_get_specific on A0.  Keys are consecutive ids, so with
 *   ABT_KEY_TABLE_SIZE = 1, 2 or 4 they collide in a bucket.
 *
 * What the trace shows (vlib/t3_ktable.py projects it onto Model.KTableConc): the table block is named KT, every
 * element KE<n> (named by an atomic-op callback at the store that initialises its p_next, i.e. before it is
 * published), so every acquire-load of a chain link, the spinlock tas/clear and the release-store that publishes are
 * logged.  `kt begin/end` notes bracket each call; they are notes, not schedule points: under vsched the plain
 * `value` store / read happens atomically with the preceding atomic operation and with the end note.
 *
 * Native monitors (plain C, atomic between hook points):
 *   - every get returns NULL only if no set of that key completed before the get began, else the value of a set that
 *     began before the get ended and was not overwritten by a set that lies entirely between it and the get;
 *   - after all actors joined, every key holds the value of a set that no other set of that key follows entirely
 *     (NULL iff it was never set); the chains hold every key exactly once;
 *   - when the owner is freed, each key's destructor runs exactly once with that final value iff both are non-NULL. */
#include "sc_common.h"
#include <sched.h>

#define MAXSHARED 8
#define OWNKEYS 2 /* keys every actor creates itself, concurrently with the others */
#define MAXKEYS (MAXSHARED + MAX_ACTORS * OWNKEYS)
#define MAXOPS 4096

static int rounds = 4, nkeys = 3, tblsize = 1, getpct = 35;
static ABT_key keys[MAXKEYS];
static uint32_t keyid[MAXKEYS];
static int keydt[MAXKEYS];
static volatile int keyready[MAXKEYS];
static int nshared;
/* ---- key creation: ids must be pairwise distinct and outside the runtime's reserved range ---- */
static __thread int in_keycreate;
static int gkey_named;
static uint32_t ids_seen[MAXKEYS + 8];
static int nids;
static ABT_thread owner;
static ABTI_thread *p_owner;
static volatile int go, others_done;
static int n_others;

/* ---- destructor log ---- */
static struct {
    int fn;
    unsigned long v;
} dcalls[256];
static int ndcalls;
static void dt1(void *v)
{
    if (ndcalls < 256) {
        dcalls[ndcalls].fn = 1;
        dcalls[ndcalls++].v = (unsigned long)(uintptr_t)v;
    }
}
static void dt2(void *v)
{
    if (ndcalls < 256) {
        dcalls[ndcalls].fn = 2;
        dcalls[ndcalls++].v = (unsigned long)(uintptr_t)v;
    }
}
static void create_key(int actor, int idx)
{
    keydt[idx] = sc_rnd(3);
    vs_log("kc begin A%d", actor);
    in_keycreate = 1;
    int rc = ABT_key_create(keydt[idx] == 0 ? NULL : keydt[idx] == 1 ? dt1 : dt2, &keys[idx]);
    in_keycreate = 0;
    keyid[idx] = rc == ABT_SUCCESS ? ABTI_key_get_ptr(keys[idx])->id : 0;
    vs_note("kc end A%d id=%u rc=%d", actor, keyid[idx], rc);
    VSA_CHECK(rc == ABT_SUCCESS, "ABT_key_create by A%d returned %d", actor, rc);
    VSA_CHECK(keyid[idx] >= ABTI_KEY_ID_END_, "ABT_key_create by A%d handed out the reserved key id %u", actor, keyid[idx]);
    for (int i = 0; i < nids; i++)
        VSA_CHECK(ids_seen[i] != keyid[idx], "ABT_key_create by A%d returned key id %u which another live key already has", actor,
                  keyid[idx]);
    ids_seen[nids++] = keyid[idx];
    vs_note("kt key %d id=%u dtor=%d", idx, keyid[idx], keydt[idx]);
    keyready[idx] = 1;
}

static void mig_cb(ABT_thread t, void *arg)
{
    (void)t;
    (void)arg;
}

/* ---- operation history for the monitors ---- */
typedef struct {
    int key, isset, actor;
    unsigned long v; /* set: value written; get: value returned */
    long t0, t1;     /* logical begin / end times; t1 < 0 while in progress */
} oprec;
static oprec ops[MAXOPS];
static int nops;
static long ltime;

static void check_get(int g)
{
    /* is ops[g].v an admissible answer? */
    oprec *G = &ops[g];
    if (G->v == 0) {
        for (int i = 0; i < nops; i++)
            if (ops[i].isset && ops[i].key == G->key && ops[i].t1 >= 0 && ops[i].t1 < G->t0 && ops[i].v != 0) {
                /* a non-NULL set completed before the get began: NULL only if a NULL set may follow it */
                int covered = 0;
                for (int j = 0; j < nops; j++)
                    if (ops[j].isset && ops[j].key == G->key && ops[j].v == 0 && ops[j].t0 < G->t1 &&
                        (ops[j].t1 < 0 || ops[j].t1 > ops[i].t0))
                        covered = 1;
                if (!covered) {
                    vs_fail("get of key %u by A%d returned NULL although set(%lu) by A%d completed before the get began", keyid[G->key],
                            G->actor, ops[i].v, ops[i].actor);
                    return;
                }
            }
        return;
    }
    for (int i = 0; i < nops; i++) {
        oprec *S = &ops[i];
        if (!S->isset || S->key != G->key || S->v != G->v || S->t0 > G->t1)
            continue;
        /* S began before the get ended; is it hidden by a set lying entirely between S and the get? */
        int hidden = 0;
        for (int j = 0; j < nops && S->t1 >= 0; j++)
            if (ops[j].isset && ops[j].key == G->key && j != i && ops[j].t0 > S->t1 && ops[j].t1 >= 0 && ops[j].t1 < G->t0)
                hidden = 1;
        if (!hidden)
            return;
    }
    vs_fail("get of key %u by A%d returned %lu which no admissible set wrote", keyid[G->key], G->actor, G->v);
}

static int final_ok(int k, unsigned long v)
{
    int any = 0;
    for (int i = 0; i < nops; i++) {
        oprec *S = &ops[i];
        if (!S->isset || S->key != k)
            continue;
        any = 1;
        if (S->v != v)
            continue;
        int followed = 0;
        for (int j = 0; j < nops; j++)
            if (ops[j].isset && ops[j].key == k && j != i && ops[j].t0 > S->t1)
                followed = 1;
        if (!followed)
            return 1;
    }
    return !any && v == 0;
}

/* ---- naming of the table and of new elements ---- */
static ABTI_ktable *p_kt;
static int nelem;
static ABTI_ktelem *elems[512];
static __thread int cur_set_key = -1; /* key index the calling thread is setting */

static void name_elem(ABTI_ktelem *e)
{
    if (nelem < 512)
        elems[nelem] = e;
    vs_name(e, sizeof(ABTI_ktelem), "KE%d", nelem);
    vs_note("kt elem KE%d raw=%lu key=%u", nelem, (unsigned long)(uintptr_t)e, e->key_id);
    nelem++;
}

static void on_atomic(int kind, int width, const volatile void *addr, uint64_t a, uint64_t b)
{
    (void)b;
    if (in_keycreate && !gkey_named && width == 4) {
        /* the first 32-bit atomic access inside ABT_key_create is the id counter `g_key_id` (static in key.c) */
        uint32_t cur = *(const volatile uint32_t *)addr;
        if (cur >= ABTI_KEY_ID_END_ && cur < (1u << 20)) {
            vs_name((const void *)addr, 4, "GKEYID");
            vs_note("kc counter start=%u", cur);
            gkey_named = 1;
        }
    }
    /* `ABTD_atomic_relaxed_store_ptr(&p_elem->p_next, NULL)` of ABTI_ktable_set_impl: the new element is complete but
     * not yet reachable.  Name it now so that every later access to its link is in the log. */
    if (kind != 2 || width != 8 || a != 0 || cur_set_key < 0)
        return;
    ABTI_ktelem *e = (ABTI_ktelem *)((char *)addr - offsetof(ABTI_ktelem, p_next));
    if (e->key_id != keyid[cur_set_key])
        return;
    name_elem(e);
}

static void name_table(void)
{
    p_kt = (ABTI_ktable *)ABTD_atomic_acquire_load_ptr(&p_owner->p_keytable);
    VSA_CHECK(ABTI_ktable_is_valid(p_kt), "owner has no key table after creation with a migration callback");
    if (!ABTI_ktable_is_valid(p_kt))
        return;
    size_t tsz = offsetof(ABTI_ktable, p_elems) + sizeof(ABTD_atomic_ptr) * (size_t)p_kt->size;
    vs_name(p_kt, tsz, "KT");
    vs_note("kt table raw=%lu size=%d elems=%zu lock=%zu next=%zu", (unsigned long)(uintptr_t)p_kt, p_kt->size,
            offsetof(ABTI_ktable, p_elems), offsetof(ABTI_ktable, lock), offsetof(ABTI_ktelem, p_next));
    for (int b = 0; b < p_kt->size; b++) {
        int j = 0;
        for (ABTI_ktelem *e = (ABTI_ktelem *)ABTD_atomic_relaxed_load_ptr(&p_kt->p_elems[b]); e;
             e = (ABTI_ktelem *)ABTD_atomic_relaxed_load_ptr(&e->p_next), j++) {
            vs_note("kt pre KE%d key=%u b=%d j=%d dtor=%d", nelem, e->key_id, b, j, e->f_destructor ? 9 : 0);
            name_elem(e);
        }
    }
}

static void relax(actor *a)
{
    if (a->kind == AK_ULT)
        ABT_thread_yield();
    else
        sched_yield();
}

static void do_set(actor *a, int k, unsigned long v)
{
    int me = nops < MAXOPS ? nops++ : MAXOPS - 1;
    ops[me] = (oprec){ k, 1, a->id, v, ++ltime, -1 };
    cur_set_key = k;
    vs_log("kt begin A%d set key=%u v=%lu", a->id, keyid[k], v);
    int rc;
    if (a->id == 0)
        rc = sc_rnd(2) ? ABT_key_set(keys[k], (void *)(uintptr_t)v) : ABT_self_set_specific(keys[k], (void *)(uintptr_t)v);
    else
        rc = ABT_thread_set_specific(owner, keys[k], (void *)(uintptr_t)v);
    vs_note("kt end A%d set rc=%d", a->id, rc);
    cur_set_key = -1;
    ops[me].t1 = ++ltime;
    VSA_CHECK(rc == ABT_SUCCESS, "set of key %u by A%d returned %d", keyid[k], a->id, rc);
}

static void do_get(actor *a, int k)
{
    int me = nops < MAXOPS ? nops++ : MAXOPS - 1;
    ops[me] = (oprec){ k, 0, a->id, 0, ++ltime, -1 };
    void *v = (void *)(uintptr_t)0xdead;
    vs_log("kt begin A%d get key=%u", a->id, keyid[k]);
    int rc;
    if (a->id == 0)
        rc = sc_rnd(2) ? ABT_key_get(keys[k], &v) : ABT_self_get_specific(keys[k], &v);
    else
        rc = ABT_thread_get_specific(owner, keys[k], &v);
    vs_note("kt end A%d get v=%lu", a->id, (unsigned long)(uintptr_t)v);
    ops[me].v = (unsigned long)(uintptr_t)v;
    ops[me].t1 = ++ltime;
    VSA_CHECK(rc == ABT_SUCCESS, "get of key %u by A%d returned %d", keyid[k], a->id, rc);
    check_get(me);
}

static void body(actor *a)
{
    while (!go)
        relax(a);
    for (int j = 0; j < OWNKEYS; j++) {
        create_key(a->id, MAXSHARED + a->id * OWNKEYS + j);
        if (sc_rnd(2))
            relax(a);
    }
    for (int r = 0; r < rounds; r++) {
        int k;
        do { /* a shared key, or a key some actor has created by now */
            k = sc_rnd(3) ? sc_rnd(nshared) : MAXSHARED + sc_rnd(sc_nactors * OWNKEYS);
        } while (!keyready[k]);
        if (sc_rnd(100) < getpct)
            do_get(a, k);
        else
            do_set(a, k, sc_rnd(12) == 0 ? 0UL : (unsigned long)(a->id * 100000 + r * 100 + k + 1));
        if (sc_rnd(3) == 0)
            relax(a);
    }
    if (a->id == 0) {
        /* the owner stays alive (its table with it) until nobody else can touch it */
        while (others_done < n_others)
            relax(a);
    } else {
        others_done++;
    }
}

int main(int argc, char **argv)
{
    vsa_setup(argc, argv);
    int nes = (int)vsa_param(0, 2), nact = (int)vsa_param(1, 3);
    rounds = (int)vsa_param(2, 4);
    nkeys = (int)vsa_param(3, 3);
    tblsize = (int)vsa_param(4, 1);
    int extpct = (int)vsa_param(5, 25);
    getpct = (int)vsa_param(6, 35);
    if (nes > MAX_ES)
        nes = MAX_ES;
    if (nes < 1)
        nes = 1;
    if (nact < 2)
        nact = 2;
    if (nact > MAX_ACTORS)
        nact = MAX_ACTORS;
    if (nkeys < 1)
        nkeys = 1;
    if (nkeys > MAXSHARED)
        nkeys = MAXSHARED;
    nshared = nkeys;
    char buf[32];
    snprintf(buf, sizeof buf, "%d", tblsize);
    setenv("ABT_KEY_TABLE_SIZE", buf, 1);
    ABT_init(0, NULL);
    vsa_begin();
    vs_set_atomic_fn(on_atomic);
    vs_note("scenario ktable nes=%d nact=%d rounds=%d nkeys=%d tablesize=%d", nes, nact, rounds, nkeys, tblsize);
    sc_streams(nes, ABT_SCHED_BASIC);
    vs_note("kc idend %d", (int)ABTI_KEY_ID_END_);
    for (int i = 0; i < nshared; i++)
        create_key(99, i);
    sc_nactors = nact;
    n_others = nact - 1;
    for (int i = 0; i < nact; i++) {
        actor *a = &sc_actors[i];
        a->id = i;
        a->kind = (i > 0 && sc_rnd(100) < extpct) ? AK_EXT : AK_ULT;
        a->es = sc_rnd(nes);
        a->body = body;
        vs_note("actor A%d kind=%s es=%d", i, AKN[a->kind], a->es);
    }
    /* the owner first: created with a migration callback, so ythread_create builds its table (non-safe variant) */
    {
        ABT_thread_attr attr;
        ABT_OK(ABT_thread_attr_create(&attr));
        ABT_OK(ABT_thread_attr_set_callback(attr, mig_cb, NULL));
        ABT_OK(ABT_thread_create(sc_pool[sc_actors[0].es], sc_actor_entry, &sc_actors[0], attr, &sc_actors[0].th));
        ABT_OK(ABT_thread_attr_free(&attr));
        owner = sc_actors[0].th;
        p_owner = ABTI_thread_get_ptr(owner);
        vsa_name_thread(owner, "A0");
        name_table();
    }
    for (int i = 1; i < nact; i++) {
        actor *a = &sc_actors[i];
        if (a->kind == AK_ULT) {
            ABT_OK(ABT_thread_create(sc_pool[a->es], sc_actor_entry, a, ABT_THREAD_ATTR_NULL, &a->th));
            vsa_name_thread(a->th, "A%d", i);
        } else {
            pthread_create(&a->pt, NULL, sc_actor_entry_pt, a);
        }
    }
    go = 1;
    /* join everybody (the owner returns last), then inspect, then free */
    for (int i = 0; i < nact; i++)
        if (sc_actors[i].kind != AK_EXT)
            ABT_OK(ABT_thread_join(sc_actors[i].th));
    for (int i = 0; i < nact; i++) {
        if (sc_actors[i].kind == AK_EXT)
            pthread_join(sc_actors[i].pt, NULL);
        VSA_CHECK(sc_actors[i].started == 1 && sc_actors[i].finished == 1, "actor A%d started=%d finished=%d", i, sc_actors[i].started,
                  sc_actors[i].finished);
    }
    unsigned long finalv[MAXKEYS] = { 0 };
    for (int k = 0; k < MAXKEYS; k++) {
        if (!keyready[k])
            continue;
        void *v = NULL;
        ABT_OK(ABT_thread_get_specific(owner, keys[k], &v));
        finalv[k] = (unsigned long)(uintptr_t)v;
        VSA_CHECK(final_ok(k, finalv[k]), "after all sets returned key %u holds %lu, which is not the value of a last set", keyid[k],
                  finalv[k]);
    }
    if (p_kt && ABTI_ktable_is_valid(p_kt)) {
        /* every key at most once in the chains, in its own bucket */
        int seen[MAXKEYS] = { 0 };
        for (int b = 0; b < p_kt->size; b++)
            for (ABTI_ktelem *e = (ABTI_ktelem *)ABTD_atomic_relaxed_load_ptr(&p_kt->p_elems[b]); e;
                 e = (ABTI_ktelem *)ABTD_atomic_relaxed_load_ptr(&e->p_next)) {
                VSA_CHECK((int)(e->key_id & (uint32_t)(p_kt->size - 1)) == b, "element of key %u sits in bucket %d", e->key_id, b);
                for (int k = 0; k < MAXKEYS; k++)
                    if (keyready[k] && keyid[k] == e->key_id)
                        seen[k]++;
            }
        for (int k = 0; k < MAXKEYS; k++) {
        if (!keyready[k])
            continue;
            int was_set = 0;
            for (int i = 0; i < nops; i++)
                was_set |= ops[i].isset && ops[i].key == k;
            VSA_CHECK(seen[k] == was_set, "key %u appears %d time(s) in the chains (set at least once: %d)", keyid[k], seen[k], was_set);
        }
    }
    vs_note("kt final%s", "");
    for (int k = 0; k < MAXKEYS; k++)
        if (keyready[k])
            vs_note("kt finalv key=%u v=%lu", keyid[k], finalv[k]);
    ndcalls = 0;
    for (int i = 0; i < nelem && i < 512; i++)
        vs_unname(elems[i]);
    if (p_kt)
        vs_unname(p_kt);
    vs_unname(p_owner);
    ABT_OK(ABT_thread_free(&sc_actors[0].th));
    for (int k = 0; k < MAXKEYS; k++) {
        if (!keyready[k])
            continue;
        int want = (keydt[k] != 0 && finalv[k] != 0), got = 0;
        for (int i = 0; i < ndcalls; i++)
            if (dcalls[i].fn == keydt[k] && dcalls[i].v == finalv[k])
                got++;
        /* two keys may share destructor function and value only if both are 0-valued: values encode the key */
        VSA_CHECK(got == want, "destructor of key %u called %d time(s) with its final value %lu at free, expected %d", keyid[k], got,
                  finalv[k], want);
    }
    {
        int expected = 0;
        for (int k = 0; k < MAXKEYS; k++)
            expected += (keyready[k] && keydt[k] != 0 && finalv[k] != 0);
        VSA_CHECK(ndcalls == expected, "%d destructor calls at free, expected %d", ndcalls, expected);
    }
    vs_note("kt freed dcalls=%d", ndcalls);
    for (int i = 1; i < nact; i++)
        if (sc_actors[i].kind != AK_EXT) {
            vs_unname(ABTI_thread_get_ptr(sc_actors[i].th));
            ABT_OK(ABT_thread_free(&sc_actors[i].th));
        }
    for (int i = 0; i < MAXKEYS; i++)
        if (keyready[i])
            ABT_OK(ABT_key_free(&keys[i]));
    sc_stop_streams();
    ABT_finalize();
    int rc = vsa_end();
    if (rc)
        fprintf(stderr, "MONITOR: %s\n", vs_first_failure());
    return rc;
}
