/* vsched scenario family: work-unit life cycle (C01 C03 C06 C11 C12 C13).
 * usage: sc_units <seed> <mode> <log> <nes> <nunits> <steps> <poolkind 0 fifo|1 fifo_wait|2 randws> <sched 0 basic|1 basic_wait|2 prio|3 randws|4 user-defined batch scheduler>
 *                 [topo 0 classic | 1 early stream join | 2 shared pool in front of each secondary stream's own pool, early stream join]
 *                 [recycle 0|1: the secondary streams' pools are user-owned (not automatic) and have already served a stream
 *                  that was joined and freed before the streams of this run are created over them]
 * topo >= 1: the primary joins the secondary streams while units (also blocked ones, resumed later by the resumer thread)
 * are still alive in their pools: ABT_xstream_join must return only after all of them have terminated.
 * Units (named / unnamed ULTs, tasklets) run generated scripts: yield, create+join a child, suspend (a resumer
 * polls the BLOCKED state from another OS thread), migrate to another pool, exit early; the primary ULT cancels
 * some units.  Monitors: every unit's function runs exactly once with its own argument, join returns after the
 * end, states follow the state machine, a migrated unit next runs from the target pool, pools are drained. */
#include "sc_common.h"
#include <sched.h>

#define MAXU 48
enum { OP_YIELD, OP_CHILD, OP_SUSPEND, OP_MIGRATE, OP_EXIT, OP_STATE, OP_CREATE_TO, OP_YIELD_TO, OP_RESUME_YIELD_TO, OP_SWITCH, OP_NOPS, OP_TJOIN };
static const char *OPN_[] = { "yield", "child", "suspend", "migrate", "exit", "state", "create_to", "yield_to", "resume_yield_to", "switch", "-", "tjoin" };

typedef struct unit {
    int id, kind, named, pool, parent; /* kind: AK_ULT / AK_TASK */
    int nsteps, steps[8];
    ABT_thread th;
    volatile int started, finished, exited, want_resume, resumed_cnt, mig_cb, mig_target, cancel_me, joined, has_cb, counted_out, in_run;
    int home, moves, life; /* home: pool it was created in; moves: it has a migrate step; life: 0 first, 1 revived */
    struct unit *fwd;      /* the descriptor was revived as that unit (the migration callback keeps the first argument) */
    int last_mig_tgt, force_tgt; /* pool of the last completed migration (+1, 0 = none); a revived unit asks for it again */
    int ext_join;                /* joined and freed by the external joiner thread, not by the primary ULT */
    int sw4;                     /* joined by a non-yieldable caller: its last step prefers ABT_self_resume_exit_to */
    int never;                   /* cancelled before it could start: its function must never be entered */
    int first_pool;              /* >= 0: a migration requested before its first run: it must start from that pool */
    volatile int join_started, cancel_done; /* a late cancellation is posted only before somebody starts joining the unit */
    long arg_seen;
} unit;
static unit U[MAXU];
static int nunits, maxunits = 12, nsteps = 4;
static volatile int live_workers;
static volatile int stop_resumer;
static int poolkind, schedkind, topo, recycle;
static int shared_pool = -1; /* topo 2: index of the pool every secondary stream serves in front of its own */
static int dpool = -1;       /* a pool that no scheduler serves: units in it run only through a directed yield */
static int npools;

static void unit_fn(void *arg);

static void mig_cb(ABT_thread t, void *arg)
{
    unit *u = (unit *)arg;
    (void)t;
    while (u->fwd)
        u = u->fwd;
    u->mig_cb++;
    vs_note("migCb U%d", u->id);
}

static void gen_steps(unit *u)
{
    u->nsteps = 1 + sc_rnd(nsteps);
    u->moves = 0;
    for (int i = 0; i < u->nsteps; i++) {
        int op = sc_rnd(OP_NOPS);
        if (u->kind == AK_TASK && op != OP_STATE) {
            op = OP_STATE; /* tasklets cannot yield / block / migrate ... */
            if (sc_nes >= 2 && sc_rnd(4) == 0 && u->pool != shared_pool && u->pool != 0)
                op = OP_TJOIN; /* ... but may join (the stream's OS thread then sleeps on a futex); the target lives in
                                * the primary stream's pool, which never blocks that way: no circular wait */
        }
        if (op == OP_MIGRATE && (sc_nes < 2 || u->pool == shared_pool))
            op = OP_YIELD;
        if (op == OP_SUSPEND && !u->named)
            op = OP_YIELD; /* the resumer needs a handle that stays valid */
        if (u->pool == shared_pool && u->kind == AK_ULT && op != OP_YIELD && op != OP_STATE && op != OP_EXIT && op != OP_CHILD)
            op = OP_YIELD; /* blocked units of a pool with several consumers do not keep any stream alive: keep them simple
                            * (children of theirs are unnamed: nobody blocks joining them) */
        if (op == OP_MIGRATE)
            u->moves = 1;
        u->steps[i] = op;
    }
}

static int new_unit(int parent, int allow_task)
{
    if (nunits >= maxunits)
        return -1;
    unit *u = &U[nunits];
    memset(u, 0, sizeof *u);
    u->id = nunits++;
    u->parent = parent;
    u->first_pool = -1;
    int k = sc_rnd(10);
    u->kind = (allow_task && k < 2) ? AK_TASK : AK_ULT;
    u->named = (parent < 0) ? 1 : (sc_rnd(3) != 0); /* children may be unnamed: nobody joins them */
    if (parent >= 0 && parent < MAXU && shared_pool >= 0 && U[parent].pool == shared_pool)
        u->named = 0;
    if (parent < 0 && shared_pool >= 0 && sc_rnd(2))
        u->pool = shared_pool; /* populate the pool that the RANDWS scheduler steals from (pops at the other end) */
    else if (topo == 0 || parent < 0 || parent == 99)
        u->pool = sc_rnd(npools);
    else
        u->pool = sc_rnd(3) ? U[parent].pool : 0; /* early stream join: only into a pool whose stream is certainly alive */
    u->home = u->pool;
    u->mig_target = -1;
    gen_steps(u);
    return u->id;
}

static void launch_unit_ex(int id, int create_to)
{
    unit *u = &U[id];
    __sync_fetch_and_add(&live_workers, 1);
    vs_note("unit U%d kind=%s named=%d pool=%d parent=%d", id, AKN[u->kind], u->named, u->pool, u->parent);
    if (u->kind == AK_ULT) {
        ABT_thread_attr attr = ABT_THREAD_ATTR_NULL;
        if (sc_rnd(2)) {
            ABT_OK(ABT_thread_attr_create(&attr));
            ABT_OK(ABT_thread_attr_set_migratable(attr, ABT_TRUE));
            ABT_OK(ABT_thread_attr_set_callback(attr, mig_cb, u));
            u->has_cb = 1;
        }
        if (create_to) {
            /* the child runs at once on this stream; the caller goes back to its pool */
            ABT_OK(ABT_thread_create_to(sc_pool[u->pool], unit_fn, u, attr, u->named ? &u->th : NULL));
        } else if (u->named) {
            ABT_OK(ABT_thread_create(sc_pool[u->pool], unit_fn, u, attr, &u->th));
        } else {
            /* unnamed: no handle; name it from inside when it first runs */
            ABT_OK(ABT_thread_create(sc_pool[u->pool], unit_fn, u, attr, NULL));
        }
        if (attr != ABT_THREAD_ATTR_NULL)
            ABT_OK(ABT_thread_attr_free(&attr));
    } else {
        if (u->named) {
            ABT_OK(ABT_task_create(sc_pool[u->pool], unit_fn, u, (ABT_task *)&u->th));
        } else {
            ABT_OK(ABT_task_create(sc_pool[u->pool], unit_fn, u, NULL));
        }
    }
}

static void launch_unit(int id)
{
    launch_unit_ex(id, 0);
}

/* mode 0: join + free; 1: ABT_thread_free alone, which joins internally (the caller may block inside the free and come
 * back on another execution stream); 2: join only, the handle is kept (revive) */
static void join_unit_ex(int id, int by, int free_only)
{
    unit *u = &U[id];
    ABTI_thread *p_target = ABTI_thread_get_ptr(u->th);
    {
        char b[64];
        vs_log("apiCall join U%d %s %s", id, vs_addr_name(p_target, b, sizeof b),
               by == 98 ? "ext" : ((by >= 0 && by < MAXU && U[by].kind == AK_TASK) ? "task" : "ult"));
    }
    if (free_only == 1) {
        ABT_OK(ABT_thread_free(&u->th));
        char b[64];
        vs_note("apiRet join U%d %s", id, vs_addr_name(p_target, b, sizeof b));
        VSA_CHECK(u->th == ABT_THREAD_NULL, "ABT_thread_free did not reset the handle of U%d", id);
        VSA_CHECK(u->cancel_me ? u->started <= 1 : (u->started == 1 && (u->finished == 1 || u->exited == 1)),
                  "free of U%d returned: started=%d finished=%d exited=%d", id, u->started, u->finished, u->exited);
        u->joined = 1;
        if (!u->counted_out) {
            u->counted_out = 1;
            __sync_fetch_and_sub(&live_workers, 1);
        }
        return;
    }
    ABT_OK(ABT_thread_join(u->th));
    {
        char b[64];
        vs_note("apiRet join U%d %s", id, vs_addr_name(p_target, b, sizeof b));
    }
    ABT_thread_state st;
    ABT_OK(ABT_thread_get_state(u->th, &st));
    VSA_CHECK(st == ABT_THREAD_STATE_TERMINATED, "join of U%d returned but its state is %d", id, (int)st);
    VSA_CHECK(u->cancel_me ? u->started <= 1 : (u->started == 1 && (u->finished == 1 || u->exited == 1)),
              "join of U%d returned: started=%d finished=%d exited=%d", id, u->started, u->finished, u->exited);
    u->joined = 1;
    if (!u->counted_out) { /* cancelled before it could finish */
        u->counted_out = 1;
        __sync_fetch_and_sub(&live_workers, 1);
    }
    if (free_only == 2)
        return;
    ABT_OK(ABT_thread_free(&u->th));
    VSA_CHECK(u->th == ABT_THREAD_NULL, "ABT_thread_free did not reset the handle of U%d", id);
}

/* ABT_thread_join_many / ABT_thread_free_many over several children at once (the caller is a ULT): the calls behave like
 * the single joins / frees one after the other, whatever happens to the caller in between (it may block in one join and
 * continue the next one from another execution stream) */
static void join_many_units(const int *ids, int n)
{
    ABT_thread hs[8];
    char nm[8][64];
    int free_many = sc_rnd(2);
    for (int i = 0; i < n; i++) {
        unit *u = &U[ids[i]];
        hs[i] = u->th;
        vs_addr_name(ABTI_thread_get_ptr(u->th), nm[i], sizeof nm[i]);
        for (int k = 0; k < u->nsteps; k++)
            if (u->steps[k] == OP_SUSPEND)
                free_many = 0; /* (the resumer polls the handle of a unit that suspends: it is freed after the join) */
    }
    for (int i = 0; i < n; i++)
        vs_log("apiCall join U%d %s ult", ids[i], nm[i]);
    if (free_many)
        ABT_OK(ABT_thread_free_many(n, hs));
    else
        ABT_OK(ABT_thread_join_many(n, hs));
    for (int i = 0; i < n; i++) {
        unit *u = &U[ids[i]];
        vs_note("apiRet join U%d %s", ids[i], nm[i]);
        if (!free_many) {
            ABT_thread_state st;
            ABT_OK(ABT_thread_get_state(u->th, &st));
            VSA_CHECK(st == ABT_THREAD_STATE_TERMINATED, "join_many returned but the state of U%d is %d", ids[i], (int)st);
        } else {
            VSA_CHECK(hs[i] == ABT_THREAD_NULL, "ABT_thread_free_many did not reset the handle of U%d", ids[i]);
        }
        VSA_CHECK(u->cancel_me ? u->started <= 1 : (u->started == 1 && (u->finished == 1 || u->exited == 1)),
                  "%s of U%d returned: started=%d finished=%d exited=%d", free_many ? "free_many" : "join_many", ids[i], u->started,
                  u->finished, u->exited);
        u->joined = 1;
        if (!u->counted_out) {
            u->counted_out = 1;
            __sync_fetch_and_sub(&live_workers, 1);
        }
    }
    for (int i = 0; i < n; i++) {
        unit *u = &U[ids[i]];
        if (free_many) {
            u->th = ABT_THREAD_NULL;
        } else {
            ABT_OK(ABT_thread_free(&u->th));
            VSA_CHECK(u->th == ABT_THREAD_NULL, "ABT_thread_free did not reset the handle of U%d", ids[i]);
        }
    }
}

/* a joined (terminated, still named) unit gets a second life with a new script, possibly in another pool */
static int revive_unit(int old)
{
    if (nunits >= maxunits)
        return -1;
    unit *o = &U[old];
    unit *u = &U[nunits];
    memset(u, 0, sizeof *u);
    u->id = nunits++;
    u->parent = -1;
    u->first_pool = -1;
    u->kind = o->kind;
    u->named = 1;
    u->pool = sc_rnd(npools);
    u->home = u->pool;
    u->mig_target = -1;
    u->life = 1;
    u->has_cb = o->has_cb;
    gen_steps(u);
    if (o->kind == AK_ULT && o->last_mig_tgt && sc_rnd(2)) {
        /* the descriptor once migrated to pool B: start the second life elsewhere and ask for B again (a migration
         * target remembered from the first life must not be mistaken for a pending request) */
        int b = o->last_mig_tgt - 1;
        if (u->pool == b)
            u->pool = u->home = (b + 1) % sc_nes;
        if (u->pool != b && u->pool != shared_pool) {
            u->steps[0] = OP_MIGRATE;
            u->moves = 1;
            u->force_tgt = b + 1;
        }
    }
    u->th = o->th;
    o->th = ABT_THREAD_NULL;
    o->fwd = u;
    __sync_fetch_and_add(&live_workers, 1);
    vs_note("unit U%d kind=%s named=1 pool=%d parent=-1 revives=U%d", u->id, AKN[u->kind], u->pool, old);
    if (u->kind == AK_ULT) {
        ABT_OK(ABT_thread_revive(sc_pool[u->pool], unit_fn, u, &u->th));
    } else {
        ABT_OK(ABT_task_revive(sc_pool[u->pool], unit_fn, u, (ABT_task *)&u->th));
    }
    return u->id;
}

/* exactly one party resumes a suspension: the resumer thread or a unit doing ABT_self_resume_yield_to */
static int claim_resume_ex(unit *t, int directed)
{
    int c = t->resumed_cnt;
    if (t->kind != AK_ULT || !t->named || t->joined || c >= t->want_resume)
        return 0;
    if (topo && directed) {
        /* early stream join: a unit that a directed resumption runs on a stream which does not serve its pool is counted
         * nowhere while it runs, and the stream that serves its pool may terminate meanwhile (finding F18, kept apart in
         * corpus/findings/f18_*.c): here the caller's stream must be the one that serves the target's pool */
        int rk = -1;
        if (t->moves || ABT_xstream_self_rank(&rk) != ABT_SUCCESS || rk != t->pool)
            return 0;
    }
    ABT_thread th = t->th;
    ABT_thread_state st;
    if (th == ABT_THREAD_NULL || ABT_thread_get_state(th, &st) != ABT_SUCCESS || st != ABT_THREAD_STATE_BLOCKED)
        return 0;
    return __sync_bool_compare_and_swap(&t->resumed_cnt, c, c + 1);
}

static int claim_resume(unit *t) { return claim_resume_ex(t, 1); }

static void join_unit(int id, int by)
{
    /* the resumer polls named units' handles: a unit that suspends must stay valid until it is known to be done, so
     * only units without a suspend step are freed without a separate join */
    int free_only = sc_rnd(2);
    for (int i = 0; i < U[id].nsteps; i++)
        if (U[id].steps[i] == OP_SUSPEND)
            free_only = 0;
    join_unit_ex(id, by, free_only);
}

static void gate_lock(void);
static void gate_unlock(void);
static void self_cancel(unit *u, ABT_thread self)
{
    gate_lock();
    if (!u->cancel_me) {
        u->cancel_me = 1;
        vs_log("apiCall cancel U%d", u->id);
        ABT_OK(ABT_thread_cancel(self));
        u->cancel_done = 1;
    }
    gate_unlock();
}
static void unit_fn(void *arg)
{
    unit *u = (unit *)arg;
    ABT_thread self;
    ABT_OK(ABT_self_get_thread(&self));
    u->started++;
    u->arg_seen = (long)(u - U);
    VSA_CHECK(u->in_run == 0, "unit U%d is already running elsewhere when its function is entered", u->id);
    u->in_run = 1;
    vs_note("userStart U%d", u->id); /* the log line's unit column is the T-name: binds U<i> to it */
    VSA_CHECK(u->started == 1, "unit U%d started %d times", u->id, u->started);
    VSA_CHECK(!u->never, "U%d was cancelled before it could start, yet its function is invoked", u->id);
    if (u->first_pool >= 0) {
        ABT_pool lp;
        ABT_OK(ABT_thread_get_last_pool(self, &lp));
        VSA_CHECK(lp == sc_pool[u->first_pool], "U%d was asked to migrate to P%d before its first run but starts from another pool",
                  u->id, u->first_pool);
        u->pool = u->first_pool;
    }
    int children[8], nch = 0;
    /* now and then the unit posts a cancellation request on itself right before one of its steps (or before it joins its
     * children): the request is then pending at whatever scheduling point comes next — a yield ends the unit, every other
     * kind of switch (suspension, blocking join, directed switch, migration) must work as if nothing were pending */
    int cancel_at = -1;
    if (u->parent < 0 && u->kind == AK_ULT && u->life == 0 && !u->ext_join && !u->moves && sc_rnd(6) == 0)
        cancel_at = sc_rnd(u->nsteps + 1);
    for (int i = 0; i < u->nsteps; i++) {
        int op = u->steps[i];
        if (i == cancel_at)
            self_cancel(u, self);
        vs_note("step U%d %s", u->id, OPN_[op]);
        switch (op) {
            case OP_YIELD: {
                int cdone = u->cancel_done; /* a cancellation posted before this scheduling point takes effect in it */
                u->in_run = 0;
                ABT_OK(ABT_thread_yield());
                VSA_CHECK(u->in_run == 0, "unit U%d resumed on two streams at once", u->id);
                u->in_run = 1;
                VSA_CHECK(!cdone, "U%d runs on after a yield although ABT_thread_cancel on it had returned before the yield", u->id);
                break;
            }
            case OP_CHILD: {
                int c = new_unit(u->id, 1);
                if (c >= 0) {
                    launch_unit(c);
                    if (U[c].named)
                        children[nch++] = c;
                }
                break;
            }
            case OP_CREATE_TO:
            case OP_YIELD_TO: {
                /* a child in the pool this unit is associated with (only this stream's scheduler pops it, and that
                 * scheduler is busy running this unit): directed switch to it */
                int c = new_unit(u->id, 0);
                if (c < 0)
                    break;
                U[c].kind = AK_ULT;
                U[c].pool = U[c].home = u->pool;
                /* after a resume_yield_to this unit may run on a stream that does not serve its pool: another stream
                 * could then pop the child before the directed yield names it, so create_to is used instead */
                int rank = -1;
                ABT_OK(ABT_xstream_self_rank(&rank));
                int same_es = (rank == u->pool);
                if (op == OP_YIELD_TO && dpool >= 0 && sc_rnd(3) == 0) {
                    /* the target waits in a pool nobody serves (another pool than the caller's): it runs only because
                     * the caller names it, and has no scheduling point of its own */
                    U[c].pool = U[c].home = dpool;
                    for (int k = 0; k < U[c].nsteps; k++)
                        U[c].steps[k] = OP_STATE;
                    U[c].moves = 0;
                    same_es = 1; /* nobody else can pop it */
                } else if (op == OP_YIELD_TO && !same_es)
                    op = OP_CREATE_TO;
                if (op == OP_YIELD_TO)
                    U[c].named = 1;
                u->in_run = 0;
                if (op == OP_CREATE_TO) {
                    launch_unit_ex(c, 1);
                } else {
                    launch_unit(c);
                    vs_log("apiCall yield_to U%d", c);
                    ABT_OK(ABT_thread_yield_to(U[c].th));
                }
                VSA_CHECK(u->in_run == 0, "unit U%d resumed on two streams at once", u->id);
                u->in_run = 1;
                if (same_es && rank == u->pool)
                    VSA_CHECK(U[c].started == 1, "directed switch from U%d: the target U%d had not run when the caller resumed", u->id, c);
                if (U[c].named)
                    children[nch++] = c;
                break;
            }
            case OP_TJOIN: {
                /* a tasklet creates a ULT in a pool served by another (live) stream and joins it */
                int c = new_unit(u->id, 0);
                if (c < 0)
                    break;
                U[c].kind = AK_ULT;
                U[c].named = 1;
                U[c].pool = U[c].home = 0;
                gen_steps(&U[c]);
                for (int k = 0; k < U[c].nsteps; k++) /* it must not depend on this (blocked) stream: no children, no waits */
                    if (U[c].steps[k] != OP_YIELD && U[c].steps[k] != OP_STATE)
                        U[c].steps[k] = OP_YIELD;
                U[c].moves = 0;
                if (sc_rnd(2)) {
                    U[c].steps[U[c].nsteps - 1] = OP_SWITCH;
                    U[c].sw4 = 1;
                }
                launch_unit(c);
                join_unit_ex(c, u->id, sc_rnd(2));
                break;
            }
            case OP_SWITCH: {
                /* the 2.0-style directed switches: the caller pops a ready ULT of its own pool (or claims a suspended
                 * one) and hands the stream to it, itself going back to its pool / blocking / terminating */
                int rank = -1;
                ABT_OK(ABT_xstream_self_rank(&rank));
                int last = (i == u->nsteps - 1 && nch == 0);
                int how = sc_rnd(5); /* 0 yield_to 1 suspend_to 2 exit_to 3 resume_suspend_to 4 resume_exit_to */
                if (u->sw4)
                    how = last ? 4 : 0;
                if ((how == 1 || how == 3) && (!u->named || u->ext_join))
                    how = (how == 3 && last) ? 4 : 0; /* (units freed by the external joiner never wait for the resumer) */
                if ((how == 2 || how == 4) && !last)
                    how = (how == 2) ? 0 : ((u->named && !u->ext_join) ? 3 : 0);
                ABT_thread tgt = ABT_THREAD_NULL;
                int tid_ = -1;
                if (how >= 3) {
                    for (int tries = 0; tries < (u->sw4 ? 25 : 1) && tid_ < 0; tries++) {
                        for (int k = 0; k < nunits; k++)
                            if (k != u->id && claim_resume(&U[k])) {
                                tid_ = k;
                                tgt = U[k].th;
                                break;
                            }
                        if (tid_ < 0 && u->sw4) {
                            /* (a unit joined by a non-yieldable caller waits a little for a suspended unit to hand over to) */
                            u->in_run = 0;
                            ABT_OK(ABT_thread_yield());
                            u->in_run = 1;
                        }
                    }
                } else if (rank == u->pool) {
                    ABT_OK(ABT_pool_pop_thread(sc_pool[u->pool], &tgt));
                    if (tgt != ABT_THREAD_NULL) {
                        void *targ = NULL;
                        ABT_OK(ABT_thread_get_arg(tgt, &targ));
                        unit *t = (unit *)targ;
                        if (t < U || t >= U + MAXU || t->kind != AK_ULT || t->never || (t->first_pool >= 0 && !t->started)) {
                            /* a tasklet, the primary ULT, or a unit this program cancelled before it started (a directed
                             * switch does not pass the scheduler's request handling and would start it; likewise a unit
                             * with a migration requested before its first run): put it back */
                            ABT_OK(ABT_pool_push_thread(sc_pool[u->pool], tgt));
                            tgt = ABT_THREAD_NULL;
                        } else {
                            tid_ = t->id;
                        }
                    }
                }
                if (tgt == ABT_THREAD_NULL) {
                    u->in_run = 0;
                    ABT_OK(ABT_thread_yield());
                    u->in_run = 1;
                    break;
                }
                static const char *HOWN[] = { "self_yield_to", "suspend_to", "exit_to", "resume_suspend_to", "resume_exit_to" };
                vs_log("apiCall %s U%d", HOWN[how], tid_);
                if (how == 1 || how == 3)
                    u->want_resume++;
                if (how == 2 || how == 4) {
                    u->exited = 1;
                    vs_note("userEnd U%d", u->id);
                    u->counted_out = 1;
                    __sync_fetch_and_sub(&live_workers, 1);
                }
                u->in_run = 0;
                switch (how) {
                    case 0: ABT_OK(ABT_self_yield_to(tgt)); break;
                    case 1: ABT_OK(ABT_self_suspend_to(tgt)); break;
                    case 2: ABT_self_exit_to(tgt); vs_fail("ABT_self_exit_to returned in U%d", u->id); break;
                    case 3: ABT_OK(ABT_self_resume_suspend_to(tgt)); break;
                    case 4: ABT_self_resume_exit_to(tgt); vs_fail("ABT_self_resume_exit_to returned in U%d", u->id); break;
                }
                VSA_CHECK(u->in_run == 0, "unit U%d resumed on two streams at once", u->id);
                u->in_run = 1;
                if (how == 1 || how == 3)
                    VSA_CHECK(u->resumed_cnt == u->want_resume, "U%d runs after %s %d but was resumed %d times", u->id, HOWN[how],
                              u->want_resume, u->resumed_cnt);
                break;
            }
            case OP_RESUME_YIELD_TO: {
                /* resume a suspended unit (wherever it was started) and run it next on this stream */
                int t = -1;
                for (int k = 0; k < nunits; k++)
                    if (k != u->id && claim_resume(&U[k])) {
                        t = k;
                        break;
                    }
                if (t < 0) {
                    u->in_run = 0;
                    ABT_OK(ABT_thread_yield());
                    u->in_run = 1;
                    break;
                }
                vs_log("apiCall resume_yield_to U%d", t);
                int st0 = U[t].started;
                u->in_run = 0;
                ABT_OK(ABT_self_resume_yield_to(U[t].th));
                VSA_CHECK(u->in_run == 0, "unit U%d resumed on two streams at once", u->id);
                u->in_run = 1;
                VSA_CHECK(st0 == 1, "resume_yield_to target U%d had started %d times", t, st0);
                break;
            }
            case OP_SUSPEND: {
                int cdone = u->cancel_done;
                u->want_resume++;
                vs_log("apiCall suspend U%d", u->id);
                u->in_run = 0;
                ABT_OK(ABT_self_suspend());
                /* (no cancellation check here: a suspension cannot terminate the unit, and a resumed unit that another
                 * unit switches to directly — resume_yield_to, a popped target of self_yield_to — runs again without
                 * passing the scheduler's request handling; the request takes effect at the unit's next yield) */
                (void)cdone;
                VSA_CHECK(u->in_run == 0, "unit U%d resumed on two streams at once", u->id);
                u->in_run = 1;
                vs_note("apiRet suspend U%d", u->id);
                VSA_CHECK(u->resumed_cnt == u->want_resume, "U%d runs after suspend %d but was resumed %d times", u->id,
                          u->want_resume, u->resumed_cnt);
                break;
            }
            case OP_MIGRATE: {
                ABT_bool mig = ABT_FALSE;
                ABT_OK(ABT_thread_is_migratable(self, &mig));
                int tgt = topo ? 0 : (u->pool + 1 + sc_rnd(sc_nes - 1)) % sc_nes; /* early stream join: only to the primary's pool */
                if (u->force_tgt) {
                    tgt = u->force_tgt - 1;
                    u->force_tgt = 0;
                }
                ABT_pool cur;
                ABT_OK(ABT_thread_get_last_pool(self, &cur));
                int rc = ABT_thread_migrate_to_pool(self, sc_pool[tgt]);
                if (cur == sc_pool[tgt]) {
                    VSA_CHECK(rc != ABT_SUCCESS, "migration of U%d to its own pool was accepted", u->id);
                } else if (mig) {
                    VSA_CHECK(rc == ABT_SUCCESS, "migrate_to_pool of U%d returned %d", u->id, rc);
                    int cb0 = u->mig_cb;
                    vs_note("migReq U%d P%d", u->id, tgt);
                    if (sc_rnd(3) == 0) {
                        /* (re)registering the callback while the request is pending must not disturb the request */
                        ABT_OK(ABT_thread_set_callback(self, mig_cb, u));
                        u->has_cb = 1;
                    }
                    int how = sc_rnd(5);
                    if (how == 4 && u->named) {
                        /* ... or in the callback of a resume_suspend_to: this unit blocks, owed to the target pool */
                        int t = -1;
                        for (int k = 0; k < nunits; k++)
                            if (k != u->id && claim_resume(&U[k])) {
                                t = k;
                                break;
                            }
                        if (t >= 0) {
                            u->want_resume++;
                            vs_log("apiCall resume_suspend_to U%d", t);
                            u->in_run = 0;
                            ABT_OK(ABT_self_resume_suspend_to(U[t].th));
                            VSA_CHECK(u->in_run == 0, "unit U%d resumed on two streams at once", u->id);
                            u->in_run = 1;
                        }
                    } else if (how == 1 && nch > 0) {
                        /* the request is handled when this unit blocks in the join inside ABT_thread_free (if the
                         * child is still running): the caller then comes back on the target pool's stream */
                        u->in_run = 0;
                        join_unit_ex(children[--nch], u->id, 1);
                        VSA_CHECK(u->in_run == 0, "unit U%d resumed on two streams at once", u->id);
                        u->in_run = 1;
                    } else if (how == 2 && u->named) {
                        /* ... or when it suspends: BLOCKED must not be visible before the migration is done */
                        u->want_resume++;
                        vs_log("apiCall suspend U%d", u->id);
                        u->in_run = 0;
                        ABT_OK(ABT_self_suspend());
                        VSA_CHECK(u->in_run == 0, "unit U%d resumed on two streams at once", u->id);
                        u->in_run = 1;
                        vs_note("apiRet suspend U%d", u->id);
                    } else if (how == 3 && ({ int rk = -1; ABT_xstream_self_rank(&rk); rk == u->pool; })) {
                        /* ... or in the callback of an old-style directed yield */
                        int c = new_unit(u->id, 0);
                        if (c >= 0) {
                            U[c].kind = AK_ULT;
                            U[c].pool = U[c].home = u->pool;
                            U[c].named = 1;
                            gen_steps(&U[c]);
                            launch_unit(c);
                            vs_log("apiCall yield_to U%d", c);
                            u->in_run = 0;
                            ABT_OK(ABT_thread_yield_to(U[c].th));
                            VSA_CHECK(u->in_run == 0, "unit U%d resumed on two streams at once", u->id);
                            u->in_run = 1;
                            children[nch++] = c;
                        }
                    }
                    ABT_OK(ABT_thread_get_last_pool(self, &cur));
                    if (cur != sc_pool[tgt]) {
                        u->in_run = 0;
                        ABT_OK(ABT_thread_yield()); /* the request is handled at this scheduling point */
                        u->in_run = 1;
                    }
                    ABT_OK(ABT_thread_get_last_pool(self, &cur));
                    VSA_CHECK(cur == sc_pool[tgt], "U%d runs again after a migration request but not from the target pool", u->id);
                    VSA_CHECK(u->mig_cb == cb0 + (u->has_cb ? 1 : 0), "migration callback of U%d ran %d times for one migration", u->id, u->mig_cb - cb0);
                    u->pool = tgt;
                    u->last_mig_tgt = tgt + 1;
                }
                break;
            }
            case OP_EXIT:
                if (i == u->nsteps - 1 && nch == 0) {
                    u->exited = 1;
                    vs_note("userEnd U%d", u->id);
                    u->counted_out = 1;
                    __sync_fetch_and_sub(&live_workers, 1);
                    ABT_self_exit();
                    vs_fail("ABT_self_exit returned in U%d", u->id);
                }
                break;
            case OP_STATE: {
                ABT_thread_state st;
                ABT_OK(ABT_thread_get_state(self, &st));
                VSA_CHECK(st == ABT_THREAD_STATE_RUNNING, "running unit U%d reports state %d", u->id, (int)st);
                break;
            }
        }
    }
    if (cancel_at == u->nsteps && nch > 0)
        self_cancel(u, self);
    if (nch >= 2 && u->kind == AK_ULT && sc_rnd(3) == 0)
        join_many_units(children, nch);
    else
        for (int k = 0; k < nch; k++)
            join_unit(children[k], u->id);
    u->finished++;
    vs_note("userEnd U%d", u->id);
    u->counted_out = 1;
    __sync_fetch_and_sub(&live_workers, 1);
}

/* a tiny lock between the canceller (an external thread) and whoever starts joining / freeing a top-level unit */
static volatile int gate;
static void gate_lock(void)
{
    while (__sync_lock_test_and_set(&gate, 1))
        sched_yield();
}
static void gate_unlock(void) { __sync_lock_release(&gate); }
static void begin_join_top(int id)
{
    gate_lock();
    U[id].join_started = 1;
    gate_unlock();
}

/* external joiner: joins and frees the top-level units assigned to it (futex path of the join hand-shake) */
static int extj[8], nextj;
static int late_cancels;
static volatile int extj_done;
static void *ext_joiner(void *p)
{
    (void)p;
    for (int i = 0; i < nextj; i++) {
        begin_join_top(extj[i]);
        join_unit_ex(extj[i], 98, sc_rnd(2));
    }
    extj_done = 1;
    return NULL;
}

/* resumer: an external thread that resumes suspended units the moment their BLOCKED state is visible */
static void late_cancel_locked(int k) /* the gate is held: nobody starts joining / freeing a top-level unit meanwhile */
{
    unit *u = &U[k];
    if (k >= nunits || u->parent >= 0 || u->kind != AK_ULT || u->life != 0 || u->cancel_me)
        return;
    if (!u->join_started && u->th != ABT_THREAD_NULL) {
        u->cancel_me = 1;
        late_cancels--;
        vs_log("apiCall cancel U%d", k);
        ABT_OK(ABT_thread_cancel(u->th));
        u->cancel_done = 1;
    }
}

static void *resumer(void *p)
{
    (void)p;
    while (!stop_resumer) {
        int did = 0;
        /* now and then: cancel a top-level ULT that nobody has started to join, at any point of its life; half of the
         * time one that is suspended right now (the request must survive the suspension) */
        if (late_cancels > 0 && sc_rnd(30) == 0) {
            int k = -1;
            gate_lock();
            if (sc_rnd(2))
                for (int i = 0; i < nunits; i++) {
                    unit *t = &U[i];
                    ABT_thread_state st;
                    if (t->parent < 0 && t->kind == AK_ULT && t->named && !t->joined && !t->join_started && t->life == 0 &&
                        t->resumed_cnt < t->want_resume && t->th != ABT_THREAD_NULL &&
                        ABT_thread_get_state(t->th, &st) == ABT_SUCCESS && st == ABT_THREAD_STATE_BLOCKED) {
                        k = i;
                        break;
                    }
                }
            if (k < 0)
                k = sc_rnd(nunits > 0 ? nunits : 1);
            late_cancel_locked(k);
            gate_unlock();
        }
        for (int i = 0; i < nunits; i++) {
            unit *u = &U[i];
            if (sc_rnd(3) && claim_resume_ex(u, 0)) {
                if (late_cancels > 0 && u->parent < 0 && sc_rnd(3) == 0) {
                    /* it is suspended (BLOCKED) and about to be resumed: a cancellation posted now must take effect at
                     * its next scheduling point */
                    gate_lock();
                    late_cancel_locked(i);
                    gate_unlock();
                }
                vs_log("apiCall resume U%d", i);
                ABT_OK(ABT_thread_resume(u->th));
                vs_note("apiRet resume U%d", i);
                did = 1;
            }
        }
        if (!did)
            sched_yield();
    }
    return NULL;
}

/* sched kind 4: a user-defined "batch" main scheduler.  Its run() returns after a few units even when its pools are not
 * empty and relies on the runtime calling run() again (thread_main_sched_func re-enters it unless a finish request is
 * pending AND no unit is left) */
static int us_init(ABT_sched sched, ABT_sched_config config)
{
    (void)sched;
    (void)config;
    return ABT_SUCCESS;
}
static void us_run(ABT_sched sched)
{
    int np = 0;
    ABT_pool pools[4];
    ABT_OK(ABT_sched_get_num_pools(sched, &np));
    if (np > 4)
        np = 4;
    ABT_OK(ABT_sched_get_pools(sched, np, 0, pools));
    int ran = 0;
    for (;;) {
        int did = 0;
        for (int i = 0; i < np && !did; i++) {
            ABT_thread t = ABT_THREAD_NULL;
            ABT_OK(ABT_pool_pop_thread(pools[i], &t));
            if (t != ABT_THREAD_NULL) {
                ABT_OK(ABT_self_schedule(t, ABT_POOL_NULL));
                did = 1;
                ran++;
            }
        }
        if (ran >= 3)
            return; /* end of this batch */
        if (!did) {
            ABT_bool stop = ABT_FALSE;
            ABT_OK(ABT_xstream_check_events(sched));
            ABT_OK(ABT_sched_has_to_stop(sched, &stop));
            if (stop)
                return;
        }
    }
}
static int us_free(ABT_sched sched)
{
    (void)sched;
    return ABT_SUCCESS;
}
static void make_stream(ABT_sched_predef sk, int n, ABT_pool *pools, ABT_xstream *xs)
{
    if (schedkind != 4) {
        ABT_OK(ABT_xstream_create_basic(sk, n, pools, ABT_SCHED_CONFIG_NULL, xs));
        return;
    }
    ABT_sched_def def = { .type = ABT_SCHED_TYPE_ULT, .init = us_init, .run = us_run, .free = us_free, .get_migr_pool = NULL };
    ABT_sched_config cfg;
    ABT_sched sched;
    ABT_OK(ABT_sched_config_create(&cfg, ABT_sched_config_automatic, ABT_TRUE, ABT_sched_config_var_end));
    ABT_OK(ABT_sched_create(&def, n, pools, cfg, &sched));
    ABT_OK(ABT_sched_config_free(&cfg));
    ABT_OK(ABT_xstream_create(sched, xs));
}

/* ABT_xstream_join of stream x has returned: every unit that lived only in the pool that only this stream serves is done */
static void check_stream_done(int x)
{
    for (int i = 0; i < nunits; i++) {
        unit *u = &U[i];
        if (u->home != x || u->moves || u->pool != x)
            continue;
        if (u->parent < 0 && !u->ext_join && !u->joined && u->th != ABT_THREAD_NULL) {
            ABT_thread_state st;
            ABT_OK(ABT_thread_get_state(u->th, &st));
            VSA_CHECK(st == ABT_THREAD_STATE_TERMINATED,
                      "ABT_xstream_join of X%d returned but U%d of its pool is in state %d (started=%d finished=%d)", x, i, (int)st,
                      u->started, u->finished);
        }
        if (!u->cancel_me)
            VSA_CHECK(u->started == 1 && (u->finished == 1 || u->exited == 1),
                      "ABT_xstream_join of X%d returned but U%d of its pool has started=%d finished=%d exited=%d", x, i, u->started,
                      u->finished, u->exited);
    }
}

int main(int argc, char **argv)
{
    vsa_setup(argc, argv);
    int nes = (int)vsa_param(0, 2);
    maxunits = (int)vsa_param(1, 10);
    nsteps = (int)vsa_param(2, 4);
    poolkind = (int)vsa_param(3, 0);
    schedkind = (int)vsa_param(4, 0);
    topo = (int)vsa_param(5, 0);
    recycle = (int)vsa_param(6, 0);
    if (nes < 2)
        topo = 0;
    if (maxunits > MAXU)
        maxunits = MAXU;
    ABT_init(0, NULL);
    vsa_begin();
    vs_autoname_units(1);
    vs_note("scenario units nes=%d maxunits=%d nsteps=%d poolkind=%d sched=%d topo=%d recycle=%d", nes, maxunits, nsteps, poolkind, schedkind, topo, recycle);
    /* streams */
    sc_nes = nes;
    npools = nes;
    ABT_OK(ABT_xstream_self(&sc_xs[0]));
    ABT_OK(ABT_xstream_get_main_pools(sc_xs[0], 1, &sc_pool[0]));
    vsa_name_xstream(sc_xs[0], "X0");
    vsa_name_pool(sc_pool[0], "P0");
    {
        ABT_thread self;
        ABT_OK(ABT_thread_self(&self));
        vsa_name_thread(self, "A99");
    }
    ABT_pool_kind pk = poolkind == 1 ? ABT_POOL_FIFO_WAIT : (poolkind == 2 ? ABT_POOL_RANDWS : ABT_POOL_FIFO);
    ABT_sched_predef sk = schedkind == 1 ? ABT_SCHED_BASIC_WAIT : (schedkind == 2 ? ABT_SCHED_PRIO : (schedkind == 3 ? ABT_SCHED_RANDWS : ABT_SCHED_BASIC));
    if (topo == 2) {
        shared_pool = nes;
        npools = nes + 1;
        ABT_OK(ABT_pool_create_basic(pk, ABT_POOL_ACCESS_MPMC, recycle ? ABT_FALSE : ABT_TRUE, &sc_pool[shared_pool]));
        vsa_name_pool(sc_pool[shared_pool], "P%d", shared_pool);
    }
    for (int i = 1; i < nes; i++) {
        ABT_OK(ABT_pool_create_basic(pk, ABT_POOL_ACCESS_MPMC, recycle ? ABT_FALSE : ABT_TRUE, &sc_pool[i]));
        vsa_name_pool(sc_pool[i], "P%d", i);
        if (recycle) {
            /* a first stream over this pool comes and goes: the pool's consumer count must be back to zero */
            ABT_xstream tmp;
            make_stream(sk, 1, &sc_pool[i], &tmp);
            ABT_OK(ABT_xstream_join(tmp));
            ABT_OK(ABT_xstream_free(&tmp));
        }
        if (topo == 2) {
            /* the shared pool comes first: the scheduler must still look at its own pool when the shared one is empty */
            ABT_pool two[2] = { sc_pool[shared_pool], sc_pool[i] };
            if (schedkind == 3) {
                /* the RANDWS scheduler treats every pool but its first as a victim and steals from the end where a
                 * yielding unit is pushed back: a unit polling in a yield loop (join of a tasklet) would be re-popped for
                 * ever and starve the rest of its own pool (scheduler policy, not a property of the runtime) */
                two[0] = sc_pool[i];
                two[1] = sc_pool[shared_pool];
            }
            make_stream(sk, 2, two, &sc_xs[i]);
        } else {
            make_stream(sk, 1, &sc_pool[i], &sc_xs[i]);
        }
        vsa_name_xstream(sc_xs[i], "X%d", i);
    }
    dpool = npools;
    ABT_OK(ABT_pool_create_basic(pk, ABT_POOL_ACCESS_MPMC, ABT_FALSE, &sc_pool[dpool]));
    vsa_name_pool(sc_pool[dpool], "P%d", dpool);
    pthread_t rt;
    pthread_create(&rt, NULL, resumer, NULL);
    /* top-level units */
    int ntop = 1 + sc_rnd(maxunits > 4 ? 4 : maxunits);
    int tops[8];
    int nt = 0;
    for (int i = 0; i < ntop; i++) {
        int t = new_unit(-1, 1); /* children created meanwhile by running units may have used up the budget */
        if (t < 0)
            break;
        tops[nt++] = t;
        int any_migrate = (nes >= 2 && U[t].kind == AK_ULT && U[t].pool >= 1 && U[t].pool < nes && sc_rnd(4) == 0);
        if (any_migrate) {
            /* ABT_thread_migrate: the runtime picks another running stream (at least the primary one exists); asked
             * right after the creation, often before the unit has ever run */
            for (int k = 0; k < U[t].nsteps; k++)
                if (U[t].steps[k] != OP_YIELD && U[t].steps[k] != OP_STATE)
                    U[t].steps[k] = OP_YIELD;
            U[t].moves = 1;
        }
        U[t].first_pool = -1;
        launch_unit(t);
        if (!any_migrate && U[t].pool == 0 && sc_rnd(4) == 0) {
            /* this unit sits in the primary stream's pool and the primary ULT has not given up the stream since it
             * created it: it cannot have started.  Either cancel it (it must never run) or send it elsewhere (it
             * must start from the requested pool: for a tasklet the pop is the only moment the request can be honoured) */
            if (sc_rnd(2) || nes < 2 || topo) {
                U[t].cancel_me = 1;
                U[t].never = 1;
                vs_log("apiCall cancel U%d", t);
                ABT_OK(ABT_thread_cancel(U[t].th));
                U[t].cancel_done = 1;
            } else {
                int tgt = 1 + sc_rnd(nes - 1);
                for (int k = 0; k < U[t].nsteps; k++)
                    if (U[t].steps[k] != OP_YIELD && U[t].steps[k] != OP_STATE)
                        U[t].steps[k] = (U[t].kind == AK_TASK) ? OP_STATE : OP_YIELD;
                U[t].moves = 1;
                U[t].first_pool = tgt;
                vs_note("migReq U%d P%d", t, tgt);
                vs_log("apiCall migrate_fresh U%d P%d", t, tgt);
                ABT_OK(ABT_thread_migrate_to_pool(U[t].th, sc_pool[tgt]));
            }
        }
        if (any_migrate) {
            vs_log("apiCall migrate_any U%d", t);
            int rc = ABT_thread_migrate(U[t].th);
            if (rc != ABT_SUCCESS) {
                ABT_thread_state st;
                ABT_OK(ABT_thread_get_state(U[t].th, &st));
                VSA_CHECK(st == ABT_THREAD_STATE_TERMINATED,
                          "ABT_thread_migrate of U%d (state %d) returned %d although another running execution stream exists", t,
                          (int)st, rc);
            }
        }
    }
    ntop = nt;
    /* cancel one top-level ULT now and then (it may already be running / finished: both are legal) */
    if (sc_rnd(3) == 0) {
        int c = tops[sc_rnd(ntop)];
        if (U[c].kind == AK_ULT) {
            U[c].cancel_me = 1;
            vs_log("apiCall cancel U%d", c);
            ABT_OK(ABT_thread_cancel(U[c].th));
        }
    }
    /* some top-level units belong to the external joiner */
    pthread_t jt;
    for (int i = 0; i < ntop; i++)
        if (!U[tops[i]].cancel_me && sc_rnd(4) == 0) {
            int has_susp = 0;
            for (int k = 0; k < U[tops[i]].nsteps; k++)
                if (U[tops[i]].steps[k] == OP_SUSPEND || U[tops[i]].steps[k] == OP_MIGRATE)
                    has_susp = 1; /* the resumer reads their handles: they stay with the primary, which joins before it frees */
            if (!has_susp) {
                if (sc_rnd(2) && U[tops[i]].pool != shared_pool && U[tops[i]].kind == AK_ULT) {
                    U[tops[i]].steps[U[tops[i]].nsteps - 1] = OP_SWITCH;
                    U[tops[i]].sw4 = 1;
                    /* ... and some other unit of its pool suspends, so that there is somebody to hand over to */
                    for (int j = 0; j < ntop; j++) {
                        unit *q = &U[tops[j]];
                        if (j != i && q->kind == AK_ULT && q->named && !q->ext_join && !q->cancel_me && !q->moves && !q->never &&
                            q->first_pool < 0 && q->pool == U[tops[i]].pool) {
                            q->steps[sc_rnd(q->nsteps)] = OP_SUSPEND;
                            break;
                        }
                    }
                }
                U[tops[i]].ext_join = 1;
                extj[nextj++] = tops[i];
            }
        }
    late_cancels = sc_rnd(2);
    pthread_create(&jt, NULL, ext_joiner, NULL);
    /* join the top-level units; some get a second life (revive); with an early stream join some are left for later */
    int later[16], nl = 0;
    for (int i = 0; i < ntop; i++) {
        if (U[tops[i]].ext_join)
            continue;
        if (topo && sc_rnd(2)) {
            later[nl++] = tops[i];
            continue;
        }
        begin_join_top(tops[i]);
        if (sc_rnd(3) == 0) {
            join_unit_ex(tops[i], 99, 2);
            int r = revive_unit(tops[i]);
            if (r >= 0) {
                later[nl++] = r;
            } else {
                ABT_OK(ABT_thread_free(&U[tops[i]].th));
            }
        } else {
            join_unit(tops[i], 99);
        }
    }
    if (!topo) {
        for (int i = 0; i < nl; i++) {
            begin_join_top(later[i]);
            join_unit(later[i], 99);
        }
        nl = 0;
        /* unnamed descendants may still be running: wait for them, then stop the streams */
        while (live_workers > 0)
            ABT_OK(ABT_thread_yield());
    }
    for (int i = 1; i < nes; i++) {
        vs_log("apiCall xstream_join X%d", i);
        ABT_OK(ABT_xstream_join(sc_xs[i]));
        vs_note("apiRet xstream_join X%d", i);
        check_stream_done(i);
    }
    if (shared_pool >= 0)
        for (int i = 0; i < nunits; i++)
            if (U[i].home == shared_pool && !U[i].cancel_me)
                VSA_CHECK(U[i].started == 1 && (U[i].finished == 1 || U[i].exited == 1),
                          "all streams serving the shared pool are joined but its U%d has started=%d finished=%d", i, U[i].started,
                          U[i].finished);
    for (int i = 0; i < nl; i++) {
        begin_join_top(later[i]);
        join_unit(later[i], 99);
    }
    while (live_workers > 0 || !extj_done)
        ABT_OK(ABT_thread_yield());
    pthread_join(jt, NULL);
    stop_resumer = 1;
    pthread_join(rt, NULL);
    for (int i = 1; i < npools; i++) {
        size_t tot;
        ABT_OK(ABT_pool_get_total_size(sc_pool[i], &tot));
        VSA_CHECK(tot == 0, "streams joined but pool P%d still accounts for %zu units", i, tot);
    }
    for (int i = 1; i < nes; i++)
        ABT_OK(ABT_xstream_free(&sc_xs[i]));
    {
        size_t tot;
        ABT_OK(ABT_pool_get_total_size(sc_pool[dpool], &tot));
        VSA_CHECK(tot == 0, "the unserved pool P%d still accounts for %zu units", dpool, tot);
        ABT_OK(ABT_pool_free(&sc_pool[dpool]));
    }
    if (recycle)
        for (int i = 1; i < npools; i++)
            ABT_OK(ABT_pool_free(&sc_pool[i]));
    for (int i = 0; i < nunits; i++) {
        unit *u = &U[i];
        if (u->cancel_me)
            continue;
        VSA_CHECK(u->started == 1 && (u->finished == 1 || u->exited == 1), "at the end U%d has started=%d finished=%d exited=%d", i,
                  u->started, u->finished, u->exited);
        VSA_CHECK(u->arg_seen == i, "U%d ran with another unit's argument", i);
    }
    ABT_finalize();
    int rc = vsa_end();
    if (rc)
        fprintf(stderr, "MONITOR: %s\n", vs_first_failure());
    return rc;
}
