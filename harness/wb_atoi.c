/* White-box differential driver for src/util/atoi.c (C20).
 * Lines: atoi <int|u32|u64|sz> <hex>   ->  ok <value> <overflow> | err <code>
 * Out-parameters are pre-set to sentinels; the string lives in an exact-size
 * heap block.  Same protocol as `driver atoi`. */
#include "abti.h"
#include <stdio.h>
#include "wb_hex.h"

int main(void)
{
    setvbuf(stdout, NULL, _IOLBF, 0);
    static char line[1 << 20];
    while (fgets(line, sizeof line, stdin)) {
        char kind[16];
        static char hex[1 << 20];
        if (line[0] == '\n')
            continue;
        if (sscanf(line, "atoi %15s %1048575s", kind, hex) != 2) {
            printf("bad-op\n");
            continue;
        }
        char *s = wb_unhex(hex);
        if (!s) {
            printf("bad-op\n");
            continue;
        }
        ABT_bool ov = 77;
        int r;
        if (!strcmp(kind, "int")) {
            int v = -777;
            r = ABTU_atoi(s, &v, &ov);
            if (r == ABT_SUCCESS)
                printf("ok %d %d\n", v, (int)ov);
            else
                printf("err %d\n", r);
        } else if (!strcmp(kind, "u32")) {
            uint32_t v = 777;
            r = ABTU_atoui32(s, &v, &ov);
            if (r == ABT_SUCCESS)
                printf("ok %u %d\n", v, (int)ov);
            else
                printf("err %d\n", r);
        } else if (!strcmp(kind, "u64")) {
            uint64_t v = 777;
            r = ABTU_atoui64(s, &v, &ov);
            if (r == ABT_SUCCESS)
                printf("ok %llu %d\n", (unsigned long long)v, (int)ov);
            else
                printf("err %d\n", r);
        } else if (!strcmp(kind, "sz")) {
            size_t v = 777;
            r = ABTU_atosz(s, &v, &ov);
            if (r == ABT_SUCCESS)
                printf("ok %zu %d\n", v, (int)ov);
            else
                printf("err %d\n", r);
        } else {
            printf("bad-op\n");
        }
        free(s);
    }
    return 0;
}
