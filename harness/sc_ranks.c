/* vsched scenario: concurrent callers of the rank / stream-list API (C17, Model.RankConc).
 * usage: sc_ranks <seed> <mode> <log> <nbase> <nactors> <rounds> [ext%] [nranks] [busy%]
 *
 * The primary ULT (actor 99) creates <nbase> execution streams that host ULT actors; then <nactors> actors
 * (external pthreads and ULTs on the different streams) concurrently call ABT_xstream_create_with_rank for the
 * same and for different free (and taken) ranks, ABT_xstream_create / _create_basic (rank -1), ABT_xstream_set_rank,
 * ABT_xstream_join + ABT_xstream_free and ABT_xstream_get_num.  Every actor only passes handles of streams it
 * created itself (the API contract Model.RankConc states: a handle is used by one call at a time).
 *
 * Trace: `S .. rk call <a> <op> <args>` / `rk ret <a> <op> <rc> <rank> <ptr>` around every call, the atomic
 * operations on p_global->xstream_list_lock (named RL), and at every release of RL the real list
 * `rk snap <num_xstreams> | <ptr>:<rank> ...` walked while the releasing thread still holds the lock.
 *
 * Native monitors (independent of the Lean model; plain C counters are atomic between two schedule points):
 *  - the list at every release: strictly increasing ranks (pairwise distinct), p_prev consistent, num_xstreams =
 *    number of nodes, head = primary with rank 0;
 *  - a successful creator / set_rank must not obtain a rank that a stream nobody is operating on holds;
 *  - a refused create_with_rank(r) / set_rank(r) must have overlapped a stream that held r (or a concurrent
 *    claimant that obtained r);
 *  - rank -1 yields the smallest unused rank whenever nobody else changed the list during the call;
 *  - get_num equals the length of the list at the moment of the (unlocked) read; 1 at the end;
 *  - busy streams: some created streams get a ULT that keeps yielding for a while; their owner may call
 *    ABT_xstream_free (without a join of its own) while the ULT still runs, so that the free blocks inside its join
 *    while other actors create / set_rank / get_num.  A rank must never be granted while a stream on which such a
 *    ULT is still pending or executing holds it, and get_num >= 1 + number of those streams;
 *  - an ABTI_ASSERT of the runtime that fails (e.g. `p_xstream->rank != rank` in xstream_add_xstream_list)
 *    is reported as a monitor failure with the text of the assertion. */
#include "sc_common.h"
#include <sched.h>
#include <unistd.h>

#define MAXR 96
#define NSLOT 2
#define MAIN_ID 99

static int rounds = 4, nranks = 4, nbase = 1;

/* ---------------------------------------------------------------- monitors */
static int firm[MAXR];   /* streams holding r that nobody is operating on */
static int trans[MAXR];  /* streams that hold(held) r while a free / set_rank on them is in flight */
static int pend[MAXR];   /* in-flight claims on r (create_with_rank r, set_rank -> r) */
static int unjust[MAXR]; /* refused claims on r that only a concurrent claimant can justify */
static uint64_t lastheld[MAXR];
static uint64_t list_epoch; /* bumped at every lock release that changed the list */
static int cur_len = 1;
static long n_calls, n_same_rank_overlap, n_refused, n_granted;
/* creations without a rank may end up with any rank: while one is in flight the per-rank bookkeeping below is
 * incomplete, and the refusal / smallest-unused monitors do not judge (the Lean model does, exactly) */
static int auto_inflight;
static long auto_activity, create_starts;
static int creates_inflight;

static int held(int r) { return r >= 0 && r < MAXR && firm[r] + trans[r] > 0; }
static void drop(int *cnt, int r)
{
    (*cnt)--;
    if (firm[r] + trans[r] == 0)
        lastheld[r] = vs_steps();
}

static ABTI_xstream *prev_nodes[MAXR];
static int prev_ranks[MAXR], prev_n = -1;

/* the real list at a lock release; runs on the releasing thread before the clear executes */
static void list_snap(const void *obj, const char *name)
{
    (void)obj;
    (void)name;
    ABTI_global *g = gp_ABTI_global;
    if (!g)
        return;
    char line[4096];
    int n = snprintf(line, sizeof line, "rk snap %d |", g->num_xstreams), k = 0, changed = 0;
    ABTI_xstream *prev = NULL;
    for (ABTI_xstream *p = g->p_xstream_head; p && k < MAXR - 1 && n < (int)sizeof line - 64; prev = p, p = p->p_next, k++) {
        n += snprintf(line + n, sizeof line - n, " %p:%d", (void *)p, p->rank);
        if (k == 0 && (p->rank != 0 || p->type != ABTI_XSTREAM_TYPE_PRIMARY))
            vs_fail("the head of the stream list is not the primary stream with rank 0 (rank %d)", p->rank);
        if (prev && prev->rank == p->rank)
            vs_fail("two live execution streams hold the same rank %d (stream list at a release of xstream_list_lock)", p->rank);
        else if (prev && prev->rank > p->rank)
            vs_fail("the stream list is not sorted by rank: %d before %d", prev->rank, p->rank);
        if (prev && p->p_prev != prev)
            vs_fail("p_prev of the stream with rank %d does not point to its predecessor", p->rank);
        if (k >= prev_n || prev_nodes[k] != p || prev_ranks[k] != p->rank)
            changed = 1;
        prev_nodes[k] = p;
        prev_ranks[k] = p->rank;
    }
    if (k != prev_n)
        changed = 1;
    prev_n = k;
    if (k >= MAXR - 1)
        vs_fail("the stream list does not end (cycle?)");
    if (g->num_xstreams != k)
        vs_fail("num_xstreams = %d but the list holds %d streams", g->num_xstreams, k);
    if (changed)
        list_epoch++;
    cur_len = k;
    vs_note("%s", line);
}

/* glibc's assert() lands here: ABTI_ASSERT failures of the runtime become monitor failures */
void __assert_fail(const char *assertion, const char *file, unsigned int line, const char *function)
{
    const char *base = strrchr(file, '/');
    vs_fail("ABTI_ASSERT(%s) failed in %s (%s:%u)%s", assertion, function, base ? base + 1 : file, line,
            strstr(assertion, "rank != rank")
                ? ": a stream is being linked with a rank that a live stream already holds (two creators granted the same rank)"
                : "");
    fprintf(stderr, "MONITOR: %s\n", vs_first_failure());
    fflush(NULL);
    _exit(1);
}

/* ------------------------------------------------------------------ actors */
typedef struct slot {
    ABT_xstream xs;
    int rank, live;
    volatile int busy;  /* a ULT is pending or executing on the stream */
    volatile int busy_left;
    int inset;          /* the owner is inside set_rank on it (its rank is either the old or the new one) */
    long busy_yields;
} slot;
static long n_busy, n_free_while_busy, n_claims_while_busy;
static int claims_same[MAXR]; /* create_with_rank calls in flight per rank (evidence only) */

static void *xptr(ABT_xstream x) { return (void *)ABTI_xstream_get_ptr(x); }
static const char *rcs(int rc)
{
    static char b[8][24];
    static int k;
    if (rc == ABT_SUCCESS)
        return "ok";
    if (rc == ABT_ERR_INV_XSTREAM_RANK)
        return "errrank";
    if (rc == ABT_ERR_INV_XSTREAM)
        return "errx";
    k = (k + 1) % 8;
    snprintf(b[k], sizeof b[k], "rc%d", rc);
    return b[k];
}

static void relax(actor *a)
{
    if (a && a->kind == AK_ULT)
        ABT_thread_yield();
    else
        sched_yield();
}

static void refused(int id, const char *what, int r, uint64_t t0, int seen, int ai0, long aa0)
{
    n_refused++;
    if (held(r) || seen || lastheld[r] >= t0)
        return;
    if (ai0 > 0 || auto_activity != aa0)
        return;
    if (pend[r] > 0) {
        unjust[r]++;
        return;
    }
    vs_fail("A%d: %s(%d) was refused although no live stream held rank %d at any time during the call", id, what, r, r);
}
static void claim_done(int r)
{
    pend[r]--;
    if (pend[r] == 0 && unjust[r] > 0) {
        vs_fail("%d request(s) for rank %d were refused although no live stream held it and no concurrent claimant obtained it",
                unjust[r], r);
        unjust[r] = 0;
    }
}
static slot slots[128][NSLOT];
static int busy_streams(void)
{
    int n = 0;
    for (int a = 0; a < MAX_ACTORS; a++)
        for (int i = 0; i < NSLOT; i++)
            n += slots[a][i].busy != 0;
    return n;
}

static void granted(int id, const char *what, int r, slot *me)
{
    n_granted++;
    if (r < 0 || r >= MAXR) {
        vs_fail("A%d: %s returned rank %d", id, what, r);
        return;
    }
    for (int a = 0; a < MAX_ACTORS; a++)
        for (int i = 0; i < NSLOT; i++) {
            slot *o = &slots[a][i];
            if (o != me && o->busy && !o->inset && o->rank == r)
                vs_fail("A%d: %s was granted rank %d while the stream of A%d with rank %d is still executing a ULT "
                        "(two running streams with the same rank)", id, what, r, a, r);
        }
    if (firm[r] > 0)
        vs_fail("A%d: %s was granted rank %d while another live stream holds rank %d (ranks of live streams not distinct)", id,
                what, r, r);
    firm[r]++;
    unjust[r] = 0;
}

static int busypct = 40;

/* a ULT on a freshly created stream that keeps it executing for a while */
static void busy_fn(void *arg)
{
    slot *s = (slot *)arg;
    while (s->busy_left-- > 0) {
        s->busy_yields++;
        ABT_thread_yield();
    }
    s->busy = 0; /* from here on the stream has nothing left to execute */
}
static void make_busy(slot *s)
{
    ABT_pool pool;
    ABT_OK(ABT_xstream_get_main_pools(s->xs, 1, &pool));
    s->busy_left = 2 + sc_rnd(40);
    s->busy = 1;
    n_busy++;
    ABT_OK(ABT_thread_create(pool, busy_fn, s, ABT_THREAD_ATTR_NULL, NULL));
}

/* kind: 0 ABT_xstream_create, 1 ABT_xstream_create_basic (both rank -1), 2 create_with_rank(r), 3 base stream */
static int do_create(int id, int kind, int r, slot *s, ABT_pool *base_pool)
{
    uint64_t t0 = vs_steps(), e0 = list_epoch;
    int seen = kind == 2 ? held(r) : 0, rc, got = -1;
    int ai0 = auto_inflight, others0 = creates_inflight++;
    long aa0 = auto_activity, c0 = ++create_starts;
    n_calls++;
    if (busy_streams() > 0)
        n_claims_while_busy++;
    if (kind != 2) {
        auto_inflight++;
        auto_activity++;
    }
    if (kind == 2 && r >= 0 && r < MAXR) {
        if (claims_same[r] > 0)
            n_same_rank_overlap++;
        claims_same[r]++;
        pend[r]++;
    }
    if (kind == 2)
        vs_log("rk call %d createw %d", id, r);
    else
        vs_log("rk call %d create", id);
    if (kind == 0)
        rc = ABT_xstream_create(ABT_SCHED_NULL, &s->xs);
    else if (kind == 1)
        rc = ABT_xstream_create_basic(ABT_SCHED_BASIC, 0, NULL, ABT_SCHED_CONFIG_NULL, &s->xs);
    else if (kind == 2)
        rc = ABT_xstream_create_with_rank(ABT_SCHED_NULL, r, &s->xs);
    else
        rc = ABT_xstream_create_basic(ABT_SCHED_BASIC, 1, base_pool, ABT_SCHED_CONFIG_NULL, &s->xs);
    if (rc == ABT_SUCCESS)
        ABT_OK(ABT_xstream_get_rank(s->xs, &got));
    vs_note("rk ret %d %s %s %d %p", id, kind == 2 ? "createw" : "create", rcs(rc), got, rc == ABT_SUCCESS ? xptr(s->xs) : NULL);
    if (kind == 2 && r >= 0 && r < MAXR)
        claims_same[r]--;
    creates_inflight--;
    if (kind != 2) {
        auto_inflight--;
        auto_activity++;
    }
    if (rc == ABT_SUCCESS) {
        if (kind == 2 && got != r)
            vs_fail("A%d: create_with_rank(%d) succeeded with rank %d", id, r, got);
        if (kind != 2 && e0 == list_epoch - 1 && others0 == 0 && create_starts == c0) {
            /* nobody else changed the list or was creating during the call: the rank must be the smallest unused one */
            for (int k = 0; k < got && k < MAXR; k++)
                if (!held(k) && lastheld[k] < t0 && pend[k] == 0)
                    vs_fail("A%d: create without a rank got %d although rank %d was unused during the whole call", id, got, k);
        }
        granted(id, kind == 2 ? "create_with_rank" : "create", got, s);
        s->rank = got;
        s->live = 1;
        /* the descriptor is named by its address: the trace then shows the store of TERMINATED into its state word
         * and its native thread parking on ctx.state_cond (the two halves of a completed join) */
        vs_name(xptr(s->xs), sizeof(ABTI_xstream), "Q%p", xptr(s->xs));
        if (kind != 3 && id != MAIN_ID && sc_rnd(100) < busypct)
            make_busy(s);
    } else if (kind == 2 && rc == ABT_ERR_INV_XSTREAM_RANK) {
        if (r >= 0)
            refused(id, "create_with_rank", r, t0, seen, ai0, aa0);
    } else {
        vs_fail("A%d: stream creation returned %d", id, rc);
    }
    if (kind == 2 && r >= 0 && r < MAXR)
        claim_done(r);
    return rc;
}

static void do_setrank(int id, slot *s, int r)
{
    uint64_t t0 = vs_steps();
    int q = s->rank, seen = held(r) && r != q, rc, ai0 = auto_inflight;
    long aa0 = auto_activity;
    n_calls++;
    if (r != q && r >= 0 && r < MAXR) {
        firm[q]--;
        trans[q]++;
        pend[r]++;
    }
    s->inset = 1;
    vs_log("rk call %d setrank %p %d", id, xptr(s->xs), r);
    rc = ABT_xstream_set_rank(s->xs, r);
    vs_note("rk ret %d setrank %s %d %p", id, rcs(rc), r, xptr(s->xs));
    if (rc == ABT_SUCCESS && r >= 0)
        s->rank = r;
    s->inset = 0;
    if (r < 0) {
        VSA_CHECK(rc == ABT_ERR_INV_XSTREAM_RANK, "A%d: set_rank(%d) returned %d", id, r, rc);
        return;
    }
    if (r == q) {
        VSA_CHECK(rc == ABT_SUCCESS, "A%d: set_rank to the rank already held returned %d", id, rc);
        return;
    }
    if (rc == ABT_SUCCESS) {
        int got = -1;
        ABT_OK(ABT_xstream_get_rank(s->xs, &got));
        VSA_CHECK(got == r, "A%d: set_rank(%d) succeeded but the stream has rank %d", id, r, got);
        drop(&trans[q], q);
        granted(id, "set_rank", r, s);
        s->rank = r;
    } else if (rc == ABT_ERR_INV_XSTREAM_RANK) {
        trans[q]--;
        firm[q]++;
        refused(id, "set_rank", r, t0, seen, ai0, aa0);
    } else {
        vs_fail("A%d: set_rank returned %d", id, rc);
    }
    claim_done(r);
}

static void do_free(int id, slot *s)
{
    int q = s->rank;
    n_calls++;
    firm[q]--;
    trans[q]++;
    if (s->busy)
        n_free_while_busy++;
    vs_log("rk call %d free %p", id, xptr(s->xs));
    void *p = xptr(s->xs);
    int rc = ABT_SUCCESS;
    if (sc_rnd(2)) /* ABT_xstream_free joins by itself; half of the time the caller joins first */
        rc = ABT_xstream_join(s->xs);
    if (rc == ABT_SUCCESS)
        rc = ABT_xstream_free(&s->xs);
    vs_note("rk ret %d free %s %d %p", id, rcs(rc), q, p);
    VSA_CHECK(rc == ABT_SUCCESS, "A%d: join/free of an own stream returned %d", id, rc);
    VSA_CHECK(!s->busy, "A%d: ABT_xstream_free returned while a ULT of the stream (rank %d) has not finished", id, q);
    vs_unname(p);
    drop(&trans[q], q);
    s->live = 0;
}

static int list_len(void)
{
    int k = 0;
    for (ABTI_xstream *p = gp_ABTI_global->p_xstream_head; p && k < MAXR; p = p->p_next)
        k++;
    return k;
}

static void do_getnum(int id)
{
    int n = -1;
    n_calls++;
    vs_log("rk call %d getnum", id);
    int rc = ABT_xstream_get_num(&n);
    /* no schedule point since the call line: the list is still the one the call read from.  A holder of the lock may
     * be between its update and its release: plain statements between two schedule points are atomic under vsched,
     * so the list is never seen half linked and num_xstreams must equal its length at any such point. */
    int len = list_len();
    vs_note("rk ret %d getnum %s %d %p", id, rcs(rc), n, NULL);
    VSA_CHECK(rc == ABT_SUCCESS, "A%d: get_num returned %d", id, rc);
    VSA_CHECK(n == len, "A%d: get_num = %d but the stream list holds %d live streams", id, n, len);
    int nb = busy_streams();
    VSA_CHECK(n >= 1 + nb, "A%d: get_num = %d but the primary stream and %d streams that are still executing a ULT exist", id, n, nb);
}

static int pick_rank(void)
{
    int k = sc_rnd(100);
    if (k < 6)
        return -1 - sc_rnd(2); /* negative: refused before the lock */
    if (k < 14)
        return sc_rnd(nbase + 1); /* held by the primary / a base stream */
    return nbase + 1 + sc_rnd(nranks); /* the contended window */
}

static void rank_body(actor *a)
{
    slot *S = slots[a->id];
    vs_note("rk start %d", a->id);
    for (int r = 0; r < rounds; r++) {
        int empty = -1, full = -1;
        for (int i = 0; i < NSLOT; i++)
            if (S[i].live)
                full = i;
            else
                empty = i;
        int k = sc_rnd(100);
        if (empty >= 0 && (k < 45 || full < 0)) {
            int how = sc_rnd(10);
            if (how < 7)
                do_create(a->id, 2, pick_rank(), &S[empty], NULL);
            else
                do_create(a->id, how == 7 ? 1 : 0, -1, &S[empty], NULL);
        } else if (full >= 0 && k < 70) {
            int w = sc_rnd(8) == 0 ? S[full].rank : pick_rank();
            do_setrank(a->id, &S[full], w);
        } else if (full >= 0 && k < 90) {
            do_free(a->id, &S[full]);
        } else {
            do_getnum(a->id);
        }
        if (sc_rnd(3) == 0)
            relax(a);
    }
    for (int i = 0; i < NSLOT; i++)
        if (S[i].live)
            do_free(a->id, &S[i]);
}

int main(int argc, char **argv)
{
    vsa_setup(argc, argv);
    nbase = (int)vsa_param(0, 1);
    int nact = (int)vsa_param(1, 4);
    rounds = (int)vsa_param(2, 4);
    int extpct = (int)vsa_param(3, 50);
    nranks = (int)vsa_param(4, 3);
    busypct = (int)vsa_param(5, 40);
    if (nbase > MAX_ES - 1)
        nbase = MAX_ES - 1;
    if (nact > MAX_ACTORS)
        nact = MAX_ACTORS;
    while (nbase + nact * (rounds + NSLOT) > 80 && rounds > 1)
        rounds--; /* vsched thread slots are not reused */
    ABT_init(0, NULL);
    vsa_begin();
    vs_note("scenario ranks nbase=%d nact=%d rounds=%d ext%%=%d nranks=%d", nbase, nact, rounds, extpct, nranks);
    ABTI_global *g = gp_ABTI_global;
    vs_note("O ABTI_xstream ctx.state_cond %zu %zu", offsetof(ABTI_xstream, ctx) + offsetof(ABTD_xstream_context, state_cond),
            sizeof(pthread_cond_t));
    vs_note("rk const terminated %d", (int)ABT_XSTREAM_STATE_TERMINATED);
    vs_name(&g->xstream_list_lock, sizeof(ABTD_spinlock), "RL");
    vs_set_snap_fn(&g->xstream_list_lock, list_snap);
    firm[0] = 1;

    /* streams that host the ULT actors; created through the same logged calls (actor 99 = the primary ULT) */
    sc_nes = 1 + nbase;
    ABT_OK(ABT_xstream_self(&sc_xs[0]));
    ABT_OK(ABT_xstream_get_main_pools(sc_xs[0], 1, &sc_pool[0]));
    vsa_name_xstream(sc_xs[0], "X0");
    vs_note("rk primary %p", xptr(sc_xs[0]));
    {
        ABT_thread self;
        ABT_OK(ABT_thread_self(&self));
        vsa_name_thread(self, "A%d", MAIN_ID);
    }
    static slot base[MAX_ES];
    for (int i = 1; i <= nbase; i++) {
        ABT_OK(ABT_pool_create_basic(ABT_POOL_FIFO, ABT_POOL_ACCESS_MPMC, ABT_TRUE, &sc_pool[i]));
        do_create(MAIN_ID, 3, -1, &base[i], &sc_pool[i]);
        sc_xs[i] = base[i].xs;
    }
    sc_nactors = nact;
    for (int i = 0; i < nact; i++) {
        sc_actors[i].kind = sc_rnd(100) < extpct ? AK_EXT : AK_ULT;
        sc_actors[i].es = sc_rnd(1 + nbase);
        sc_actors[i].body = rank_body;
        vs_note("actor A%d kind=%s es=%d", i, AKN[sc_actors[i].kind], sc_actors[i].es);
    }
    sc_launch();
    /* the primary ULT takes part while the others run */
    if (sc_rnd(2)) {
        static slot mine;
        do_create(MAIN_ID, 2, nbase + 1 + sc_rnd(nranks), &mine, NULL);
        do_getnum(MAIN_ID);
        if (mine.live)
            do_free(MAIN_ID, &mine);
    }
    sc_join_all();
    for (int i = 1; i <= nbase; i++)
        do_free(MAIN_ID, &base[i]);
    do_getnum(MAIN_ID);
    {
        int n = -1;
        ABT_OK(ABT_xstream_get_num(&n));
        VSA_CHECK(n == 1, "get_num = %d after every secondary stream was freed", n);
        for (int r = 1; r < MAXR; r++)
            VSA_CHECK(firm[r] == 0 && trans[r] == 0 && pend[r] == 0, "monitor bookkeeping: rank %d still claimed at the end", r);
    }
    vs_note("rk end calls=%ld granted=%ld refused=%ld same_rank_overlaps=%ld busy=%ld free_while_busy=%ld claims_while_busy=%ld", n_calls,
            n_granted, n_refused, n_same_rank_overlap, n_busy, n_free_while_busy, n_claims_while_busy);
    vs_unname(&g->xstream_list_lock);
    ABT_finalize();
    int rc = vsa_end();
    if (rc)
        fprintf(stderr, "MONITOR: %s\n", vs_first_failure());
    return rc;
}
