/* C04, native part: a recursive mutex held at nesting depth d is released only by the d-th unlock, for depths far beyond
 * what the controlled scenarios reach (the Lean model counts the depth in Nat; `bytesMutexNestingCnt` ties the width).
 * The owner nests lock / trylock / spinlock / lock_low / lock_high to several depths; a ULT on a second stream and an
 * external thread keep calling ABT_mutex_trylock and must never succeed while the owner still holds a level.
 * exit 0 ok, 1 violation */
#include <abt.h>
#include <pthread.h>
#include <stdio.h>
static ABT_mutex m;
static volatile long held;     /* levels the owner holds right now (0: not owner) */
static volatile int stop, bad;
static void probe(const char *who)
{
    while (!stop) {
        if (ABT_mutex_trylock(m) == ABT_SUCCESS) {
            long h = held;
            if (h > 0) {
                printf("%s acquired the recursive mutex while its owner still holds %ld level(s)\n", who, h);
                bad = 1;
            }
            ABT_mutex_unlock(m);
        }
    }
}
static void probe_ult(void *a) { (void)a; while (!stop) { if (ABT_mutex_trylock(m) == ABT_SUCCESS) { long h = held; if (h > 0) { printf("a ULT on another stream acquired the recursive mutex while its owner still holds %ld level(s)\n", h); bad = 1; } ABT_mutex_unlock(m); } ABT_thread_yield(); } }
static void *probe_ext(void *a) { (void)a; probe("an external thread"); return NULL; }
int main(void)
{
    ABT_init(0, NULL);
    ABT_mutex_attr at;
    ABT_mutex_attr_create(&at);
    ABT_mutex_attr_set_recursive(at, ABT_TRUE);
    ABT_mutex_create_with_attr(at, &m);
    ABT_mutex_attr_free(&at);
    ABT_xstream xs;
    ABT_xstream_create(ABT_SCHED_NULL, &xs);
    ABT_thread th;
    ABT_thread_create_on_xstream(xs, probe_ult, NULL, ABT_THREAD_ATTR_NULL, &th);
    pthread_t pt;
    pthread_create(&pt, NULL, probe_ext, NULL);
    static const long depths[] = { 1, 2, 5, 300, 40000, 65536, 65537, 70000, 131073 };
    for (unsigned k = 0; k < sizeof depths / sizeof depths[0] && !bad; k++) {
        long d = depths[k];
        for (long i = 0; i < d; i++) {
            int rc;
            switch (i % 5) {
                case 0: rc = ABT_mutex_lock(m); break;
                case 1: rc = ABT_mutex_trylock(m); break;
                case 2: rc = ABT_mutex_spinlock(m); break;
                case 3: rc = ABT_mutex_lock_low(m); break;
                default: rc = ABT_mutex_lock_high(m); break;
            }
            if (rc != ABT_SUCCESS) {
                printf("nested acquisition %ld of %ld by the owner returned %d\n", i + 1, d, rc);
                bad = 1;
                break;
            }
            held = i + 1;
        }
        for (long i = held; i > 0 && !bad; i--) {
            held = i - 1 > 0 ? i - 1 : 0; /* published before the unlock that may free the mutex */
            if (i - 1 > 0)
                held = i - 1;
            ABT_mutex_unlock(m);
        }
        held = 0;
    }
    stop = 1;
    pthread_join(pt, NULL);
    ABT_thread_free(&th);
    ABT_xstream_join(xs);
    ABT_xstream_free(&xs);
    ABT_mutex_free(&m);
    ABT_finalize();
    if (!bad)
        printf("ok\n");
    return bad;
}
