/* Real-API driver for C17 (ranks + stream lifecycle + main-scheduler replacement).
 *
 *   api_ranks                      line protocol on stdin (T2 differential against `driver rank`)
 *   api_ranks race  SEED NEXT NULT ITERS   creators racing for ranks from external threads and ULTs
 *   api_ranks replace SEED ROUNDS  one-caller-at-a-time main scheduler replacement family
 *
 * Streams are real pthread-backed execution streams.  After every op the global
 * stream list is dumped white-box: ranks following p_next from p_xstream_head,
 * ranks following p_prev back from the last node, and num_xstreams.  Output is
 * canonical (no addresses): one line per op line.
 *
 * Slots 0..NSLOT-1 hold secondary streams; slot -1 names the primary stream;
 * an empty slot is ABT_XSTREAM_NULL (the API must reject it).                      */
#ifdef WB_STREAM_C
#include "stream.c" /* white-box build: reach the static list functions (mode `wbstale`) */
#else
#include "abti.h"
#endif
#include <pthread.h>
#include <stdio.h>
#include <stdlib.h>
#include <string.h>
#include <unistd.h>

#define NSLOT 16
static ABT_xstream xs[NSLOT];
static ABT_xstream primary;

static const char *rcname(int rc)
{
    static char buf[4][64];
    static int k;
    char *b = buf[k++ & 3];
    size_t len = 0;
    if (ABT_error_get_str(rc, b, &len) != ABT_SUCCESS)
        snprintf(b, 64, "ERR_%d", rc);
    return b;
}

/* white-box dump: " | F: r0 r1 .. | B: rk .. r0 | n=N" */
static void dump(void)
{
    ABTI_global *g = ABTI_global_get_global();
    ABTI_xstream *p, *last = NULL;
    int guard = 0;
    printf(" | F:");
    for (p = g->p_xstream_head; p && guard < 64; p = p->p_next, guard++) {
        printf(" %d", p->rank);
        last = p;
    }
    if (p)
        printf(" LOOP");
    printf(" | B:");
    guard = 0;
    for (p = last; p && guard < 64; p = p->p_prev, guard++)
        printf(" %d", p->rank);
    if (p)
        printf(" LOOP");
    printf(" | n=%d\n", g->num_xstreams);
}

static ABT_xstream slot(long i)
{
    if (i == -1)
        return primary;
    if (i < 0 || i >= NSLOT)
        return ABT_XSTREAM_NULL;
    return xs[i];
}

static volatile int work_done;
static volatile int work_rank;
static void work_fn(void *arg)
{
    int r = -7;
    (void)arg;
    ABT_xstream_self_rank(&r);
    work_rank = r;
    __sync_synchronize();
    work_done = 1;
}

/* push a tiny ULT to the first main pool of stream i, wait (bounded) until it ran */
static void do_work(long i)
{
    ABT_xstream x = slot(i);
    ABT_pool pool;
    ABT_thread th;
    int rc = ABT_xstream_get_main_pools(x, 1, &pool);
    if (rc != ABT_SUCCESS) {
        printf("work %s", rcname(rc));
        return;
    }
    ABT_xstream_state xst;
    if (ABT_xstream_get_state(x, &xst) == ABT_SUCCESS && xst == ABT_XSTREAM_STATE_TERMINATED) {
        /* joined and not revived: nothing would run the ULT (do not wait for the time-out) */
        printf("work TIMEOUT");
        return;
    }
    work_done = 0;
    work_rank = -7;
    rc = ABT_thread_create(pool, work_fn, NULL, ABT_THREAD_ATTR_NULL, &th);
    if (rc != ABT_SUCCESS) {
        printf("work %s", rcname(rc));
        return;
    }
    int spins = 0;
    while (!work_done && spins < 10000) { /* <= ~5 s */
        usleep(500);
        spins++;
    }
    if (!work_done) {
        printf("work TIMEOUT");
        return;
    }
    ABT_thread_free(&th);
    printf("work ABT_SUCCESS ran-on=%d", work_rank);
}

static int line_mode(void)
{
    char line[256];
    int i;
    for (i = 0; i < NSLOT; i++)
        xs[i] = ABT_XSTREAM_NULL;
    while (fgets(line, sizeof line, stdin)) {
        long a, b;
        int rc, r;
        if (sscanf(line, "createw %ld %ld", &a, &b) == 2 && a >= 0 && a < NSLOT && xs[a] == ABT_XSTREAM_NULL) {
            rc = ABT_xstream_create_with_rank(ABT_SCHED_NULL, (int)b, &xs[a]);
            if (rc == ABT_SUCCESS) {
                r = -7;
                ABT_xstream_get_rank(xs[a], &r);
                printf("createw %s rank=%d", rcname(rc), r);
            } else {
                printf("createw %s%s", rcname(rc), xs[a] == ABT_XSTREAM_NULL ? "" : " HANDLE-NOT-NULL");
                xs[a] = ABT_XSTREAM_NULL;
            }
        } else if (sscanf(line, "create %ld", &a) == 1 && a >= 0 && a < NSLOT && xs[a] == ABT_XSTREAM_NULL) {
            rc = ABT_xstream_create(ABT_SCHED_NULL, &xs[a]);
            if (rc == ABT_SUCCESS) {
                r = -7;
                ABT_xstream_get_rank(xs[a], &r);
                printf("create %s rank=%d", rcname(rc), r);
            } else {
                printf("create %s", rcname(rc));
                xs[a] = ABT_XSTREAM_NULL;
            }
        } else if (sscanf(line, "setrank %ld %ld", &a, &b) == 2 && a >= -1 && a < NSLOT) {
            rc = ABT_xstream_set_rank(slot(a), (int)b);
            printf("setrank %s", rcname(rc));
        } else if (sscanf(line, "join %ld", &a) == 1 && a >= -1 && a < NSLOT) {
            rc = ABT_xstream_join(slot(a));
            printf("join %s", rcname(rc));
        } else if (sscanf(line, "revive %ld", &a) == 1 && a >= -1 && a < NSLOT) {
            rc = ABT_xstream_revive(slot(a));
            printf("revive %s", rcname(rc));
        } else if (sscanf(line, "free %ld", &a) == 1 && a >= -1 && a < NSLOT) {
            ABT_xstream h = slot(a);
            rc = ABT_xstream_free(&h);
            printf("free %s", rcname(rc));
            if (rc == ABT_SUCCESS) {
                if (h != ABT_XSTREAM_NULL)
                    printf(" HANDLE-NOT-NULL");
                if (a >= 0)
                    xs[a] = ABT_XSTREAM_NULL;
            }
        } else if (sscanf(line, "getrank %ld", &a) == 1 && a >= -1 && a < NSLOT) {
            r = -7;
            rc = ABT_xstream_get_rank(slot(a), &r);
            if (rc == ABT_SUCCESS)
                printf("getrank %s rank=%d", rcname(rc), r);
            else
                printf("getrank %s", rcname(rc));
        } else if (strncmp(line, "getnum", 6) == 0) {
            r = -7;
            rc = ABT_xstream_get_num(&r);
            printf("getnum %s num=%d", rcname(rc), r);
        } else if (strncmp(line, "selfrank", 8) == 0) {
            r = -7;
            rc = ABT_xstream_self_rank(&r);
            printf("selfrank %s rank=%d", rcname(rc), r);
        } else if (sscanf(line, "work %ld", &a) == 1 && a >= 0 && a < NSLOT) {
            do_work(a);
        } else if (line[0] == '\n') {
            continue;
        } else {
            printf("bad-op\n");
            fflush(stdout);
            continue;
        }
        dump();
        fflush(stdout);
    }
    for (i = 0; i < NSLOT; i++)
        if (xs[i] != ABT_XSTREAM_NULL)
            ABT_xstream_free(&xs[i]);
    return 0;
}

/* ------------------------------------------------------------------------- */
/* race mode: external threads and ULTs create / create_with_rank / set_rank /
 * free concurrently.  Oracle: a rank is *owned* from the successful return of
 * the granting call until the owner starts to give it up; two owners of one
 * rank at the same time = two live streams with equal rank.                   */
#define MAXRANK 40
static int owner[MAXRANK + 64]; /* 0 free, else 1+worker id */
static volatile int race_bad;
static long n_create, n_createw_ok, n_createw_fail, n_set_ok, n_set_fail, n_free;
static int race_iters;

static uint64_t xs64(uint64_t *s)
{
    uint64_t x = *s;
    x ^= x >> 12;
    x ^= x << 25;
    x ^= x >> 27;
    *s = x;
    return x * 0x2545F4914F6CDD1DULL;
}

static void claim(int r, int me, const char *how)
{
    if (r < 0 || r >= MAXRANK + 64) {
        fprintf(stdout, "race VIOLATION %s granted out-of-range rank %d\n", how, r);
        race_bad = 1;
        return;
    }
    int old = __sync_val_compare_and_swap(&owner[r], 0, me + 1);
    if (old != 0) {
        fprintf(stdout, "race VIOLATION rank %d granted by %s to worker %d while worker %d holds it\n", r, how, me,
                old - 1);
        race_bad = 1;
    }
}
static void unclaim(int r, int me)
{
    if (r >= 0 && r < MAXRANK + 64)
        __sync_val_compare_and_swap(&owner[r], me + 1, 0);
}

static void churn(int me, uint64_t seed)
{
    uint64_t s = seed * 0x9E3779B97F4A7C15ULL + 77 + me;
    ABT_xstream mine[3] = { ABT_XSTREAM_NULL, ABT_XSTREAM_NULL, ABT_XSTREAM_NULL };
    int myrank[3] = { -1, -1, -1 };
    int it;
    for (it = 0; it < race_iters && !race_bad; it++) {
        int k = (int)(xs64(&s) % 3);
        int what = (int)(xs64(&s) % 100);
        if (mine[k] == ABT_XSTREAM_NULL) {
            int rc, r = -7;
            if (what < 50) {
                rc = ABT_xstream_create(ABT_SCHED_NULL, &mine[k]);
                if (rc != ABT_SUCCESS) {
                    printf("race VIOLATION create failed %s\n", rcname(rc));
                    race_bad = 1;
                    break;
                }
                ABT_xstream_get_rank(mine[k], &r);
                claim(r, me, "create");
                myrank[k] = r;
                __sync_fetch_and_add(&n_create, 1);
            } else {
                int want = (int)(xs64(&s) % MAXRANK);
                rc = ABT_xstream_create_with_rank(ABT_SCHED_NULL, want, &mine[k]);
                if (rc == ABT_SUCCESS) {
                    ABT_xstream_get_rank(mine[k], &r);
                    if (r != want) {
                        printf("race VIOLATION create_with_rank %d granted %d\n", want, r);
                        race_bad = 1;
                    }
                    claim(r, me, "create_with_rank");
                    myrank[k] = r;
                    __sync_fetch_and_add(&n_createw_ok, 1);
                } else {
                    if (rc != ABT_ERR_INV_XSTREAM_RANK || mine[k] != ABT_XSTREAM_NULL) {
                        printf("race VIOLATION create_with_rank failed with %s\n", rcname(rc));
                        race_bad = 1;
                    }
                    mine[k] = ABT_XSTREAM_NULL;
                    __sync_fetch_and_add(&n_createw_fail, 1);
                }
            }
        } else if (what < 45) {
            int want = (int)(xs64(&s) % MAXRANK), r = -7;
            /* the old rank is given up somewhere inside the call: stop owning it before the call
             * (owning it longer would blame a legitimate re-grant of it to somebody else) */
            if (want != myrank[k])
                unclaim(myrank[k], me);
            int rc = ABT_xstream_set_rank(mine[k], want);
            ABT_xstream_get_rank(mine[k], &r);
            if (rc == ABT_SUCCESS) {
                if (r != want) {
                    printf("race VIOLATION set_rank %d left rank %d\n", want, r);
                    race_bad = 1;
                }
                if (want != myrank[k]) {
                    claim(want, me, "set_rank");
                    myrank[k] = want;
                }
                __sync_fetch_and_add(&n_set_ok, 1);
            } else {
                if (rc != ABT_ERR_INV_XSTREAM_RANK || r != myrank[k]) {
                    printf("race VIOLATION failed set_rank(%d) rc=%s rank now %d was %d\n", want, rcname(rc), r,
                           myrank[k]);
                    race_bad = 1;
                }
                /* refused: the stream held its old rank all along, nobody else can have been granted it */
                if (want != myrank[k])
                    claim(myrank[k], me, "set_rank(refused, re-own)");
                __sync_fetch_and_add(&n_set_fail, 1);
            }
        } else {
            unclaim(myrank[k], me);
            int rc = ABT_xstream_free(&mine[k]);
            if (rc != ABT_SUCCESS || mine[k] != ABT_XSTREAM_NULL) {
                printf("race VIOLATION free failed %s\n", rcname(rc));
                race_bad = 1;
                mine[k] = ABT_XSTREAM_NULL;
            }
            myrank[k] = -1;
            __sync_fetch_and_add(&n_free, 1);
        }
    }
    for (it = 0; it < 3; it++)
        if (mine[it] != ABT_XSTREAM_NULL) {
            unclaim(myrank[it], me);
            ABT_xstream_free(&mine[it]);
        }
}

static uint64_t race_seed;
static void *ext_main(void *arg)
{
    churn((int)(long)arg, race_seed);
    return NULL;
}
static void ult_main(void *arg)
{
    churn((int)(long)arg, race_seed);
}

static int race_mode(int argc, char **argv)
{
    race_seed = strtoull(argv[2], 0, 10);
    int next = atoi(argv[3]), nult = atoi(argv[4]);
    race_iters = atoi(argv[5]);
    (void)argc;
    pthread_t th[16];
    ABT_xstream wx[16];
    ABT_thread wt[16];
    int i;
    owner[0] = 1000; /* primary */
    /* worker streams that host the ULT callers: fixed high ranks, outside the contested range */
    for (i = 0; i < nult; i++) {
        int rc = ABT_xstream_create_with_rank(ABT_SCHED_NULL, MAXRANK + 1 + i, &wx[i]);
        if (rc != ABT_SUCCESS) {
            printf("race VIOLATION worker stream create %s\n", rcname(rc));
            return 1;
        }
    }
    for (i = 0; i < nult; i++) {
        ABT_pool pool;
        ABT_xstream_get_main_pools(wx[i], 1, &pool);
        ABT_thread_create(pool, ult_main, (void *)(long)(100 + i), ABT_THREAD_ATTR_NULL, &wt[i]);
    }
    for (i = 0; i < next; i++)
        pthread_create(&th[i], NULL, ext_main, (void *)(long)i);
    for (i = 0; i < next; i++)
        pthread_join(th[i], NULL);
    for (i = 0; i < nult; i++)
        ABT_thread_free(&wt[i]);
    /* quiescent: only primary + worker streams are live */
    int num = -7;
    ABT_xstream_get_num(&num);
    printf("race %s create=%ld createw_ok=%ld createw_fail=%ld set_ok=%ld set_fail=%ld free=%ld num=%d expect=%d",
           race_bad ? "BAD" : "ok", n_create, n_createw_ok, n_createw_fail, n_set_ok, n_set_fail, n_free, num,
           1 + nult);
    dump();
    for (i = 0; i < nult; i++)
        ABT_xstream_free(&wx[i]);
    ABT_xstream_get_num(&num);
    printf("race-end num=%d", num);
    dump();
    return race_bad ? 1 : 0;
}

/* ------------------------------------------------------------------------- */
/* replace mode: one caller at a time replaces the main scheduler of the stream
 * it runs on, several times in a row, with work pending in old and new pools. */
static volatile int rp_units_done;
static volatile int rp_wrong_stream;
static volatile int rp_target;  /* the caller blocks on rp_ev until this many units ran */
static ABT_eventual rp_ev;
static ABT_xstream rp_stream;
static void rp_unit(void *arg)
{
    ABT_xstream me;
    (void)arg;
    ABT_xstream_self(&me);
    if (me != rp_stream)
        __sync_fetch_and_add(&rp_wrong_stream, 1);
    if (__sync_add_and_fetch(&rp_units_done, 1) == rp_target)
        ABT_eventual_set(rp_ev, NULL, 0);
}

typedef struct {
    uint64_t seed;
    int rounds;
    volatile int stage;      /* progress marker for the watchdog */
    volatile int finished;
    volatile int failed;
    char why[200];
} rp_ctl;

static const char *predef_name(ABT_sched_predef p)
{
    return p == ABT_SCHED_BASIC ? "BASIC" : p == ABT_SCHED_PRIO ? "PRIO" : p == ABT_SCHED_RANDWS ? "RANDWS" : "?";
}

#define RP_MAXPOOLS 64
static ABT_pool rp_pools[RP_MAXPOOLS];
static int rp_npools;

static void rp_caller(void *arg)
{
    rp_ctl *c = (rp_ctl *)arg;
    uint64_t s = c->seed * 0x9E3779B97F4A7C15ULL + 5;
    ABT_sched_predef kinds[3] = { ABT_SCHED_BASIC, ABT_SCHED_PRIO, ABT_SCHED_RANDWS };
    int round, i;
    ABT_pool oldpool;
    ABT_xstream_get_main_pools(rp_stream, 1, &oldpool);
    for (round = 0; round < c->rounds; round++) {
        ABT_sched_predef kind = kinds[xs64(&s) % 3];
        int npools = kind == ABT_SCHED_PRIO ? 1 + (int)(xs64(&s) % 3) : 1;
        int via_handle = (int)(xs64(&s) % 2);
        int nold = (int)(xs64(&s) % 4), nnew = (int)(xs64(&s) % 4);
        ABT_pool np[3];
        c->stage = round * 10 + 1;
        for (i = 0; i < npools; i++) {
            if (rp_npools >= RP_MAXPOOLS) {
                c->finished = 1;
                return;
            }
            ABT_pool_create_basic(ABT_POOL_FIFO, ABT_POOL_ACCESS_MPMC, ABT_FALSE, &np[i]);
            rp_pools[rp_npools++] = np[i];
        }
        int before = rp_units_done;
        ABT_eventual_reset(rp_ev);
        rp_target = before + nold + nnew;
        /* work pending in the old scheduler's pool and in the new scheduler's pools */
        for (i = 0; i < nold; i++)
            ABT_thread_create(oldpool, rp_unit, NULL, ABT_THREAD_ATTR_NULL, NULL);
        for (i = 0; i < nnew; i++)
            ABT_thread_create(np[xs64(&s) % npools], rp_unit, NULL, ABT_THREAD_ATTR_NULL, NULL);
        c->stage = round * 10 + 2;
        int rc;
        if (via_handle) {
            ABT_sched sc;
            ABT_sched_config cfg;
            /* automatic free: the runtime frees the scheduler when it is replaced in turn */
            ABT_sched_config_create(&cfg, ABT_sched_config_automatic, ABT_TRUE, ABT_sched_config_var_end);
            rc = ABT_sched_create_basic(kind, npools, np, cfg, &sc);
            ABT_sched_config_free(&cfg);
            if (rc == ABT_SUCCESS)
                rc = ABT_xstream_set_main_sched(rp_stream, sc);
        } else {
            rc = ABT_xstream_set_main_sched_basic(rp_stream, kind, npools, np);
        }
        /* the caller continues here, under the new scheduler */
        c->stage = round * 10 + 3;
        if (rc != ABT_SUCCESS) {
            snprintf(c->why, sizeof c->why, "round %d (%s): set_main_sched returned %s", round, predef_name(kind),
                     rcname(rc));
            c->failed = 1;
            break;
        }
        ABT_xstream me;
        ABT_xstream_self(&me);
        ABT_pool cur[3] = { ABT_POOL_NULL, ABT_POOL_NULL, ABT_POOL_NULL };
        ABT_xstream_get_main_pools(rp_stream, npools, cur);
        ABT_pool mypool;
        ABT_thread self;
        ABT_thread_self(&self);
        ABT_thread_get_last_pool(self, &mypool);
        if (me != rp_stream || cur[0] != np[0] || mypool != np[0]) {
            snprintf(c->why, sizeof c->why,
                     "round %d (%s): after replacement caller on-stream=%d main-pool-is-new=%d caller-pool-is-new=%d",
                     round, predef_name(kind), me == rp_stream, cur[0] == np[0], mypool == np[0]);
            c->failed = 1;
            break;
        }
        /* all units that were pending in either scheduler's pools complete.  The caller
         * blocks (it must not spin in pool 0: PRIO would starve the lower pools); the
         * watchdog in main() reports a stall. */
        if (nold + nnew > 0)
            ABT_eventual_wait(rp_ev, NULL);
        c->stage = round * 10 + 4;
        if (rp_units_done < before + nold + nnew) {
            snprintf(c->why, sizeof c->why, "round %d (%s): %d of %d pending units ran", round, predef_name(kind),
                     rp_units_done - before, nold + nnew);
            c->failed = 1;
            break;
        }
        printf("replace round=%d sched=%s pools=%d via=%s old-pending=%d new-pending=%d caller-continued units-done\n",
               round, predef_name(kind), npools, via_handle ? "handle" : "basic", nold, nnew);
        oldpool = np[0];
    }
    c->finished = 1;
}

static int replace_mode(int argc, char **argv)
{
    rp_ctl c;
    memset(&c, 0, sizeof c);
    c.seed = strtoull(argv[2], 0, 10);
    c.rounds = atoi(argv[3]);
    (void)argc;
    ABT_pool p0;
    ABT_sched s0;
    ABT_eventual_create(0, &rp_ev);
    ABT_pool_create_basic(ABT_POOL_FIFO, ABT_POOL_ACCESS_MPMC, ABT_FALSE, &p0);
    rp_pools[rp_npools++] = p0;
    ABT_sched_create_basic(ABT_SCHED_BASIC, 1, &p0, ABT_SCHED_CONFIG_NULL, &s0);
    if (ABT_xstream_create(s0, &rp_stream) != ABT_SUCCESS) {
        printf("replace FAIL cannot create stream\n");
        return 1;
    }
    ABT_thread_create(p0, rp_caller, &c, ABT_THREAD_ATTR_NULL, NULL);
    int waited = 0, last = -1, stall = 0;
    while (!c.finished && !c.failed) {
        usleep(1000);
        waited++;
        if (c.stage == last)
            stall++;
        else
            stall = 0, last = c.stage;
        if (stall > 8000) { /* 8 s without progress */
            printf("replace TIMEOUT stage=%d (round %d step %d): caller did not continue\n", c.stage, c.stage / 10,
                   c.stage % 10);
            fflush(stdout);
            _exit(3);
        }
    }
    if (c.failed) {
        printf("replace FAIL %s\n", c.why);
        fflush(stdout);
        _exit(1);
    }
    if (rp_wrong_stream) {
        printf("replace FAIL %d units ran on another stream\n", rp_wrong_stream);
        fflush(stdout);
        _exit(1);
    }
    /* a replaced stream still joins, can have its scheduler replaced while terminated,
     * revives under that scheduler and runs work */
    int rc = ABT_xstream_join(rp_stream);
    ABT_pool pz;
    ABT_pool_create_basic(ABT_POOL_FIFO, ABT_POOL_ACCESS_MPMC, ABT_FALSE, &pz);
    int rc2 = ABT_xstream_set_main_sched_basic(rp_stream, ABT_SCHED_BASIC, 1, &pz);
    int before = rp_units_done;
    rp_target = -1;
    ABT_thread_create(pz, rp_unit, NULL, ABT_THREAD_ATTR_NULL, NULL);
    int rc3 = ABT_xstream_revive(rp_stream);
    int spins = 0;
    while (rp_units_done < before + 1 && spins < 10000) {
        usleep(500);
        spins++;
    }
    printf("replace terminated-stream join=%s set_main_sched=%s revive=%s unit-ran=%d\n", rcname(rc), rcname(rc2),
           rcname(rc3), rp_units_done - before);
    if (rc != ABT_SUCCESS || rc2 != ABT_SUCCESS || rc3 != ABT_SUCCESS || rp_units_done != before + 1 ||
        rp_wrong_stream) {
        printf("replace FAIL replacement on a terminated stream\n");
        fflush(stdout);
        _exit(1);
    }
    rc = ABT_xstream_free(&rp_stream);
    printf("replace ok rounds=%d units=%d free=%s\n", c.rounds, rp_units_done, rcname(rc));
    return rc == ABT_SUCCESS ? 0 : 1;
}

#ifdef WB_STREAM_C
/* The latent path of xstream_add_xstream_list: insertion in front of the head does not write
 * p_newxstream->p_prev; xstream_change_rank leaves the moved node's old p_prev in place.  Not
 * reachable through the API (the primary stream holds rank 0 at the head for ever), so the
 * static functions are called on a fabricated list [a(rank 3), b(rank 5)]: move b to rank 1. */
static int wbstale_mode(void)
{
    static ABTI_global g;
    static ABTI_xstream a, b;
    memset(&g, 0, sizeof g);
    ABTD_spinlock_clear(&g.xstream_list_lock);
    g.max_xstreams = 64;
    a.rank = 3;
    b.rank = 5;
    a.p_prev = NULL;
    a.p_next = &b;
    b.p_prev = &a;
    b.p_next = NULL;
    g.p_xstream_head = &a;
    g.num_xstreams = 2;
    ABT_bool ok = xstream_change_rank(&g, &b, 1);
#define NM(p) ((p) == &a ? "a" : (p) == &b ? "b" : (p) == NULL ? "NULL" : "?")
    printf("wbstale granted=%d head=%s b.rank=%d b.prev=%s b.next=%s a.prev=%s a.next=%s\n", ok == ABT_TRUE,
           NM(g.p_xstream_head), b.rank, NM(b.p_prev), NM(b.p_next), NM(a.p_prev), NM(a.p_next));
    return 0;
}
#endif

int main(int argc, char **argv)
{
    int rc;
    setvbuf(stdout, NULL, _IOLBF, 0);
#ifdef WB_STREAM_C
    if (argc >= 2 && strcmp(argv[1], "wbstale") == 0)
        return wbstale_mode();
#endif
    if (ABT_init(0, NULL) != ABT_SUCCESS) {
        printf("init failed\n");
        return 2;
    }
    ABT_xstream_self(&primary);
    if (argc >= 6 && strcmp(argv[1], "race") == 0)
        rc = race_mode(argc, argv);
    else if (argc >= 4 && strcmp(argv[1], "replace") == 0)
        rc = replace_mode(argc, argv);
    else
        rc = line_mode();
    fflush(stdout);
    if (rc != 0)
        _exit(rc);
    ABT_finalize();
    return 0;
}
