/* White-box differential driver for ABTU_hashtable (C20).
 * Includes the .c file so that the static get_element() used for the dump is
 * the tree's own.  Line protocol identical to `driver htable`. */
#include "util/hashtable.c"
#include <stdio.h>

static ABTU_hashtable *ht;

static size_t bucket_of(int key)
{
    const ssize_t n = (ssize_t)ht->num_entries;
    ssize_t t = ((ssize_t)key) % n;
    return (size_t)(t < 0 ? t + n : t);
}

static void dump_bucket(int key)
{
    size_t i = bucket_of(key);
    ABTU_hashtable_element *e = get_element(ht, i);
    printf(" | b%zu: ", i);
    if (e->data)
        printf("H%d=%lu", e->key, *(unsigned long *)e->data);
    else
        printf("-");
    for (e = e->p_next; e; e = e->p_next)
        printf(" %d=%lu", e->key, *(unsigned long *)e->data);
    printf("\n");
}

int main(void)
{
    char line[256];
    while (fgets(line, sizeof line, stdin)) {
        long a;
        unsigned long v;
        if (sscanf(line, "new %ld", &a) == 1) {
            if (ht)
                ABTU_hashtable_free(ht);
            ht = NULL;
            int r = ABTU_hashtable_create((size_t)a, sizeof(unsigned long), &ht);
            printf(r == ABT_SUCCESS ? "ok\n" : "err\n");
        } else if (sscanf(line, "set %ld %lu", &a, &v) == 2) {
            int ow = -7;
            int r = ABTU_hashtable_set(ht, (int)a, &v, &ow);
            if (r != ABT_SUCCESS)
                printf("set err");
            else
                printf("set %d", ow);
            dump_bucket((int)a);
        } else if (sscanf(line, "get %ld", &a) == 1) {
            int found = -7;
            unsigned long out = 0xdeadbeef;
            ABTU_hashtable_get(ht, (int)a, &out, &found);
            if (found == 1)
                printf("get %lu\n", out);
            else if (found == 0)
                printf("get none\n");
            else
                printf("get untouched\n");
        } else if (sscanf(line, "del %ld", &a) == 1) {
            int deleted = -7;
            ABTU_hashtable_delete(ht, (int)a, &deleted);
            if (deleted == -7)
                printf("del untouched");
            else
                printf("del %d", deleted);
            dump_bucket((int)a);
        } else if (line[0] != '\n') {
            printf("bad-op\n");
        }
    }
    if (ht)
        ABTU_hashtable_free(ht);
    return 0;
}
