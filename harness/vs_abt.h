/* Argobots-side support for vsched scenarios (white box: includes abti.h). */
#ifndef VS_ABT_H
#define VS_ABT_H
#include "abti.h"
#include "vsched.h"
#include <pthread.h>

void vsa_setup(int argc, char **argv); /* argv: <seed> <mode> <logpath> [scenario params...] ; calls vs_init after ABT_init is done by caller? no: see below */
void vsa_begin(void);                  /* install unit fn, dump offsets, start controlling (call after ABT_init + object creation) */
int vsa_end(void);                     /* stop controlling; returns exit status (0 ok / 1 monitor failure) */
void vsa_name_thread(ABT_thread t, const char *fmt, ...);
void vsa_name_pool(ABT_pool p, const char *fmt, ...);
void vsa_name_xstream(ABT_xstream x, const char *fmt, ...);
void vsa_watch_waitlist(const void *obj, const ABTI_waitlist *wl); /* log `S .. Q <obj> head tail | node:next:prev:state ...` at every lock release of obj */
extern uint64_t vsa_seed;
extern const char *vsa_mode, *vsa_logpath;
extern int vsa_argc;
extern char **vsa_argv; /* remaining scenario params */
long vsa_param(int i, long dflt);

#define VSA_CHECK(cond, ...)                                                   \
    do {                                                                       \
        if (!(cond))                                                           \
            vs_fail(__VA_ARGS__);                                              \
    } while (0)
#define ABT_OK(call)                                                           \
    do {                                                                       \
        int r__ = (call);                                                      \
        if (r__ != ABT_SUCCESS)                                                \
            vs_fail("%s returned %d at %s:%d", #call, r__, __FILE__, __LINE__); \
    } while (0)
#endif
