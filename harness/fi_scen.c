/* C18 scenario driver:  fi_scen <scenario> <k> [trace]
 *   k = 0  : run the routine once unarmed inside a counting window (reports N)
 *   k >= 1 : fail the k-th acquisition made by the calling thread inside the routine
 * One JSON object on stdout; a crash / abort / hang of this process IS a result
 * (checks/c18.py reads the exit status and the stderr breadcrumbs).
 * White-box (#include "abti.h"): memory-pool element accounting and a few fields
 * that no getter exposes (sched->used, pool->num_scheds, thread->p_keytable). */
#define _GNU_SOURCE
#include "abti.h"
#include "faultinj.h"
#include <stdio.h>
#include <stdlib.h>
#include <string.h>
#include <stdarg.h>
#include <unistd.h>
#include <signal.h>

#define F_FRESH 1   /* no runtime before the call (ABT_init scenarios) */
#define F_INULT 2   /* the call is made by a ULT running on the primary stream */
#define F_SMALL 4   /* tiny memory-pool buckets: the routine reaches bucket/page allocation */
#define F_KT8 8     /* ABT_KEY_TABLE_SIZE=8: key-table element needs its own descriptor */
#define F_AFF 16    /* ABT_SET_AFFINITY list (affinity parser allocations in ABT_init) */
#define F_MALLOCLP 32 /* ABT_MEM_LP_ALLOC=malloc */
#define F_NOOUT 64  /* routine has no output handle */
#define F_QUICK 128 /* member of the quick tier */
#define F_DRAIN 256 /* prelude drains the caller's stack+descriptor pools to their last element */
#define F_EXT 512   /* the call is made by an external pthread (not an execution stream) */
#define F_DML (F_SMALL | F_DRAIN | F_MALLOCLP) /* drained pools, page allocation has no fallback */
#define F_UMAP 1024 /* the call creates a unit of a user-defined pool: the user callback's own allocation and the
                     * runtime's unit-map allocation must both be among the enumerated acquisitions */

/* parameters of a generated scenario (see gen_scens): every configuration dimension that selects a
 * different branch of a creation / association ladder */
typedef struct par {
    short fam, api, attr, pool, src, sk, tgt, mem;
} par;

typedef struct scen {
    const char *name;
    int flags;
    void (*prep)(void);
    int (*call)(void);
    void *nullh;         /* documented NULL handle of out[0] */
    void (*fin)(void);   /* after a successful call: use the result, then free it */
    const char *routine; /* translated routine whose callee sequence is compared (trace mode) */
    par p;               /* generated scenarios only */
} scen;

/* ------------------------------------------------------------------ report */
#define MAXP 32
static char probs[MAXP][256];
static int n_probs;
static const char *phase_s = "start";
static char notes[8][160];
static int n_notes;
static void note(const char *fmt, ...)
{
    if (n_notes >= 8)
        return;
    va_list ap;
    va_start(ap, fmt);
    vsnprintf(notes[n_notes++], sizeof notes[0], fmt, ap);
    va_end(ap);
}
static void problem(const char *fmt, ...)
{
    if (n_probs >= MAXP)
        return;
    va_list ap;
    va_start(ap, fmt);
    vsnprintf(probs[n_probs], sizeof probs[0], fmt, ap);
    va_end(ap);
    for (char *c = probs[n_probs]; *c; c++)
        if (*c == '"' || *c == '\\' || *c == '\n')
            *c = ' ';
    n_probs++;
}
static void phase(const char *p)
{
    phase_s = p;
    fi_note("PHASE ");
    fi_note(p);
    fi_note("\n");
}
#define OK(x)                                                                  \
    do {                                                                       \
        int rc__ = (x);                                                        \
        if (rc__ != ABT_SUCCESS)                                               \
            problem("%s: %s -> %d", phase_s, #x, rc__);                        \
    } while (0)

#define SENT(i) ((void *)(uintptr_t)(0xABCDEF00u + (unsigned)(i)))
static void *out[8];
static void reset_out(void)
{
    for (int i = 0; i < 8; i++)
        out[i] = SENT(i);
}

/* ------------------------------------------------------------------ memory pool accounting */
static long lifo_len(ABTI_sync_lifo *l)
{
    void *p;
    size_t tag;
    ABTD_atomic_relaxed_load_non_atomic_tagged_ptr(&l->p_top, &p, &tag);
    long n = 0;
    for (ABTI_sync_lifo_element *e = (ABTI_sync_lifo_element *)p; e; e = e->p_next)
        n++;
    return n;
}
static long page_carved(ABTI_mem_pool_global_pool *g, ABTI_mem_pool_page *pg)
{
    return (long)((pg->page_size - sizeof(ABTI_mem_pool_page) - pg->mem_extra_size) / g->header_size);
}
static long mp_carved(ABTI_mem_pool_global_pool *g)
{
    void *p;
    size_t tag;
    long n = 0;
    ABTD_atomic_relaxed_load_non_atomic_tagged_ptr(&g->mem_page_lifo.p_top, &p, &tag);
    for (ABTI_sync_lifo_element *e = (ABTI_sync_lifo_element *)p; e; e = e->p_next)
        n += page_carved(g, (ABTI_mem_pool_page *)e);
    for (ABTI_mem_pool_page *pg = (ABTI_mem_pool_page *)ABTD_atomic_relaxed_load_ptr(&g->p_mem_page_empty); pg;
         pg = pg->p_next_empty_page)
        n += page_carved(g, pg);
    return n;
}
static int mp_is_page(ABTI_mem_pool_global_pool *g, void *mem)
{
    void *p;
    size_t tag;
    ABTD_atomic_relaxed_load_non_atomic_tagged_ptr(&g->mem_page_lifo.p_top, &p, &tag);
    for (ABTI_sync_lifo_element *e = (ABTI_sync_lifo_element *)p; e; e = e->p_next)
        if (((ABTI_mem_pool_page *)e)->mem == mem)
            return 1;
    for (ABTI_mem_pool_page *pg = (ABTI_mem_pool_page *)ABTD_atomic_relaxed_load_ptr(&g->p_mem_page_empty); pg;
         pg = pg->p_next_empty_page)
        if (pg->mem == mem)
            return 1;
    return 0;
}
static long mp_local_free(ABTI_mem_pool_local_pool *l)
{
    return (long)(l->bucket_index * l->num_headers_per_bucket + l->buckets[l->bucket_index]->bucket_info.num_headers);
}
/* elements handed out and not returned = carved - free(global) - free(all local pools) */
static void mp_outstanding(long *stack, long *desc)
{
    ABTI_global *g = ABTI_global_get_global_or_null();
    *stack = *desc = 0;
    if (!g)
        return;
    long fs = lifo_len(&g->mem_pool_stack.bucket_lifo) * (long)g->mem_pool_stack.num_headers_per_bucket;
    long fd = lifo_len(&g->mem_pool_desc.bucket_lifo) * (long)g->mem_pool_desc.num_headers_per_bucket;
    if (g->mem_pool_stack.partial_bucket)
        fs += (long)g->mem_pool_stack.partial_bucket->bucket_info.num_headers;
    if (g->mem_pool_desc.partial_bucket)
        fd += (long)g->mem_pool_desc.partial_bucket->bucket_info.num_headers;
    fs += mp_local_free(&g->mem_pool_stack_ext);
    fd += mp_local_free(&g->mem_pool_desc_ext);
    for (ABTI_xstream *x = g->p_xstream_head; x; x = x->p_next) {
        fs += mp_local_free(&x->mem_pool_stack);
        fd += mp_local_free(&x->mem_pool_desc);
    }
    *stack = mp_carved(&g->mem_pool_stack) - fs;
    *desc = mp_carved(&g->mem_pool_desc) - fd;
}
static int is_pool_page(void *mem)
{
    ABTI_global *g = ABTI_global_get_global_or_null();
    return g && (mp_is_page(&g->mem_pool_stack, mem) || mp_is_page(&g->mem_pool_desc, mem));
}

/* ------------------------------------------------------------------ unit -> work-unit map (white box)
 * mirrors the private `unit_to_thread` of src/unit.c: entries are allocated on demand, emptied (unit = NULL) by
 * unmap and kept in their bucket for re-use until ABT_finalize.  An EMPTY (ABT_UNIT_NULL) entry left by a failed call is a cached
 * block (like a memory-pool page), a NON-EMPTY one that was not there before is a dangling mapping. */
typedef struct u2t { ABTD_atomic_ptr unit; ABTI_thread *p_thread; struct u2t *p_next; } u2t;
static int map_entry_state(void *blk) /* 0: not a map entry, 1: empty entry, 2: entry in use */
{
    ABTI_global *g = ABTI_global_get_global_or_null();
    if (!g)
        return 0;
    for (size_t i = 0; i < ABTI_UNIT_HASH_TABLE_SIZE; i++)
        for (u2t *e = (u2t *)ABTD_atomic_acquire_load_ptr(&g->unit_to_thread_entires[i].list.val); e; e = e->p_next)
            if ((void *)e == blk)
                return (ABT_unit)ABTD_atomic_acquire_load_ptr(&e->unit) != ABT_UNIT_NULL ? 2 : 1;
    return 0;
}
static void map_count(long *used, long *total)
{
    ABTI_global *g = ABTI_global_get_global_or_null();
    *used = *total = 0;
    if (!g)
        return;
    for (size_t i = 0; i < ABTI_UNIT_HASH_TABLE_SIZE; i++)
        for (u2t *e = (u2t *)ABTD_atomic_acquire_load_ptr(&g->unit_to_thread_entires[i].list.val); e; e = e->p_next) {
            (*total)++;
            if ((ABT_unit)ABTD_atomic_acquire_load_ptr(&e->unit) != ABT_UNIT_NULL)
                (*used)++;
        }
}

/* ------------------------------------------------------------------ user-defined pool / scheduler */
/* Two user-defined pool implementations:
 *  - "ud" (ABT_pool_user_def): a unit is a never-reused cell of a static slab plus one malloc'ed payload.  The
 *    malloc is the user callback's own (injectable) allocation; a never-reused handle lands in a hash bucket of the
 *    runtime's unit->thread map that has no free entry, so the runtime's map allocation is reached every time.
 *  - "lg" (legacy ABT_pool_def): a unit is a malloc'ed node, so handles are re-used and the map's "reuse a free
 *    entry" branch is taken as well. */
typedef struct unode { ABT_thread th; struct unode *next; void *payload; long serial; } unode;
typedef struct uq { unode *head, *tail; volatile int lk; long n; } uq;
#define NSLAB 8192
static unode slab[NSLAB] __attribute__((aligned(64)));
static int slab_next;
static void uq_lock(uq *q) { while (__atomic_test_and_set(&q->lk, __ATOMIC_ACQUIRE)) ; }
static void uq_unlock(uq *q) { __atomic_clear(&q->lk, __ATOMIC_RELEASE); }
static uq *uq_of(ABT_pool p)
{
    void *d = NULL;
    ABT_pool_get_data(p, &d);
    return (uq *)d;
}
static ABT_unit up_create_unit(ABT_pool p, ABT_thread t)
{
    (void)p;
    void *pl = malloc(24); /* user allocation: an injectable site too */
    if (!pl)
        return ABT_UNIT_NULL;
    int i = __atomic_fetch_add(&slab_next, 1, __ATOMIC_SEQ_CST);
    if (i >= NSLAB) {
        free(pl);
        return ABT_UNIT_NULL;
    }
    unode *n = &slab[i];
    n->th = t;
    n->next = NULL;
    n->payload = pl;
    n->serial = i;
    return (ABT_unit)n;
}
static void up_free_unit(ABT_pool p, ABT_unit u)
{
    (void)p;
    unode *n = (unode *)u;
    free(n->payload);
    n->payload = NULL;
}
static ABT_bool up_is_empty(ABT_pool p) { uq *q = uq_of(p); return q->n == 0 ? ABT_TRUE : ABT_FALSE; }
static ABT_thread up_pop(ABT_pool p, ABT_pool_context c)
{
    (void)c;
    uq *q = uq_of(p);
    ABT_thread t = ABT_THREAD_NULL;
    uq_lock(q);
    if (q->head) {
        unode *n = q->head;
        q->head = n->next;
        if (!q->head)
            q->tail = NULL;
        q->n--;
        t = n->th;
    }
    uq_unlock(q);
    return t;
}
static void up_push(ABT_pool p, ABT_unit u, ABT_pool_context c)
{
    (void)c;
    uq *q = uq_of(p);
    unode *n = (unode *)u;
    n->next = NULL;
    uq_lock(q);
    if (q->tail)
        q->tail->next = n;
    else
        q->head = n;
    q->tail = n;
    q->n++;
    uq_unlock(q);
}
static void up_push_many(ABT_pool p, const ABT_unit *us, size_t n, ABT_pool_context c)
{
    for (size_t i = 0; i < n; i++)
        up_push(p, us[i], c);
}
static int up_init(ABT_pool p, ABT_pool_config c)
{
    (void)c;
    uq *q = (uq *)calloc(1, sizeof *q);
    if (!q)
        return ABT_ERR_MEM;
    ABT_pool_set_data(p, q);
    return ABT_SUCCESS;
}
static void up_free(ABT_pool p) { free(uq_of(p)); }
static size_t up_get_size(ABT_pool p) { return (size_t)uq_of(p)->n; }
static ABT_pool_user_def mk_userdef(void)
{
    ABT_pool_user_def d = ABT_POOL_USER_DEF_NULL;
    OK(ABT_pool_user_def_create(up_create_unit, up_free_unit, up_is_empty, up_pop, up_push, &d));
    OK(ABT_pool_user_def_set_init(d, up_init));
    OK(ABT_pool_user_def_set_free(d, up_free));
    OK(ABT_pool_user_def_set_get_size(d, up_get_size));
    OK(ABT_pool_user_def_set_push_many(d, up_push_many));
    return d;
}
/* legacy definition: unit functions get no pool argument, pop returns the unit */
static ABT_unit lg_create_unit(ABT_thread t)
{
    unode *n = (unode *)malloc(sizeof *n); /* user allocation: an injectable site too */
    if (!n)
        return ABT_UNIT_NULL;
    n->th = t;
    n->next = NULL;
    n->payload = NULL;
    return (ABT_unit)n;
}
static void lg_free_unit(ABT_unit *u) { free((void *)*u); }
static void lg_push(ABT_pool p, ABT_unit u) { up_push(p, u, 0); }
static ABT_unit lg_pop(ABT_pool p)
{
    uq *q = uq_of(p);
    unode *n;
    uq_lock(q);
    n = q->head;
    if (n) {
        q->head = n->next;
        if (!q->head)
            q->tail = NULL;
        q->n--;
    }
    uq_unlock(q);
    return n ? (ABT_unit)n : ABT_UNIT_NULL;
}
static int lg_free_pool(ABT_pool p) { free(uq_of(p)); return ABT_SUCCESS; }
static ABT_pool_def w_legacy_def;
static void mk_legacydef(void)
{
    memset(&w_legacy_def, 0, sizeof w_legacy_def);
    w_legacy_def.access = ABT_POOL_ACCESS_MPMC;
    w_legacy_def.u_create_from_thread = lg_create_unit;
    w_legacy_def.u_free = lg_free_unit;
    w_legacy_def.p_init = up_init;
    w_legacy_def.p_get_size = up_get_size;
    w_legacy_def.p_push = lg_push;
    w_legacy_def.p_pop = lg_pop;
    w_legacy_def.p_free = lg_free_pool;
}

static int us_init(ABT_sched s, ABT_sched_config c)
{
    (void)c;
    void *d = malloc(64);
    if (!d)
        return ABT_ERR_MEM;
    ABT_sched_set_data(s, d);
    return ABT_SUCCESS;
}
static void us_run(ABT_sched s)
{
    int n = 0, i;
    ABT_pool pools[8];
    ABT_sched_get_num_pools(s, &n);
    if (n > 8)
        n = 8;
    ABT_sched_get_pools(s, n, 0, pools);
    for (;;) {
        for (i = 0; i < n; i++) {
            ABT_thread t = ABT_THREAD_NULL;
            ABT_pool_pop_thread(pools[i], &t);
            if (t != ABT_THREAD_NULL)
                ABT_self_schedule(t, ABT_POOL_NULL);
        }
        ABT_bool stop = ABT_FALSE;
        ABT_sched_has_to_stop(s, &stop);
        if (stop == ABT_TRUE)
            break;
        ABT_xstream_check_events(s);
    }
}
static int us_free(ABT_sched s)
{
    void *d = NULL;
    ABT_sched_get_data(s, &d);
    free(d);
    return ABT_SUCCESS;
}
static ABT_sched_def usched_def = { .type = ABT_SCHED_TYPE_ULT, .init = us_init, .run = us_run, .free = us_free,
                                    .get_migr_pool = NULL };

/* ------------------------------------------------------------------ the non-fresh world */
#define NXS 3
static ABT_xstream xs[NXS];
static ABT_pool p_main, p_x1, p_x2a, p_x2b, p_user, p_user1, p_legacy, p_parked;
static ABT_pool_user_def w_userdef;
static ABT_thread t_parked[2], t_blocked, t_done;
static ABT_task k_parked;
static ABT_key key1, key2;
static ABT_mutex w_mutex;
static ABT_cond w_cond;
static ABT_barrier w_barrier;
static ABT_eventual w_ev, ev_block;
static ABT_future w_fut;
static ABT_rwlock w_rw;
static ABT_timer w_timer;
static volatile long ran;
static long destructed;
static void key_dtor(void *v) { (void)v; destructed++; }
static void f_inc(void *a) { (void)a; __atomic_fetch_add(&ran, 1, __ATOMIC_SEQ_CST); }
static void f_block(void *a)
{
    (void)a;
    ABT_eventual_wait(ev_block, NULL);
    __atomic_fetch_add(&ran, 1, __ATOMIC_SEQ_CST);
}

static void world_build(void)
{
    phase("world_build");
    OK(ABT_xstream_self(&xs[0]));
    OK(ABT_xstream_get_main_pools(xs[0], 1, &p_main));
    OK(ABT_xstream_create(ABT_SCHED_NULL, &xs[1]));
    OK(ABT_xstream_get_main_pools(xs[1], 1, &p_x1));
    w_userdef = mk_userdef();
    OK(ABT_pool_create(w_userdef, ABT_POOL_CONFIG_NULL, &p_user));
    OK(ABT_pool_create_basic(ABT_POOL_FIFO, ABT_POOL_ACCESS_MPMC, ABT_TRUE, &p_x2a));
    OK(ABT_pool_create_basic(ABT_POOL_FIFO_WAIT, ABT_POOL_ACCESS_MPMC, ABT_TRUE, &p_x2b));
    /* the target pools of the generated scenarios: one more ABT_pool_user_def pool and one legacy (ABT_pool_def)
     * pool.  They are the LAST pools of stream 2: a unit that busy-waits in one of them (join of a tasklet) cannot
     * starve the pools in front of it */
    mk_legacydef();
    OK(ABT_pool_create((ABT_pool_user_def)&w_legacy_def, ABT_POOL_CONFIG_NULL, &p_legacy));
    OK(ABT_pool_create(w_userdef, ABT_POOL_CONFIG_NULL, &p_user1));
    ABT_pool ps[5] = { p_x2a, p_x2b, p_user, p_user1, p_legacy };
    OK(ABT_xstream_create_basic(ABT_SCHED_BASIC, 5, ps, ABT_SCHED_CONFIG_NULL, &xs[2]));
    OK(ABT_pool_create_basic(ABT_POOL_FIFO, ABT_POOL_ACCESS_MPMC, ABT_FALSE, &p_parked));
    OK(ABT_key_create(key_dtor, &key1));
    OK(ABT_key_create(NULL, &key2));
    OK(ABT_thread_create(p_parked, f_inc, NULL, ABT_THREAD_ATTR_NULL, &t_parked[0]));
    OK(ABT_thread_create(p_parked, f_inc, NULL, ABT_THREAD_ATTR_NULL, &t_parked[1]));
    OK(ABT_task_create(p_parked, f_inc, NULL, &k_parked));
    OK(ABT_thread_set_specific(t_parked[0], key1, (void *)0x1111));
    OK(ABT_thread_set_specific(t_parked[0], key2, (void *)0x2222));
    OK(ABT_key_set(key1, (void *)0x3333));
    OK(ABT_eventual_create(0, &ev_block));
    OK(ABT_thread_create(p_x1, f_block, NULL, ABT_THREAD_ATTR_NULL, &t_blocked));
    OK(ABT_thread_create(p_x1, f_inc, NULL, ABT_THREAD_ATTR_NULL, &t_done));
    OK(ABT_thread_join(t_done));
    for (int i = 0; i < 100000; i++) {
        ABT_thread_state st;
        ABT_thread_get_state(t_blocked, &st);
        if (st == ABT_THREAD_STATE_BLOCKED)
            break;
        usleep(50);
    }
    OK(ABT_mutex_create(&w_mutex));
    OK(ABT_cond_create(&w_cond));
    OK(ABT_barrier_create(2, &w_barrier));
    OK(ABT_eventual_create(8, &w_ev));
    OK(ABT_future_create(2, NULL, &w_fut));
    OK(ABT_rwlock_create(&w_rw));
    OK(ABT_timer_create(&w_timer));
}

static void world_teardown(void)
{
    phase("world_teardown");
    OK(ABT_eventual_set(ev_block, NULL, 0));
    OK(ABT_thread_free(&t_blocked));
    OK(ABT_thread_free(&t_done));
    /* run the parked units on stream 1 */
    for (;;) {
        ABT_thread t = ABT_THREAD_NULL;
        OK(ABT_pool_pop_thread(p_parked, &t));
        if (t == ABT_THREAD_NULL)
            break;
        OK(ABT_pool_push_thread(p_x1, t));
    }
    OK(ABT_thread_free(&t_parked[0]));
    OK(ABT_thread_free(&t_parked[1]));
    OK(ABT_task_free(&k_parked));
    OK(ABT_timer_free(&w_timer));
    OK(ABT_rwlock_free(&w_rw));
    OK(ABT_future_free(&w_fut));
    OK(ABT_eventual_free(&w_ev));
    OK(ABT_eventual_free(&ev_block));
    OK(ABT_barrier_free(&w_barrier));
    OK(ABT_cond_free(&w_cond));
    OK(ABT_mutex_free(&w_mutex));
    OK(ABT_xstream_join(xs[1]));
    OK(ABT_xstream_free(&xs[1]));
    OK(ABT_xstream_join(xs[2]));
    OK(ABT_xstream_free(&xs[2]));
    OK(ABT_pool_free(&p_legacy));
    OK(ABT_pool_free(&p_user1));
    OK(ABT_pool_free(&p_user));
    OK(ABT_pool_user_def_free(&w_userdef));
    OK(ABT_pool_free(&p_parked));
    OK(ABT_key_free(&key1));
    OK(ABT_key_free(&key2));
}

static int sn(char *b, size_t cap, size_t pos, const char *fmt, ...)
{
    if (pos >= cap)
        return 0;
    va_list ap;
    va_start(ap, fmt);
    int n = vsnprintf(b + pos, cap - pos, fmt, ap);
    va_end(ap);
    return n > 0 ? n : 0;
}
static size_t snap_pool(char *b, size_t cap, size_t pos, const char *nm, ABT_pool p)
{
    size_t sz = 0, tot = 0;
    ABT_pool_access acc = 0;
    ABT_pool_get_size(p, &sz);
    ABT_pool_get_total_size(p, &tot);
    ABT_pool_get_access(p, &acc);
    ABTI_pool *ip = ABTI_pool_get_ptr(p);
    pos += sn(b, cap, pos, "pool %s size=%zu total=%zu acc=%d nsched=%d nblk=%d auto=%d\n", nm, sz, tot, (int)acc,
              (int)ABTD_atomic_acquire_load_int32(&ip->num_scheds), (int)ABTD_atomic_acquire_load_int32(&ip->num_blocked),
              (int)ip->automatic);
    return pos;
}
static size_t snap_thread(char *b, size_t cap, size_t pos, const char *nm, ABT_thread t)
{
    ABT_thread_state st = 0;
    ABT_pool lp = ABT_POOL_NULL;
    ABT_bool mig = ABT_FALSE;
    void *v1 = NULL, *v2 = NULL;
    ABT_thread_get_state(t, &st);
    ABT_thread_get_last_pool(t, &lp);
    ABT_thread_is_migratable(t, &mig);
    ABT_thread_get_specific(t, key1, &v1);
    ABT_thread_get_specific(t, key2, &v2);
    ABTI_thread *it = ABTI_thread_get_ptr(t);
    pos += sn(b, cap, pos, "unit %s st=%d pool=%p mig=%d k1=%p k2=%p type=%x req=%x unit=%p\n", nm, (int)st, (void *)lp,
              (int)mig, v1, v2, (unsigned)it->type, (unsigned)ABTD_atomic_acquire_load_uint32(&it->request), (void *)it->unit);
    return pos;
}
static ABT_sched s_sched;
static ABT_pool s_pool, s_pool2, s_pool3;
static ABT_thread s_thread, s_thread2;
static ABT_xstream s_xs;
static size_t snap_sched(char *b, size_t cap, size_t pos, const char *nm, ABTI_sched *is)
{
    /* everything a failed call must leave alone: use mark, pools, scheduler ULT and its association, requests */
    pos += sn(b, cap, pos, "%s used=%d np=%zu auto=%d req=%x yt=%p repl=%p pools=", nm, (int)is->used, is->num_pools,
              (int)is->automatic, (unsigned)ABTD_atomic_acquire_load_uint32(&is->request), (void *)is->p_ythread,
              (void *)is->p_replace_sched);
    for (size_t i = 0; i < is->num_pools && i < 4; i++)
        pos += sn(b, cap, pos, "%p,", (void *)is->pools[i]);
    if (is->p_ythread)
        pos += sn(b, cap, pos, " ytpool=%p ytunit=%p", (void *)is->p_ythread->thread.p_pool,
                  (void *)is->p_ythread->thread.unit);
    pos += sn(b, cap, pos, "\n");
    return pos;
}
static size_t snap_sthread(char *b, size_t cap, size_t pos, const char *nm, ABT_thread t)
{
    ABT_thread_state st = 0;
    ABT_thread_get_state(t, &st);
    ABTI_thread *it = ABTI_thread_get_ptr(t);
    pos += sn(b, cap, pos, "%s st=%d pool=%p unit=%p req=%x kt=%d\n", nm, (int)st, (void *)it->p_pool, (void *)it->unit,
              (unsigned)ABTD_atomic_acquire_load_uint32(&it->request),
              ABTI_ktable_is_valid((ABTI_ktable *)ABTD_atomic_acquire_load_ptr(&it->p_keytable)));
    return pos;
}
static char snapA[8192], snapB[8192];
static int snap_skip_main;
static void snapshot(char *b, size_t cap)
{
    size_t pos = 0;
    int n = 0;
    ABTI_global *g = ABTI_global_get_global_or_null();
    ABT_xstream_get_num(&n);
    pos += sn(b, cap, pos, "nxs=%d gnum=%d\n", n, g->num_xstreams);
    for (ABTI_xstream *x = g->p_xstream_head; x; x = x->p_next)
        pos += sn(b, cap, pos, "list rank=%d p=%p\n", x->rank, (void *)x);
    for (int i = 0; i < NXS; i++) {
        int rank = -1, np = 0;
        ABT_xstream_state st = 0;
        ABT_sched s = ABT_SCHED_NULL;
        ABT_pool ps[5] = { 0, 0, 0, 0, 0 };
        ABT_xstream_get_rank(xs[i], &rank);
        ABT_xstream_get_state(xs[i], &st);
        ABT_xstream_get_main_sched(xs[i], &s);
        ABT_sched_get_num_pools(s, &np);
        ABT_sched_get_pools(s, np > 5 ? 5 : np, 0, ps);
        ABTI_sched *is = ABTI_sched_get_ptr(s);
        pos += sn(b, cap, pos, "xs%d rank=%d st=%d sched=%p np=%d pools=%p,%p,%p,%p,%p used=%d auto=%d req=%x yt=%p repl=%p\n", i,
                  rank, (int)st, (void *)s, np, (void *)ps[0], (void *)ps[1], (void *)ps[2], (void *)ps[3], (void *)ps[4], (int)is->used,
                  (int)is->automatic, (unsigned)ABTD_atomic_acquire_load_uint32(&is->request), (void *)is->p_ythread,
                  (void *)is->p_replace_sched);
    }
    if (!snap_skip_main)
        pos = snap_pool(b, cap, pos, "main", p_main);
    pos = snap_pool(b, cap, pos, "x1", p_x1);
    pos = snap_pool(b, cap, pos, "x2a", p_x2a);
    pos = snap_pool(b, cap, pos, "x2b", p_x2b);
    pos = snap_pool(b, cap, pos, "user", p_user);
    pos = snap_pool(b, cap, pos, "legacy", p_legacy);
    pos = snap_pool(b, cap, pos, "user1", p_user1);
    pos = snap_pool(b, cap, pos, "parked", p_parked);
    pos = snap_thread(b, cap, pos, "parked0", t_parked[0]);
    pos = snap_thread(b, cap, pos, "parked1", t_parked[1]);
    pos = snap_thread(b, cap, pos, "task", k_parked);
    pos = snap_thread(b, cap, pos, "blocked", t_blocked);
    pos = snap_thread(b, cap, pos, "done", t_done);
    if (s_pool)
        pos = snap_pool(b, cap, pos, "scen", s_pool);
    if (s_pool2)
        pos = snap_pool(b, cap, pos, "scen2", s_pool2);
    if (s_sched)
        pos = snap_sched(b, cap, pos, "ssched", ABTI_sched_get_ptr(s_sched));
    if (s_xs) {
        ABT_xstream_state st = 0;
        int rank = -1;
        ABT_xstream_get_state(s_xs, &st);
        ABT_xstream_get_rank(s_xs, &rank);
        ABTI_xstream *ix = ABTI_xstream_get_ptr(s_xs);
        pos += sn(b, cap, pos, "sxs st=%d rank=%d main=%p\n", (int)st, rank, (void *)ix->p_main_sched);
        if (ix->p_main_sched)
            pos = snap_sched(b, cap, pos, "sxs.main", ix->p_main_sched);
    }
    if (s_thread)
        pos = snap_sthread(b, cap, pos, "sthread", s_thread);
    if (s_thread2)
        pos = snap_sthread(b, cap, pos, "sthread2", s_thread2);
    {   /* the calling work unit itself: its association must survive a failed call too */
        ABTI_xstream *cx = ABTI_local_get_xstream_or_null(ABTI_local_get_local());
        if (cx && cx->p_thread)
            pos += sn(b, cap, pos, "caller pool=%p unit=%p req=%x\n", (void *)cx->p_thread->p_pool, (void *)cx->p_thread->unit,
                      (unsigned)ABTD_atomic_acquire_load_uint32(&cx->p_thread->request));
    }
    {
        long mu, mt;
        map_count(&mu, &mt);
        pos += sn(b, cap, pos, "unitmap used=%ld\n", mu);
    }
    void *v = NULL;
    ABT_key_get(key1, &v);
    pos += sn(b, cap, pos, "self k1=%p dtor=%ld\n", v, destructed);
    ABT_bool rdy = ABT_FALSE;
    uint32_t nw = 0;
    ABT_eventual_test(w_ev, NULL, &rdy);
    pos += sn(b, cap, pos, "ev=%d", (int)rdy);
    ABT_future_test(w_fut, &rdy);
    ABT_barrier_get_num_waiters(w_barrier, &nw);
    pos += sn(b, cap, pos, " fut=%d bar=%u\n", (int)rdy, nw);
}


/* lazily created key tables: a failed key/migration-data set may leave an EMPTY key table attached to the
 * (pre-existing) target unit; it is owned by that unit and freed with it.  Counted separately, not a leak. */
#define NKT 6
static ABTI_thread *kt_units[NKT];
static int kt_before[NKT];
static void kt_collect(void)
{
    kt_units[0] = ABTI_thread_get_ptr(t_parked[0]);
    kt_units[1] = ABTI_thread_get_ptr(t_parked[1]);
    kt_units[2] = ABTI_thread_get_ptr(k_parked);
    kt_units[3] = ABTI_thread_get_ptr(t_blocked);
    kt_units[4] = ABTI_thread_get_ptr(t_done);
    ABTI_xstream *x = ABTI_local_get_xstream_or_null(ABTI_local_get_local());
    kt_units[5] = x ? x->p_thread : NULL;
}
static ABTI_ktable *kt_of(ABTI_thread *t)
{
    if (!t)
        return NULL;
    ABTI_ktable *k = (ABTI_ktable *)ABTD_atomic_acquire_load_ptr(&t->p_keytable);
    return ABTI_ktable_is_valid(k) ? k : NULL;
}
static void kt_snapshot(void)
{
    kt_collect();
    for (int i = 0; i < NKT; i++)
        kt_before[i] = kt_of(kt_units[i]) != NULL;
}
/* number of key tables created by the (failed) call; *pool_descs = how many of their blocks came from the pool */
static int kt_new(int *pool_descs, void **heap_blocks, int *n_heap)
{
    int n = 0;
    *pool_descs = 0;
    *n_heap = 0;
    for (int i = 0; i < NKT; i++) {
        ABTI_ktable *k = kt_of(kt_units[i]);
        if (k && !kt_before[i]) {
            n++;
            for (ABTI_ktable_mem_header *h = (ABTI_ktable_mem_header *)k->p_used_mem; h; h = h->p_next) {
                if (h->is_from_mempool && !*(uint32_t *)(((char *)h) + ABTI_MEM_POOL_DESC_SIZE))
                    (*pool_descs)++;
                else if (*n_heap < 4)
                    heap_blocks[(*n_heap)++] = (void *)h;
            }
        }
    }
    return n;
}

/* create+join a ULT and a tasklet on every pool that a stream serves; use the sync objects */
static void followup(void)
{
    phase("followup");
    ABT_pool ps[7] = { p_main, p_x1, p_x2a, p_x2b, p_user, p_legacy, p_user1 };
    long before = ran;
    for (int i = 0; i < 7; i++) {
        ABT_thread t = ABT_THREAD_NULL;
        ABT_task k = ABT_TASK_NULL;
        OK(ABT_thread_create(ps[i], f_inc, NULL, ABT_THREAD_ATTR_NULL, &t));
        OK(ABT_task_create(ps[i], f_inc, NULL, &k));
        if (t != ABT_THREAD_NULL)
            OK(ABT_thread_free(&t));
        if (k != ABT_TASK_NULL)
            OK(ABT_task_free(&k));
    }
    if (ran - before != 14)
        problem("followup: %ld of 14 follow-up units ran", ran - before);
    OK(ABT_mutex_lock(w_mutex));
    OK(ABT_mutex_unlock(w_mutex));
    OK(ABT_rwlock_rdlock(w_rw));
    OK(ABT_rwlock_unlock(w_rw));
    void *v = NULL;
    OK(ABT_thread_get_specific(t_parked[0], key1, &v));
    if (v != (void *)0x1111)
        problem("followup: key1 of parked unit reads %p", v);
}

/* ------------------------------------------------------------------ engine */
static void drain_pools(void);
static const scen *S;
static int K;
static int r_rc = -1, r_N, r_fired, r_retry = -99;
static const char *r_outcome = "none";
static char evbuf[1 << 17];
static char leakbuf[8192];
static char sitebuf[512];
static int trace_mode;
static char *tracebuf;
void *__real_calloc(size_t, size_t);

static void fmt_events(void)
{
    size_t pos = 0;
    const fi_event *e = fi_events();
    int n = fi_nevents();
    evbuf[0] = 0;
    for (int i = 0; i < n && pos + 64 < sizeof evbuf; i++) {
        if (e[i].acquire)
            pos += (size_t)snprintf(evbuf + pos, sizeof evbuf - pos, "%s+%s%s", i ? " " : "", fi_opname(e[i].op),
                                    e[i].failed == 1 ? "!F" : e[i].failed == 2 ? "!N" : "");
        else
            pos += (size_t)snprintf(evbuf + pos, sizeof evbuf - pos, "%s-%s%s", i ? " " : "", fi_kindname(e[i].op),
                                    e[i].failed == 3 ? "!BAD" : e[i].failed == 4 ? "!DBL" : e[i].rid < 0 ? "!PRE" : "");
        if (trace_mode)
            pos += (size_t)snprintf(evbuf + pos, sizeof evbuf - pos, "@%d", (int)e[i].depth);
    }
}
static void fmt_bt(char *dst, size_t cap, void *const *bt)
{
    size_t pos = 0;
    dst[0] = 0;
    for (int i = 0; i < FI_BT && bt[i]; i++)
        pos += (size_t)snprintf(dst + pos, cap - pos, "%s\"%p\"", i ? "," : "", bt[i]);
}
static void fmt_trace(void)
{
    int n = fi_trace_len();
    size_t cap = (size_t)n * 24 + 64, pos = 0;
    tracebuf = (char *)__real_calloc(1, cap);
    if (!tracebuf)
        return;
    for (int i = 0; i < n; i++) {
        void *fn;
        int en, d, ep;
        fi_trace_get(i, &fn, &en, &d, &ep);
        pos += (size_t)snprintf(tracebuf + pos, cap - pos, "%s%c%lx:%d", i ? " " : "", en ? 'E' : 'X', (unsigned long)fn, ep);
    }
}

static int kt_pool_descs;
static void check_ledger_after_failure(void)
{
    const fi_ent *l[64];
    int n = fi_live_in_window(l, 64);
    size_t pos = 0;
    int leaks = 0, nh = 0;
    void *hb[4];
    int nkt = kt_new(&kt_pool_descs, hb, &nh);
    if (nkt)
        note("retained-ktable: %d empty key table(s) stay attached to the target unit after the error", nkt);
    int ncached = 0;
    for (int i = 0; i < n && i < 64; i++) {
        if (l[i]->kind <= FK_MAP && is_pool_page(l[i]->key))
            continue; /* page cached by the memory pool, returned at finalize (checked at exit) */
        if (l[i]->kind == FK_HEAP && map_entry_state(l[i]->key) == 1) {
            ncached++; /* emptied unit-map entry: kept for re-use, returned at finalize (checked at exit) */
            continue;
        }
        int isk = 0;
        for (int j = 0; j < nh; j++)
            if (hb[j] == l[i]->key)
                isk = 1;
        if (isk)
            continue;
        char bt[400];
        fmt_bt(bt, sizeof bt, l[i]->bt);
        pos += (size_t)snprintf(leakbuf + pos, sizeof leakbuf - pos, "%s{\"kind\":\"%s\",\"op\":\"%s\",\"size\":%zu,\"bt\":[%s]}",
                                leaks ? "," : "", fi_kindname(l[i]->kind), fi_opname(l[i]->op), l[i]->size, bt);
        leaks++;
    }
    if (ncached)
        note("cached-unitmap: %d emptied unit-map entr%s stay in the hash table after the error", ncached, ncached == 1 ? "y" : "ies");
    if (leaks)
        problem("leak: %d resource(s) acquired by the failed call are still allocated", leaks);
    if (fi_pre_released())
        problem("freed-preexisting: the failed call released %d resource(s) it did not acquire", fi_pre_released());
}

static void body(void *arg)
{
    (void)arg;
    long ms0, md0, ms1, md1;
    int bad0;
    phase("prep");
    reset_out();
    if (S->prep)
        S->prep();
    if ((S->flags & F_DRAIN) && !(S->flags & F_EXT))
        drain_pools();
    snap_skip_main = (S->flags & F_EXT) != 0;
    snapshot(snapA, sizeof snapA);
    kt_snapshot();
    mp_outstanding(&ms0, &md0);
    bad0 = fi_bad_releases();
    int dbl0 = fi_double_frees();
    phase("call");
    fi_trace_reset();
    fi_arm(K);
    r_rc = S->call();
    fi_disarm();
    r_N = fi_count();
    r_fired = fi_fired();
    fmt_events();
    if (trace_mode)
        fmt_trace();
    fmt_bt(sitebuf, sizeof sitebuf, fi_fail_bt());
    if (fi_bad_releases() != bad0)
        problem("bad-release: %d release(s) of a resource that is not live (%d of them a second free of a block the "
                "call had already freed: double free)",
                fi_bad_releases() - bad0, fi_double_frees() - dbl0);
    if (K > 0 && !r_fired) {
        r_outcome = "not-reached";
    }
    if (r_rc != ABT_SUCCESS) {
        r_outcome = r_fired ? "error" : "error-uninjected";
        phase("check_failure");
        if (!(S->flags & F_NOOUT) && out[0] != SENT(0) && out[0] != S->nullh)
            problem("dangling-handle: output handle is %p after error %d (neither untouched nor the NULL handle)", out[0], r_rc);
        check_ledger_after_failure();
        mp_outstanding(&ms1, &md1);
        if (ms1 != ms0 || md1 != md0 + kt_pool_descs)
            problem("pool-element-leak: memory-pool elements outstanding changed stack %ld->%ld desc %ld->%ld", ms0, ms1, md0, md1);
        snapshot(snapB, sizeof snapB);
        if (strcmp(snapA, snapB) != 0) {
            /* find first differing line */
            char *a = snapA, *b = snapB;
            while (*a && *a == *b)
                a++, b++;
            while (a > snapA && a[-1] != '\n')
                a--, b--;
            char la[200], lb[200];
            snprintf(la, sizeof la, "%.*s", (int)strcspn(a, "\n"), a);
            snprintf(lb, sizeof lb, "%.*s", (int)strcspn(b, "\n"), b);
            problem("state-changed: before[%s] after[%s]", la, lb);
        }
        followup();
        phase("retry");
        reset_out();
        r_retry = S->call();
        if (r_retry != ABT_SUCCESS)
            problem("retry-failed: the same call without the failure returned %d", r_retry);
        else if (S->fin)
            S->fin();
    } else {
        if (K == 0 || r_fired)
            r_outcome = r_fired ? "absorbed" : "success";
        phase("use_result");
        if (S->fin)
            S->fin();
        followup();
    }
    phase("body_done");
}

static void final_check(long base)
{
    long now = fi_live_total();
    if (now != base) {
        const fi_ent *l[16];
        int n = fi_live_list(l, 16);
        size_t pos = strlen(leakbuf);
        for (int i = 0; i < n && i < 16; i++) {
            char bt[400];
            fmt_bt(bt, sizeof bt, l[i]->bt);
            pos += (size_t)snprintf(leakbuf + pos, sizeof leakbuf - pos, "%s{\"kind\":\"%s\",\"op\":\"%s\",\"size\":%zu,\"atexit\":1,\"inwin\":%d,\"bt\":[%s]}",
                                    pos ? "," : "", fi_kindname(l[i]->kind), fi_opname(l[i]->op), l[i]->size,
                                    l[i]->win == fi_window() ? 1 : 0, bt);
        }
        problem("final-leak: %ld resource(s) still allocated after ABT_finalize", now - base);
    }
}


static void on_alarm(int s)
{
    (void)s;
    fi_note("HANG in phase ");
    fi_note(phase_s);
    fi_note("\n");
    _exit(97);
}

static void emit(void)
{
    printf("{\"scen\":\"%s\",\"k\":%d,\"N\":%d,\"rc\":%d,\"fired\":%d,\"outcome\":\"%s\",\"retry\":%d,\"problems\":[", S->name, K,
           r_N, r_rc, r_fired, r_outcome, r_retry);
    for (int i = 0; i < n_probs; i++)
        printf("%s\"%s\"", i ? "," : "", probs[i]);
    printf("],\"notes\":[");
    for (int i = 0; i < n_notes; i++)
        printf("%s\"%s\"", i ? "," : "", notes[i]);
    printf("],\"failsite\":[%s],\"leaks\":[%s],\"events\":\"%s\"", sitebuf, leakbuf, evbuf);
    if (S->routine)
        printf(",\"routine\":\"%s\"", S->routine);
    if (tracebuf)
        printf(",\"trace\":\"%s\"", tracebuf);
    printf("}\n");
    fflush(stdout);
}

/* ------------------------------------------------------------------ scenarios */
static ABT_thread_attr s_attr;
static ABT_sched_config s_scfg;
static ABT_pool_config s_pcfg;
static ABT_mutex_attr s_mattr;
static ABT_timer s_timer;
static char s_stack[65536] __attribute__((aligned(64)));
static FILE *s_null;
static void mig_cb(ABT_thread t, void *a) { (void)t; (void)a; }
static void wait_ran(long target)
{
    for (int i = 0; i < 200000 && ran < target; i++) {
        ABT_thread_yield();
        usleep(20);
    }
    if (ran < target)
        problem("created unit did not run");
}
#define TH(i) ((ABT_thread *)&out[i])

/* --- work units --- */
static int c_thread_create(void) { return ABT_thread_create(p_x1, f_inc, NULL, ABT_THREAD_ATTR_NULL, TH(0)); }
static int c_thread_create_main(void) { return ABT_thread_create(p_main, f_inc, NULL, ABT_THREAD_ATTR_NULL, TH(0)); }
static void f_thread(void) { OK(ABT_thread_free(TH(0))); }
static void p_attr_stacksize(void) { OK(ABT_thread_attr_create(&s_attr)); OK(ABT_thread_attr_set_stacksize(s_attr, 20000)); }
static void p_attr_userstack(void) { OK(ABT_thread_attr_create(&s_attr)); OK(ABT_thread_attr_set_stack(s_attr, s_stack, sizeof s_stack)); }
static void p_attr_cb(void)
{
    OK(ABT_thread_attr_create(&s_attr));
    OK(ABT_thread_attr_set_callback(s_attr, mig_cb, NULL));
    OK(ABT_thread_attr_set_migratable(s_attr, ABT_TRUE));
}
static void p_attr_stacksize_cb(void)
{
    p_attr_cb();
    OK(ABT_thread_attr_set_stacksize(s_attr, 32768));
}
static int c_thread_create_attr(void) { return ABT_thread_create(p_x1, f_inc, NULL, s_attr, TH(0)); }
static void f_thread_attr(void) { OK(ABT_thread_free(TH(0))); OK(ABT_thread_attr_free(&s_attr)); }
static long ran0;
static void p_ran(void) { ran0 = ran; }
static int c_thread_create_unnamed(void) { return ABT_thread_create(p_x1, f_inc, NULL, ABT_THREAD_ATTR_NULL, NULL); }
static void f_wait1(void) { wait_ran(ran0 + 1); usleep(2000); }
static int c_thread_create_userpool(void) { return ABT_thread_create(p_user, f_inc, NULL, ABT_THREAD_ATTR_NULL, TH(0)); }
static int c_thread_create_to(void) { return ABT_thread_create_to(p_main, f_inc, NULL, ABT_THREAD_ATTR_NULL, TH(0)); }
static int c_thread_create_on_xstream(void) { return ABT_thread_create_on_xstream(xs[2], f_inc, NULL, ABT_THREAD_ATTR_NULL, TH(0)); }
static int c_thread_create_many(void)
{
    ABT_pool pl[3] = { p_x1, p_x2a, p_user };
    void (*fl[3])(void *) = { f_inc, f_inc, f_inc };
    return ABT_thread_create_many(3, pl, fl, NULL, ABT_THREAD_ATTR_NULL, TH(0));
}
static void f_thread_many(void) { OK(ABT_thread_free(TH(0))); OK(ABT_thread_free(TH(1))); OK(ABT_thread_free(TH(2))); }
static int c_task_create(void) { return ABT_task_create(p_x1, f_inc, NULL, (ABT_task *)&out[0]); }
static void f_task(void) { OK(ABT_task_free((ABT_task *)&out[0])); }
static int c_task_create_unnamed(void) { return ABT_task_create(p_x1, f_inc, NULL, NULL); }
static int c_task_create_userpool(void) { return ABT_task_create(p_user, f_inc, NULL, (ABT_task *)&out[0]); }
static int c_task_create_on_xstream(void) { return ABT_task_create_on_xstream(xs[2], f_inc, NULL, (ABT_task *)&out[0]); }
static void p_done_thread(void) { OK(ABT_thread_create(p_x1, f_inc, NULL, ABT_THREAD_ATTR_NULL, &s_thread)); OK(ABT_thread_join(s_thread)); }
static void p_done_task(void) { OK(ABT_task_create(p_x1, f_inc, NULL, &s_thread)); OK(ABT_task_join(s_thread)); }
static int c_thread_revive_user(void) { return ABT_thread_revive(p_user, f_inc, NULL, &s_thread); }
static int c_task_revive_user(void) { return ABT_task_revive(p_user, f_inc, NULL, &s_thread); }
static void f_sthread(void) { OK(ABT_thread_free(&s_thread)); }
static void p_popped_thread(void)
{
    OK(ABT_pool_create_basic(ABT_POOL_FIFO, ABT_POOL_ACCESS_MPMC, ABT_FALSE, &s_pool));
    OK(ABT_thread_create(s_pool, f_inc, NULL, ABT_THREAD_ATTR_NULL, &s_thread));
    ABT_thread t;
    OK(ABT_pool_pop_thread(s_pool, &t));
}
static int c_pool_push_thread_user(void) { return ABT_pool_push_thread(p_user, s_thread); }
static void f_popped(void) { OK(ABT_thread_free(&s_thread)); OK(ABT_pool_free(&s_pool)); }
static int c_thread_migrate_to_pool(void) { return ABT_thread_migrate_to_pool(t_parked[1], p_x2a); }
static int c_thread_set_callback(void) { return ABT_thread_set_callback(t_parked[1], mig_cb, NULL); }
static int c_self_set_callback(void)
{
    ABT_thread me;
    ABT_self_get_thread(&me);
    return ABT_thread_set_callback(me, mig_cb, NULL);
}
static int c_thread_migrate(void) { return ABT_thread_migrate(t_parked[1]); }
static int c_thread_get_attr(void) { return ABT_thread_get_attr(t_parked[0], (ABT_thread_attr *)&out[0]); }
static void f_attr(void) { OK(ABT_thread_attr_free((ABT_thread_attr *)&out[0])); }
static int c_thread_attr_create(void) { return ABT_thread_attr_create((ABT_thread_attr *)&out[0]); }

/* --- keys --- */
static int c_key_create(void) { return ABT_key_create(key_dtor, (ABT_key *)&out[0]); }
static void f_key(void) { OK(ABT_key_free((ABT_key *)&out[0])); }
static int c_key_set_first(void) { return ABT_key_set(key2, (void *)0x77); }
static void f_key_get(void)
{
    void *v = NULL;
    OK(ABT_key_get(key2, &v));
    if (v != (void *)0x77)
        problem("key value reads %p after successful set", v);
}
static int c_key_set_two(void)
{
    int r = ABT_key_set(key2, (void *)0x77);
    if (r != ABT_SUCCESS)
        return r;
    return ABT_key_set(key1, (void *)0x78);
}
static int c_thread_set_specific(void) { return ABT_thread_set_specific(t_parked[1], key1, (void *)0x99); }
static void f_specific(void)
{
    void *v = NULL;
    OK(ABT_thread_get_specific(t_parked[1], key1, &v));
    if (v != (void *)0x99)
        problem("specific value reads %p after successful set", v);
}

/* --- streams --- */
static int c_xstream_create(void) { return ABT_xstream_create(ABT_SCHED_NULL, (ABT_xstream *)&out[0]); }
static void f_xstream(void)
{
    ABT_thread t;
    OK(ABT_thread_create_on_xstream((ABT_xstream)out[0], f_inc, NULL, ABT_THREAD_ATTR_NULL, &t));
    OK(ABT_thread_free(&t));
    OK(ABT_xstream_join((ABT_xstream)out[0]));
    OK(ABT_xstream_free((ABT_xstream *)&out[0]));
}
static void p_sched_basic(void) { OK(ABT_sched_create_basic(ABT_SCHED_BASIC, 0, NULL, ABT_SCHED_CONFIG_NULL, &s_sched)); }
static int c_xstream_create_sched(void) { return ABT_xstream_create(s_sched, (ABT_xstream *)&out[0]); }
static void p_user_sched(void)
{
    ABT_pool pl[1] = { ABT_POOL_NULL };
    OK(ABT_sched_create(&usched_def, 1, pl, ABT_SCHED_CONFIG_NULL, &s_sched));
}
static void f_xstream_usched(void) { f_xstream(); OK(ABT_sched_free(&s_sched)); }
static void p_extra_pool(void) { OK(ABT_pool_create_basic(ABT_POOL_FIFO, ABT_POOL_ACCESS_MPMC, ABT_FALSE, &s_pool)); }
static int c_xstream_create_basic(void)
{
    ABT_pool pl[2] = { s_pool, ABT_POOL_NULL };
    return ABT_xstream_create_basic(ABT_SCHED_BASIC, 2, pl, ABT_SCHED_CONFIG_NULL, (ABT_xstream *)&out[0]);
}
static void f_xstream_pool(void) { f_xstream(); OK(ABT_pool_free(&s_pool)); }
static int c_xstream_create_basic_prio(void)
{
    return ABT_xstream_create_basic(ABT_SCHED_PRIO, 0, NULL, ABT_SCHED_CONFIG_NULL, (ABT_xstream *)&out[0]);
}
static int c_xstream_create_with_rank(void) { return ABT_xstream_create_with_rank(ABT_SCHED_NULL, 7, (ABT_xstream *)&out[0]); }
static void p_joined_xstream(void) { OK(ABT_xstream_create(ABT_SCHED_NULL, &s_xs)); OK(ABT_xstream_join(s_xs)); }
static int c_xstream_revive(void) { return ABT_xstream_revive(s_xs); }
static void f_sxs(void) { OK(ABT_xstream_join(s_xs)); OK(ABT_xstream_free(&s_xs)); }
static int c_set_main_sched_other(void)
{
    ABT_pool pl[1] = { ABT_POOL_NULL };
    return ABT_xstream_set_main_sched_basic(s_xs, ABT_SCHED_BASIC, 1, pl);
}
static void f_sxs_revive(void) { OK(ABT_xstream_revive(s_xs)); f_sxs(); }
static int c_set_main_sched_other_null(void) { return ABT_xstream_set_main_sched(s_xs, ABT_SCHED_NULL); }
static int c_set_main_sched_self(void)
{
    ABT_pool pl[1] = { p_main };
    return ABT_xstream_set_main_sched_basic(xs[0], ABT_SCHED_BASIC, 1, pl);
}
static int c_xstream_barrier_create(void) { return ABT_xstream_barrier_create(2, (ABT_xstream_barrier *)&out[0]); }
static void f_xbarrier(void) { OK(ABT_xstream_barrier_free((ABT_xstream_barrier *)&out[0])); }

/* --- schedulers / pools / configs --- */
static int c_sched_create_user(void)
{
    ABT_pool pl[2] = { s_pool, ABT_POOL_NULL };
    return ABT_sched_create(&usched_def, 2, pl, ABT_SCHED_CONFIG_NULL, (ABT_sched *)&out[0]);
}
static void f_sched_pool(void) { OK(ABT_sched_free((ABT_sched *)&out[0])); OK(ABT_pool_free(&s_pool)); }
static void f_sched(void) { OK(ABT_sched_free((ABT_sched *)&out[0])); }
#define SCB(nm, predef)                                                                                                \
    static int c_sched_create_basic_##nm(void)                                                                         \
    {                                                                                                                  \
        return ABT_sched_create_basic(predef, 0, NULL, ABT_SCHED_CONFIG_NULL, (ABT_sched *)&out[0]);                   \
    }
SCB(basic, ABT_SCHED_BASIC)
SCB(wait, ABT_SCHED_BASIC_WAIT)
SCB(prio, ABT_SCHED_PRIO)
SCB(randws, ABT_SCHED_RANDWS)
static int c_sched_create_basic_pools(void)
{
    ABT_pool pl[3] = { p_parked, ABT_POOL_NULL, ABT_POOL_NULL };
    return ABT_sched_create_basic(ABT_SCHED_PRIO, 3, pl, ABT_SCHED_CONFIG_NULL, (ABT_sched *)&out[0]);
}
static void p_sched_config(void)
{
    OK(ABT_sched_config_create(&s_scfg, ABT_sched_basic_freq, 10, ABT_sched_config_automatic, ABT_FALSE,
                               ABT_sched_config_var_end));
}
static int c_sched_create_basic_config(void)
{
    ABT_pool pl[2] = { ABT_POOL_NULL, p_parked };
    return ABT_sched_create_basic(ABT_SCHED_BASIC, 2, pl, s_scfg, (ABT_sched *)&out[0]);
}
static void f_sched_cfg(void) { OK(ABT_sched_free((ABT_sched *)&out[0])); OK(ABT_sched_config_free(&s_scfg)); }
static int c_sched_config_create(void)
{
    return ABT_sched_config_create((ABT_sched_config *)&out[0], ABT_sched_basic_freq, 10, ABT_sched_config_automatic,
                                   ABT_FALSE, ABT_sched_config_var_end);
}
static void f_scfg(void) { OK(ABT_sched_config_free((ABT_sched_config *)&out[0])); }
static int c_pool_create_user(void) { return ABT_pool_create(w_userdef, ABT_POOL_CONFIG_NULL, (ABT_pool *)&out[0]); }
static void f_pool(void) { OK(ABT_pool_free((ABT_pool *)&out[0])); }
#define PCB(nm, kind)                                                                                                  \
    static int c_pool_create_basic_##nm(void)                                                                          \
    {                                                                                                                  \
        return ABT_pool_create_basic(kind, ABT_POOL_ACCESS_MPMC, ABT_FALSE, (ABT_pool *)&out[0]);                      \
    }
PCB(fifo, ABT_POOL_FIFO)
PCB(fifo_wait, ABT_POOL_FIFO_WAIT)
PCB(randws, ABT_POOL_RANDWS)
static int c_pool_config_create(void) { return ABT_pool_config_create((ABT_pool_config *)&out[0]); }
static void f_pcfg(void) { OK(ABT_pool_config_free((ABT_pool_config *)&out[0])); }
static void p_pool_config(void) { OK(ABT_pool_config_create(&s_pcfg)); }
static int c_pool_config_set(void)
{
    int v = 5;
    int r = ABT_pool_config_set(s_pcfg, 3, ABT_POOL_CONFIG_INT, &v);
    if (r != ABT_SUCCESS)
        return r;
    return ABT_pool_config_set(s_pcfg, 3 + 16, ABT_POOL_CONFIG_INT, &v); /* may chain in one bucket */
}
static void f_spcfg(void)
{
    int v = 0;
    ABT_pool_config_type ty;
    OK(ABT_pool_config_get(s_pcfg, 3, &ty, &v));
    if (v != 5)
        problem("pool config reads %d", v);
    OK(ABT_pool_config_free(&s_pcfg));
}
static int c_pool_user_def_create(void)
{
    return ABT_pool_user_def_create(up_create_unit, up_free_unit, up_is_empty, up_pop, up_push, (ABT_pool_user_def *)&out[0]);
}
static void f_udef(void) { OK(ABT_pool_user_def_free((ABT_pool_user_def *)&out[0])); }
static void p_stack_sched(void)
{
    ABT_pool pl[1] = { ABT_POOL_NULL };
    OK(ABT_sched_create_basic(ABT_SCHED_BASIC, 1, pl, ABT_SCHED_CONFIG_NULL, &s_sched));
}
static int c_pool_add_sched(void) { return ABT_pool_add_sched(p_x1, s_sched); }
static int c_pool_add_sched_user(void) { return ABT_pool_add_sched(p_user, s_sched); }
static void f_settle(void) { usleep(20000); }

/* --- sync objects --- */
static int c_mutex_create(void) { return ABT_mutex_create((ABT_mutex *)&out[0]); }
static void f_mutex(void)
{
    OK(ABT_mutex_lock((ABT_mutex)out[0]));
    OK(ABT_mutex_unlock((ABT_mutex)out[0]));
    OK(ABT_mutex_free((ABT_mutex *)&out[0]));
}
static void p_mattr(void) { OK(ABT_mutex_attr_create(&s_mattr)); OK(ABT_mutex_attr_set_recursive(s_mattr, ABT_TRUE)); }
static int c_mutex_create_with_attr(void) { return ABT_mutex_create_with_attr(s_mattr, (ABT_mutex *)&out[0]); }
static void f_mutex_attr(void) { f_mutex(); OK(ABT_mutex_attr_free(&s_mattr)); }
static int c_mutex_attr_create(void) { return ABT_mutex_attr_create((ABT_mutex_attr *)&out[0]); }
static void f_mattr(void) { OK(ABT_mutex_attr_free((ABT_mutex_attr *)&out[0])); }
static int c_mutex_get_attr(void) { return ABT_mutex_get_attr(w_mutex, (ABT_mutex_attr *)&out[0]); }
static int c_cond_create(void) { return ABT_cond_create((ABT_cond *)&out[0]); }
static void f_cond(void) { OK(ABT_cond_signal((ABT_cond)out[0])); OK(ABT_cond_free((ABT_cond *)&out[0])); }
static int c_barrier_create(void) { return ABT_barrier_create(3, (ABT_barrier *)&out[0]); }
static void f_barrier(void) { OK(ABT_barrier_free((ABT_barrier *)&out[0])); }
static int c_eventual_create(void) { return ABT_eventual_create(16, (ABT_eventual *)&out[0]); }
static int c_eventual_create0(void) { return ABT_eventual_create(0, (ABT_eventual *)&out[0]); }
static void f_eventual(void)
{
    long v[2] = { 1, 2 };
    ABT_eventual e = (ABT_eventual)out[0];
    ABTI_eventual *ie = ABTI_eventual_get_ptr(e);
    OK(ABT_eventual_set(e, ie->nbytes ? v : NULL, (int)ie->nbytes));
    OK(ABT_eventual_wait(e, NULL));
    OK(ABT_eventual_free((ABT_eventual *)&out[0]));
}
static int c_future_create(void) { return ABT_future_create(3, NULL, (ABT_future *)&out[0]); }
static void f_future(void)
{
    OK(ABT_future_set((ABT_future)out[0], (void *)1));
    OK(ABT_future_free((ABT_future *)&out[0]));
}
static int c_rwlock_create(void) { return ABT_rwlock_create((ABT_rwlock *)&out[0]); }
static void f_rwlock(void)
{
    OK(ABT_rwlock_wrlock((ABT_rwlock)out[0]));
    OK(ABT_rwlock_unlock((ABT_rwlock)out[0]));
    OK(ABT_rwlock_free((ABT_rwlock *)&out[0]));
}
static int c_timer_create(void) { return ABT_timer_create((ABT_timer *)&out[0]); }
static void f_timer(void)
{
    double d;
    OK(ABT_timer_start((ABT_timer)out[0]));
    OK(ABT_timer_stop_and_read((ABT_timer)out[0], &d));
    OK(ABT_timer_free((ABT_timer *)&out[0]));
}
static int c_timer_dup(void) { return ABT_timer_dup(w_timer, (ABT_timer *)&out[0]); }

/* --- info --- */
static void p_null(void) { s_null = fopen("/dev/null", "w"); }
static int c_info_stacks_in_pool(void) { return ABT_info_print_thread_stacks_in_pool(s_null, p_parked); }
static int c_info_all_xstreams(void) { return ABT_info_print_all_xstreams(s_null); }
static void f_null(void) { fclose(s_null); }

/* --- ABT_init --- */
static int c_init(void) { return ABT_init(0, NULL); }

/* drain the calling stream's local memory pools down to their last element so
 * that the next allocation must take a bucket (and a page) from the global pool */
#define MAXDRAIN 8192
static ABT_thread d_threads[MAXDRAIN];
static ABT_mutex d_mutexes[1]; /* (descriptors are drained with named tasklets) */
static ABT_task d_tasks[MAXDRAIN];
static int d_nt, d_nk;
static long mp_page_avail(ABTI_mem_pool_global_pool *g)
{
    void *p;
    size_t tag;
    long n = 0;
    ABTD_atomic_relaxed_load_non_atomic_tagged_ptr(&g->mem_page_lifo.p_top, &p, &tag);
    for (ABTI_sync_lifo_element *e = (ABTI_sync_lifo_element *)p; e; e = e->p_next)
        n += (long)(((ABTI_mem_pool_page *)e)->mem_extra_size / g->header_size);
    return n;
}
/* next allocation from this local pool must go to the OS (bucket list empty, not enough carved-out room) */
static int mp_dry(ABTI_mem_pool_local_pool *l)
{
    ABTI_mem_pool_global_pool *g = l->p_global_pool;
    return l->bucket_index == 0 && l->buckets[0]->bucket_info.num_headers == 1 && lifo_len(&g->bucket_lifo) == 0 &&
           mp_page_avail(g) < (long)g->num_headers_per_bucket;
}
static void drain_pools(void)
{
    ABTI_xstream *x = ABTI_local_get_xstream(ABTI_local_get_local());
    (void)d_mutexes;
    while (d_nt < MAXDRAIN && !mp_dry(&x->mem_pool_stack)) {
        OK(ABT_thread_create(p_parked, f_inc, NULL, ABT_THREAD_ATTR_NULL, &d_threads[d_nt]));
        d_nt++;
    }
    while (d_nk < MAXDRAIN && !mp_dry(&x->mem_pool_desc)) {
        OK(ABT_task_create(p_parked, f_inc, NULL, &d_tasks[d_nk]));
        d_nk++;
    }
    if (!mp_dry(&x->mem_pool_stack) || !mp_dry(&x->mem_pool_desc))
        problem("drain: could not drain the memory pools");
}
static void undrain(void)
{
    /* the drained units sit in the parked pool; world_teardown runs them; free them after */
}
static void free_drained(void)
{
    for (int i = 0; i < d_nt; i++)
        OK(ABT_thread_free(&d_threads[i]));
    for (int i = 0; i < d_nk; i++)
        OK(ABT_task_free(&d_tasks[i]));
}

/* ------------------------------------------------------------------ generated scenario families
 * Every fallible creation / association path of the modelled ladders, crossed with every configuration
 * dimension that selects a different branch of the ladder:
 *   mk  unit creation          api x thread attribute x target pool kind (x memory regime / caller kind)
 *   as  re-association         operation x kind of the unit's current pool x kind of the target pool
 *   ms  main-scheduler change  target stream (caller's / another, joined) x API x scheduler kind x first-pool kind
 *   ps  ABT_pool_add_sched     pool kind x scheduler kind
 *   sc  scheduler creation     API / predefined kind x pool list with user-defined pools
 *   xc  stream creation        API x scheduler kind x first-pool kind
 * The same generic prep / call / fin functions serve a family; the parameters are in S->p. */
enum { FAM_MK = 1, FAM_AS, FAM_MS, FAM_PS, FAM_SC, FAM_XC };
enum { PK_BI = 0, PK_UD, PK_LG, PK_AUTO, PK_N };
static const char *pk_name[] = { "bi", "ud", "lg", "auto" };
enum { AT_NULL = 0, AT_DEF, AT_CB, AT_SS, AT_SS_CB, AT_US, AT_US_CB, AT_NOMIG, AT_N };
static const char *at_name[] = { "null", "def", "cb", "ss", "ss_cb", "us", "us_cb", "nomig" };
enum { A_TC = 0, A_TCU, A_TCTO, A_TCX, A_TCM, A_KC, A_KCU, A_KCX, A_N };
static const char *api_name[] = { "tc", "tcu", "tcto", "tcx", "tcm", "kc", "kcu", "kcx" };
enum { M_NORM = 0, M_KT8, M_DRAIN, M_DML, M_EXT, M_N };
static const char *m_name[] = { "", ".kt8", ".drained", ".dml", ".ext" };
static const int m_flags[] = { 0, F_KT8, F_SMALL | F_DRAIN, F_DML, F_EXT };
enum { O_REVIVE_T = 0, O_REVIVE_K, O_REVIVE_TO, O_PUSH, O_PUSHN, O_SETASSOC, O_POOL_PUSH, O_SELF_SETASSOC, O_SELF_SCHED,
       O_MIG_YIELD, O_N };
static const char *o_name[] = { "revive_t", "revive_k", "revive_to", "push", "pushn", "setassoc", "pool_push", "self_setassoc",
                                "self_sched", "mig_yield" };
enum { SK_BASIC_AUTO = 0, SK_BASIC_USER, SK_USCHED, SK_USCHED_AUTO, SK_N };
static const char *sk_name[] = { "basic_auto", "basic_user", "usched", "usched_auto" };
enum { T_SELF = 0, T_OTHER };
enum { MS_SET = 0, MS_NULL, MS_BASIC };
static const char *ms_name[] = { "set", "null", "basic" };

#define P (S->p)
static ABT_pool g_pool;
static volatile long ran2;
static long ran2_0;
static int s_sched_auto;
static void f_inc2(void *a) { (void)a; __atomic_fetch_add(&ran2, 1, __ATOMIC_SEQ_CST); }
static ABT_pool pool_of(int k) { return k == PK_UD ? p_user1 : k == PK_LG ? p_legacy : p_x1; }
static ABT_pool mk_pool(int k);
/* ..._create_on_xstream uses the FIRST pool of the stream's main scheduler: a scenario-local stream over one
 * pool of the wanted kind (the world's stream 1 for a built-in pool) */
static ABT_xstream x_on;
static void prep_on_xstream(int k)
{
    x_on = xs[1];
    if (k == PK_BI)
        return;
    s_pool = mk_pool(k);
    OK(ABT_xstream_create_basic(ABT_SCHED_BASIC, 1, &s_pool, ABT_SCHED_CONFIG_NULL, &s_xs));
    x_on = s_xs;
}
static void fin_on_xstream(void)
{
    if (x_on == xs[1])
        return;
    OK(ABT_xstream_join(s_xs));
    OK(ABT_xstream_free(&s_xs));
    OK(ABT_pool_free(&s_pool));
    s_xs = NULL;
    s_pool = NULL;
}
/* a scenario-local pool that no stream serves */
static ABT_pool mk_pool(int k)
{
    ABT_pool p = ABT_POOL_NULL;
    if (k == PK_UD)
        OK(ABT_pool_create(w_userdef, ABT_POOL_CONFIG_NULL, &p));
    else if (k == PK_LG)
        OK(ABT_pool_create((ABT_pool_user_def)&w_legacy_def, ABT_POOL_CONFIG_NULL, &p));
    else
        OK(ABT_pool_create_basic(ABT_POOL_FIFO, ABT_POOL_ACCESS_MPMC, ABT_FALSE, &p));
    return p;
}
static ABT_sched mk_sched(int sk, int n, ABT_pool *pools)
{
    ABT_sched s = ABT_SCHED_NULL;
    ABT_sched_config c = ABT_SCHED_CONFIG_NULL;
    if (sk == SK_BASIC_USER)
        OK(ABT_sched_config_create(&c, ABT_sched_config_automatic, ABT_FALSE, ABT_sched_config_var_end));
    if (sk == SK_USCHED_AUTO)
        OK(ABT_sched_config_create(&c, ABT_sched_config_automatic, ABT_TRUE, ABT_sched_config_var_end));
    if (sk == SK_BASIC_AUTO || sk == SK_BASIC_USER)
        OK(ABT_sched_create_basic(ABT_SCHED_BASIC, n, pools, c, &s));
    else
        OK(ABT_sched_create(&usched_def, n, pools, c, &s));
    if (c != ABT_SCHED_CONFIG_NULL)
        OK(ABT_sched_config_free(&c));
    s_sched_auto = s != ABT_SCHED_NULL && ABTI_sched_get_ptr(s)->automatic == ABT_TRUE;
    return s;
}
static void prep_attr(int a)
{
    s_attr = ABT_THREAD_ATTR_NULL;
    if (a == AT_NULL)
        return;
    OK(ABT_thread_attr_create(&s_attr));
    if (a == AT_CB || a == AT_SS_CB || a == AT_US_CB) {
        OK(ABT_thread_attr_set_callback(s_attr, mig_cb, NULL));
        OK(ABT_thread_attr_set_migratable(s_attr, ABT_TRUE));
    }
    if (a == AT_SS || a == AT_SS_CB)
        OK(ABT_thread_attr_set_stacksize(s_attr, 32768));
    if (a == AT_US || a == AT_US_CB)
        OK(ABT_thread_attr_set_stack(s_attr, s_stack, sizeof s_stack));
    if (a == AT_NOMIG)
        OK(ABT_thread_attr_set_migratable(s_attr, ABT_FALSE));
}
static void wait_ran2(void)
{
    for (int i = 0; i < 200000 && ran2 < ran2_0 + 1; i++) {
        if (!(S->flags & F_EXT))
            ABT_thread_yield();
        usleep(20);
    }
    if (ran2 < ran2_0 + 1)
        problem("created unnamed unit did not run");
    usleep(2000);
}

/* --- mk: unit creation --- */
static void g_mk_prep(void)
{
    prep_attr(P.attr);
    g_pool = pool_of(P.pool);
    ran2_0 = ran2;
    if (P.api == A_TCX || P.api == A_KCX)
        prep_on_xstream(P.pool);
}
static int g_mk_call(void)
{
    switch (P.api) {
        case A_TC: return ABT_thread_create(g_pool, f_inc, NULL, s_attr, TH(0));
        case A_TCU: return ABT_thread_create(g_pool, f_inc2, NULL, s_attr, NULL);
        case A_TCTO: return ABT_thread_create_to(g_pool, f_inc, NULL, s_attr, TH(0));
        case A_TCX: return ABT_thread_create_on_xstream(x_on, f_inc, NULL, s_attr, TH(0));
        case A_TCM: {
            ABT_pool pl[3] = { p_x1, p_user1, p_legacy };
            void (*fl[3])(void *) = { f_inc, f_inc, f_inc };
            if (P.pool == PK_UD)
                pl[0] = p_user1, pl[1] = p_legacy, pl[2] = p_x1;
            if (P.pool == PK_LG)
                pl[0] = p_legacy, pl[1] = p_x1, pl[2] = p_user1;
            return ABT_thread_create_many(3, pl, fl, NULL, s_attr, TH(0));
        }
        case A_KC: return ABT_task_create(g_pool, f_inc, NULL, (ABT_task *)&out[0]);
        case A_KCU: return ABT_task_create(g_pool, f_inc2, NULL, NULL);
        case A_KCX: return ABT_task_create_on_xstream(x_on, f_inc, NULL, (ABT_task *)&out[0]);
    }
    return -1;
}
static void g_mk_fin(void)
{
    switch (P.api) {
        case A_TCU:
        case A_KCU: wait_ran2(); break;
        case A_TCM:
            OK(ABT_thread_free(TH(0)));
            OK(ABT_thread_free(TH(1)));
            OK(ABT_thread_free(TH(2)));
            break;
        case A_KC:
        case A_KCX: OK(ABT_task_free((ABT_task *)&out[0])); break;
        default: OK(ABT_thread_free(TH(0)));
    }
    if (s_attr != ABT_THREAD_ATTR_NULL)
        OK(ABT_thread_attr_free(&s_attr));
    if (P.api == A_TCX || P.api == A_KCX)
        fin_on_xstream();
}

/* --- as: association of an existing unit with another pool --- */
static int mig_cb_calls;
static void mig_count_cb(ABT_thread t, void *arg)
{
    (void)t, (void)arg;
    mig_cb_calls++;
}
static void g_as_prep(void)
{
    g_pool = pool_of(P.tgt);
    switch (P.api) {
        case O_REVIVE_T:
        case O_REVIVE_TO:
            OK(ABT_thread_create(pool_of(P.src), f_inc, NULL, ABT_THREAD_ATTR_NULL, &s_thread));
            OK(ABT_thread_join(s_thread));
            break;
        case O_REVIVE_K:
            OK(ABT_task_create(pool_of(P.src), f_inc, NULL, &s_thread));
            OK(ABT_task_join(s_thread));
            break;
        case O_PUSHN:
        case O_PUSH:
        case O_SETASSOC:
        case O_POOL_PUSH:
        case O_SELF_SCHED: {
            ABT_thread t;
            s_pool = mk_pool(P.src);
            OK(ABT_thread_create(s_pool, f_inc, NULL, ABT_THREAD_ATTR_NULL, &s_thread));
            if (P.api == O_PUSHN)
                OK(ABT_thread_create(s_pool, f_inc, NULL, ABT_THREAD_ATTR_NULL, &s_thread2));
            OK(ABT_pool_pop_thread(s_pool, &t));
            if (P.api == O_PUSHN)
                OK(ABT_pool_pop_thread(s_pool, &t));
            break;
        }
        case O_MIG_YIELD: {
            /* the request (and the migration data it needs) is made here; the association happens at the yield */
            ABT_thread me;
            OK(ABT_self_get_thread(&me));
            OK(ABT_thread_migrate_to_pool(me, g_pool));
            /* (registered after the request: the migration data exists already, no allocation is added to the call) */
            mig_cb_calls = 0;
            OK(ABT_thread_set_callback(me, mig_count_cb, NULL));
            break;
        }
    }
}
static int g_as_call(void)
{
    switch (P.api) {
        case O_REVIVE_T: return ABT_thread_revive(g_pool, f_inc, NULL, &s_thread);
        case O_REVIVE_K: return ABT_task_revive(g_pool, f_inc, NULL, &s_thread);
        case O_REVIVE_TO: return ABT_thread_revive_to(g_pool, f_inc, NULL, &s_thread);
        case O_PUSH: return ABT_pool_push_thread(g_pool, s_thread);
        case O_PUSHN: {
            ABT_thread ts[2] = { s_thread, s_thread2 };
            return ABT_pool_push_threads(g_pool, ts, 2);
        }
        case O_SETASSOC: return ABT_thread_set_associated_pool(s_thread, g_pool);
        case O_POOL_PUSH: {
            ABT_unit u = ABT_UNIT_NULL;
            int r = ABT_thread_get_unit(s_thread, &u);
            return r != ABT_SUCCESS ? r : ABT_pool_push(g_pool, u);
        }
        case O_SELF_SETASSOC: return ABT_self_set_associated_pool(g_pool);
        case O_SELF_SCHED: return ABT_self_schedule(s_thread, g_pool);
        case O_MIG_YIELD: {
            ABT_pool now = ABT_POOL_NULL;
            ABT_thread_yield();
            ABT_self_get_last_pool(&now);
            /* the callback belongs to the *performed* migration: none while the re-association has failed, one after */
            if (now == g_pool && mig_cb_calls != 1)
                problem("call: the migration was performed and its callback was invoked %d time(s) in all", mig_cb_calls);
            if (now != g_pool && mig_cb_calls != 0)
                problem("call: the migration was not performed (the unit is still in its pool) but its callback was invoked %d time(s)", mig_cb_calls);
            return now == g_pool ? ABT_SUCCESS : ABT_ERR_MIGRATION_NA;
        }
    }
    return -1;
}
static void g_as_fin(void)
{
    switch (P.api) {
        case O_REVIVE_T:
        case O_REVIVE_K:
        case O_REVIVE_TO: OK(ABT_thread_free(&s_thread)); break;
        case O_SETASSOC: OK(ABT_pool_push_thread(g_pool, s_thread)); /* fall through */
        case O_PUSH:
        case O_PUSHN:
        case O_POOL_PUSH:
        case O_SELF_SCHED:
            OK(ABT_thread_free(&s_thread));
            if (s_thread2)
                OK(ABT_thread_free(&s_thread2));
            OK(ABT_pool_free(&s_pool));
            break;
        case O_SELF_SETASSOC: OK(ABT_self_set_associated_pool(p_main)); break;
        case O_MIG_YIELD: {
            /* go back to the primary stream's pool: a ULT that busy-waits (join of a tasklet) in a pool of
             * stream 2 would starve the pools behind it in that stream's priority scheduler */
            ABT_thread me;
            ABT_pool now = ABT_POOL_NULL;
            OK(ABT_self_get_thread(&me));
            OK(ABT_thread_set_callback(me, NULL, NULL));
            OK(ABT_thread_migrate_to_pool(me, p_main));
            OK(ABT_thread_yield());
            OK(ABT_self_get_last_pool(&now));
            if (now != p_main)
                problem("use_result: migration back to the main pool did not happen");
            break;
        }
    }
}

/* --- ms: main scheduler of the caller's stream / of another (joined) stream --- */
static ABT_pool ms_pools[2];
static int ms_n;
static void g_ms_prep(void)
{
    if (P.tgt == T_OTHER) {
        OK(ABT_xstream_create(ABT_SCHED_NULL, &s_xs));
        OK(ABT_xstream_join(s_xs));
    }
    s_pool = P.pool == PK_AUTO ? NULL : mk_pool(P.pool);
    ms_pools[0] = s_pool ? s_pool : ABT_POOL_NULL;
    ms_pools[1] = p_main; /* the caller's stream must keep serving the world's main pool */
    ms_n = P.tgt == T_SELF ? 2 : 1;
    if (P.api == MS_SET)
        s_sched = mk_sched(P.sk, ms_n, ms_pools);
}
static int g_ms_call(void)
{
    ABT_xstream x = P.tgt == T_SELF ? xs[0] : s_xs;
    if (P.api == MS_SET)
        return ABT_xstream_set_main_sched(x, s_sched);
    if (P.api == MS_NULL)
        return ABT_xstream_set_main_sched(x, ABT_SCHED_NULL);
    return ABT_xstream_set_main_sched_basic(x, ABT_SCHED_BASIC, ms_n, ms_pools);
}
static void g_ms_fin(void)
{
    long before = ran;
    if (P.tgt == T_OTHER) {
        ABT_thread t = ABT_THREAD_NULL;
        OK(ABT_xstream_revive(s_xs));
        if (s_pool)
            OK(ABT_thread_create(s_pool, f_inc, NULL, ABT_THREAD_ATTR_NULL, &t));
        else
            OK(ABT_thread_create_on_xstream(s_xs, f_inc, NULL, ABT_THREAD_ATTR_NULL, &t));
        if (t != ABT_THREAD_NULL)
            OK(ABT_thread_free(&t));
        OK(ABT_xstream_join(s_xs));
        OK(ABT_xstream_free(&s_xs));
    } else {
        /* the new scheduler runs the caller; a unit pushed to its first pool must run on this stream */
        ABT_thread t = ABT_THREAD_NULL;
        ABT_pool first = ABT_POOL_NULL;
        ABT_sched cur = ABT_SCHED_NULL;
        OK(ABT_xstream_get_main_sched(xs[0], &cur));
        OK(ABT_sched_get_pools(cur, 1, 0, &first));
        OK(ABT_thread_create(first, f_inc, NULL, ABT_THREAD_ATTR_NULL, &t));
        if (t != ABT_THREAD_NULL)
            OK(ABT_thread_free(&t));
        /* give the primary stream a scheduler on the world's main pool only, so that the scenario's
         * scheduler and pool can be released */
        OK(ABT_xstream_set_main_sched_basic(xs[0], ABT_SCHED_BASIC, 1, &p_main));
    }
    if (ran != before + 1)
        problem("use_result: the unit given to the new main scheduler did not run");
    if (P.api == MS_SET && !s_sched_auto)
        OK(ABT_sched_free(&s_sched));
    s_sched = NULL;
    if (s_pool)
        OK(ABT_pool_free(&s_pool));
    s_pool = NULL;
}

/* --- ps: stacked scheduler --- */
static void g_ps_prep(void)
{
    ABT_pool pl[1] = { ABT_POOL_NULL };
    g_pool = pool_of(P.pool);
    s_sched = mk_sched(P.sk, 1, pl);
}
static int g_ps_call(void) { return ABT_pool_add_sched(g_pool, s_sched); }
static void g_ps_fin(void)
{
    if (s_sched_auto) {
        s_sched = NULL; /* frees itself when its (empty) pool has been served */
        usleep(20000);
        return;
    }
    ABTI_sched *is = ABTI_sched_get_ptr(s_sched);
    for (int i = 0; i < 100000 && *(volatile ABTI_sched_used *)&is->used != ABTI_SCHED_NOT_USED; i++)
        usleep(50);
    OK(ABT_sched_free(&s_sched));
    s_sched = NULL;
}

/* --- sc: scheduler creation over user-defined pools --- */
enum { PL_UD = 0, PL_UD_AUTO, PL_LG_BI, PL_AUTO_UD_LG, PL_N };
static const char *pl_name[] = { "ud", "ud_auto", "lg_bi", "auto_ud_lg" };
static int mk_pool_list(int which, ABT_pool *pl)
{
    switch (which) {
        case PL_UD: pl[0] = s_pool; return 1;
        case PL_UD_AUTO: pl[0] = s_pool; pl[1] = ABT_POOL_NULL; return 2;
        case PL_LG_BI: pl[0] = s_pool2; pl[1] = s_pool3; return 2;
        default: pl[0] = ABT_POOL_NULL; pl[1] = s_pool; pl[2] = s_pool2; return 3;
    }
}
static void g_sc_prep(void)
{
    s_pool = mk_pool(PK_UD);
    s_pool2 = mk_pool(PK_LG);
    s_pool3 = mk_pool(PK_BI);
}
static void free_sc_pools(void)
{
    OK(ABT_pool_free(&s_pool));
    OK(ABT_pool_free(&s_pool2));
    OK(ABT_pool_free(&s_pool3));
    s_pool = s_pool2 = s_pool3 = NULL;
}
static int g_sc_call(void)
{
    ABT_pool pl[3];
    int n = mk_pool_list(P.pool, pl);
    if (P.api == 0)
        return ABT_sched_create(&usched_def, n, pl, ABT_SCHED_CONFIG_NULL, (ABT_sched *)&out[0]);
    static const ABT_sched_predef pre[] = { ABT_SCHED_BASIC, ABT_SCHED_BASIC, ABT_SCHED_BASIC_WAIT, ABT_SCHED_PRIO,
                                            ABT_SCHED_RANDWS };
    return ABT_sched_create_basic(pre[P.api], n, pl, ABT_SCHED_CONFIG_NULL, (ABT_sched *)&out[0]);
}
static void g_sc_fin(void)
{
    OK(ABT_sched_free((ABT_sched *)&out[0]));
    free_sc_pools();
}

/* --- xc: stream creation whose scheduler has user-defined pools --- */
static void g_xc_prep(void)
{
    g_sc_prep();
    s_sched = NULL;
    if (P.api == 0 || P.api == 2) {
        ABT_pool pl[3];
        int n = mk_pool_list(P.pool, pl);
        s_sched = mk_sched(P.sk, n, pl);
    }
}
static int g_xc_call(void)
{
    ABT_pool pl[3];
    if (P.api == 0)
        return ABT_xstream_create(s_sched, (ABT_xstream *)&out[0]);
    if (P.api == 2)
        return ABT_xstream_create_with_rank(s_sched, 9, (ABT_xstream *)&out[0]);
    int n = mk_pool_list(P.pool, pl);
    return ABT_xstream_create_basic(ABT_SCHED_BASIC, n, pl, ABT_SCHED_CONFIG_NULL, (ABT_xstream *)&out[0]);
}
static void g_xc_fin(void)
{
    ABT_thread t = ABT_THREAD_NULL;
    ABT_pool first = ABT_POOL_NULL;
    long before = ran;
    OK(ABT_xstream_get_main_pools((ABT_xstream)out[0], 1, &first));
    OK(ABT_thread_create(first, f_inc, NULL, ABT_THREAD_ATTR_NULL, &t));
    if (t != ABT_THREAD_NULL)
        OK(ABT_thread_free(&t));
    if (ran != before + 1)
        problem("use_result: the unit given to the new stream did not run");
    OK(ABT_xstream_join((ABT_xstream)out[0]));
    OK(ABT_xstream_free((ABT_xstream *)&out[0]));
    if (s_sched && !s_sched_auto)
        OK(ABT_sched_free(&s_sched));
    s_sched = NULL;
    free_sc_pools();
}

#define MAXDYN 640
static scen dyn[MAXDYN];
static char dyn_name[MAXDYN][72];
static int n_dyn;
static void add_scen(int flags, par p, void (*prep)(void), int (*call)(void), void *nullh, void (*fin)(void),
                     const char *routine, const char *fmt, ...)
{
    if (n_dyn >= MAXDYN)
        abort();
    va_list ap;
    va_start(ap, fmt);
    vsnprintf(dyn_name[n_dyn], sizeof dyn_name[0], fmt, ap);
    va_end(ap);
    scen *s = &dyn[n_dyn];
    s->name = dyn_name[n_dyn];
    s->flags = flags;
    s->prep = prep;
    s->call = call;
    s->nullh = nullh;
    s->fin = fin;
    s->routine = routine;
    s->p = p;
    n_dyn++;
}
static void gen_scens(void)
{
    par p;
    /* mk */
    for (int api = 0; api < A_N; api++)
        for (int attr = 0; attr < AT_N; attr++)
            for (int pool = PK_BI; pool <= PK_LG; pool++)
                for (int mem = 0; mem < M_N; mem++) {
                    int task = api >= A_KC;
                    int cb = attr == AT_CB || attr == AT_SS_CB || attr == AT_US_CB;
                    if (task && attr != AT_NULL)
                        continue;
                    /* which part of the cross product is enumerated (the rest repeats a ladder branch that an
                     * enumerated combination already selects):  ABT_thread_create is crossed with every attribute;
                     * the other creators with the attributes that change the ladder (none / migration callback /
                     * user stack + callback); memory regimes and the external caller with the same three */
                    int core = attr == AT_NULL || attr == AT_CB || attr == AT_US_CB;
                    if (api != A_TC && !core && !(api == A_TCU && attr == AT_SS_CB))
                        continue;
                    if (mem == M_KT8 && !(cb && (api == A_TC || api == A_TCU)))
                        continue;
                    if (mem > M_KT8 && !(core && (api == A_TC || api == A_KC)))
                        continue;
                    if ((api == A_TCTO || api == A_TCM || api == A_TCX || api == A_KCX) && attr == AT_US_CB)
                        continue;
                    memset(&p, 0, sizeof p);
                    p.fam = FAM_MK, p.api = (short)api, p.attr = (short)attr, p.pool = (short)pool, p.mem = (short)mem;
                    int fl = m_flags[mem] | (pool != PK_BI || api == A_TCM ? F_UMAP : 0);
                    if (api == A_TCU || api == A_KCU)
                        fl |= F_NOOUT;
                    if (api == A_TCTO)
                        fl |= F_INULT;
                    if (mem == M_NORM && (api == A_TC || api == A_KC) && core)
                        fl |= F_QUICK;
                    add_scen(fl, p, g_mk_prep, g_mk_call, task ? (void *)ABT_TASK_NULL : (void *)ABT_THREAD_NULL, g_mk_fin,
                             api == A_TCM ? NULL : task ? "task_create" : "ythread_create", "mk.%s.%s.%s%s", api_name[api],
                             at_name[attr], pk_name[pool], m_name[mem]);
                }
    /* as */
    for (int op = 0; op < O_N; op++)
        for (int src = PK_BI; src <= PK_LG; src++)
            for (int tgt = PK_BI; tgt <= PK_LG; tgt++) {
                int self = op == O_SELF_SETASSOC || op == O_MIG_YIELD;
                if (self && src != PK_BI)
                    continue; /* the calling ULT lives in the primary stream's built-in pool */
                if (op == O_PUSHN && tgt == PK_LG)
                    continue; /* the legacy definition has no push_many: ABT_ERR_POOL before any allocation */
                memset(&p, 0, sizeof p);
                p.fam = FAM_AS, p.api = (short)op, p.src = (short)src, p.tgt = (short)tgt;
                int revive = op == O_REVIVE_T || op == O_REVIVE_K || op == O_REVIVE_TO;
                /* a unit revived into the (world) pool it already belongs to keeps its unit: no allocation */
                int fl = F_NOOUT | (tgt != PK_BI && !(revive && src == tgt) ? F_UMAP : 0);
                if (self || op == O_SELF_SCHED || op == O_REVIVE_TO)
                    fl |= F_INULT;
                if ((op == O_REVIVE_T || op == O_PUSH) && src == PK_BI)
                    fl |= F_QUICK;
                add_scen(fl, p, g_as_prep, g_as_call, NULL, g_as_fin, NULL, "as.%s.%s.%s", o_name[op], pk_name[src],
                         pk_name[tgt]);
            }
    /* ms */
    for (int tgt = T_SELF; tgt <= T_OTHER; tgt++)
        for (int api = MS_SET; api <= MS_BASIC; api++)
            for (int sk = 0; sk < SK_USCHED_AUTO; sk++)
                for (int pool = PK_BI; pool <= PK_AUTO; pool++) {
                    if (api != MS_SET && sk != 0)
                        continue;
                    if (api == MS_NULL && (pool != PK_AUTO || tgt == T_SELF))
                        continue; /* on the caller's stream the default scheduler would orphan the world's main pool */
                    memset(&p, 0, sizeof p);
                    p.fam = FAM_MS, p.api = (short)api, p.sk = (short)sk, p.pool = (short)pool, p.tgt = (short)tgt;
                    int fl = F_NOOUT | (tgt == T_SELF ? F_INULT : 0) | (pool == PK_UD || pool == PK_LG ? F_UMAP : 0);
                    if (sk == SK_BASIC_USER && (pool == PK_UD || pool == PK_AUTO))
                        fl |= F_QUICK;
                    add_scen(fl, p, g_ms_prep, g_ms_call, NULL, g_ms_fin, NULL, "ms.%s.%s.%s.%s", tgt == T_SELF ? "self" : "other",
                             ms_name[api], api == MS_SET ? sk_name[sk] : "-", pk_name[pool]);
                }
    /* ps */
    for (int pool = PK_BI; pool <= PK_LG; pool++)
        for (int sk = 0; sk < SK_N; sk++) {
            memset(&p, 0, sizeof p);
            p.fam = FAM_PS, p.sk = (short)sk, p.pool = (short)pool;
            add_scen(F_NOOUT | (pool != PK_BI ? F_UMAP : 0) | (sk == SK_BASIC_AUTO ? F_QUICK : 0), p, g_ps_prep, g_ps_call, NULL,
                     g_ps_fin, "ythread_create", "ps.%s.%s", pk_name[pool], sk_name[sk]);
        }
    /* sc */
    for (int api = 0; api <= 4; api++)
        for (int pl = 0; pl < PL_N; pl++) {
            static const char *an[] = { "user", "basic", "basic_wait", "prio", "randws" };
            if (api == 1 && pl != PL_AUTO_UD_LG)
                continue; /* ABT_SCHED_BASIC is pre[] 1 */
            memset(&p, 0, sizeof p);
            p.fam = FAM_SC, p.api = (short)api, p.pool = (short)pl;
            add_scen(0, p, g_sc_prep, g_sc_call, ABT_SCHED_NULL, g_sc_fin, api == 0 ? "sched_create" : "ABTI_sched_create_basic",
                     "sc.%s.%s", an[api], pl_name[pl]);
        }
    /* xc */
    for (int api = 0; api <= 2; api++)
        for (int sk = 0; sk < SK_USCHED_AUTO; sk++)
            for (int pl = 0; pl < PL_N; pl++) {
                static const char *an[] = { "create", "basic", "with_rank" };
                if (api == 1 && sk != 0)
                    continue;
                if (api == 2 && pl != PL_UD)
                    continue;
                if (pl == PL_LG_BI && api != 1)
                    continue;
                memset(&p, 0, sizeof p);
                p.fam = FAM_XC, p.api = (short)api, p.sk = (short)sk, p.pool = (short)pl;
                add_scen(0, p, g_xc_prep, g_xc_call, ABT_XSTREAM_NULL, g_xc_fin, "xstream_create", "xc.%s.%s.%s", an[api],
                         api == 1 ? "-" : sk_name[sk], pl_name[pl]);
            }
}

#define Q F_QUICK
static const scen scens[] = {
    /* name, flags, prep, call, NULL handle, fin, translated routine */
    { "thread_create", Q, NULL, c_thread_create, ABT_THREAD_NULL, f_thread, "ythread_create" },
    { "thread_create_drained", F_SMALL | F_DRAIN | Q, NULL, c_thread_create, ABT_THREAD_NULL, f_thread, "ythread_create" },
    { "thread_create_main", 0, NULL, c_thread_create_main, ABT_THREAD_NULL, f_thread, "ythread_create" },
    { "thread_create_stacksize", Q, p_attr_stacksize, c_thread_create_attr, ABT_THREAD_NULL, f_thread_attr, "ythread_create" },
    { "thread_create_userstack", 0, p_attr_userstack, c_thread_create_attr, ABT_THREAD_NULL, f_thread_attr, "ythread_create" },
    { "thread_create_cb", Q, p_attr_cb, c_thread_create_attr, ABT_THREAD_NULL, f_thread_attr, "ythread_create" },
    { "thread_create_cb_kt8", F_KT8, p_attr_cb, c_thread_create_attr, ABT_THREAD_NULL, f_thread_attr, "ythread_create" },
    { "thread_create_cb_drained", F_SMALL | F_DRAIN, p_attr_cb, c_thread_create_attr, ABT_THREAD_NULL, f_thread_attr, "ythread_create" },
    { "thread_create_stacksize_cb", 0, p_attr_stacksize_cb, c_thread_create_attr, ABT_THREAD_NULL, f_thread_attr, "ythread_create" },
    { "thread_create_unnamed", F_NOOUT, p_ran, c_thread_create_unnamed, NULL, f_wait1, "ythread_create" },
    { "thread_create_userpool", Q, NULL, c_thread_create_userpool, ABT_THREAD_NULL, f_thread, "ythread_create" },
    { "thread_create_userpool_drained", F_SMALL | F_DRAIN, NULL, c_thread_create_userpool, ABT_THREAD_NULL, f_thread, "ythread_create" },
    { "thread_create_to", F_INULT, NULL, c_thread_create_to, ABT_THREAD_NULL, f_thread, "ythread_create" },
    { "thread_create_on_xstream", 0, NULL, c_thread_create_on_xstream, ABT_THREAD_NULL, f_thread, "ythread_create" },
    { "thread_create_many", 0, NULL, c_thread_create_many, ABT_THREAD_NULL, f_thread_many, NULL },
    { "task_create", Q, NULL, c_task_create, ABT_TASK_NULL, f_task, "task_create" },
    { "task_create_drained", F_SMALL | F_DRAIN, NULL, c_task_create, ABT_TASK_NULL, f_task, "task_create" },
    { "task_create_unnamed", F_NOOUT, p_ran, c_task_create_unnamed, NULL, f_wait1, "task_create" },
    { "task_create_userpool", 0, NULL, c_task_create_userpool, ABT_TASK_NULL, f_task, "task_create" },
    { "task_create_on_xstream", 0, NULL, c_task_create_on_xstream, ABT_TASK_NULL, f_task, "task_create" },
    { "thread_revive_userpool", F_NOOUT, p_done_thread, c_thread_revive_user, NULL, f_sthread, NULL },
    { "task_revive_userpool", F_NOOUT, p_done_task, c_task_revive_user, NULL, f_sthread, NULL },
    { "pool_push_thread_userpool", F_NOOUT, p_popped_thread, c_pool_push_thread_user, NULL, f_popped, NULL },
    { "thread_migrate_to_pool", F_NOOUT | Q, NULL, c_thread_migrate_to_pool, NULL, NULL, "ABTI_thread_get_mig_data" },
    { "thread_migrate_to_pool_kt8", F_NOOUT | F_KT8, NULL, c_thread_migrate_to_pool, NULL, NULL, "ABTI_thread_get_mig_data" },
    { "thread_migrate", F_NOOUT, NULL, c_thread_migrate, NULL, NULL, NULL },
    { "thread_set_callback", F_NOOUT, NULL, c_thread_set_callback, NULL, NULL, "ABTI_thread_get_mig_data" },
    { "self_set_callback", F_NOOUT | F_INULT, NULL, c_self_set_callback, NULL, NULL, "ABTI_thread_get_mig_data" },
    { "self_set_callback_drained", F_NOOUT | F_INULT | F_SMALL | F_DRAIN, NULL, c_self_set_callback, NULL, NULL, "ABTI_thread_get_mig_data" },
    { "thread_get_attr", 0, NULL, c_thread_get_attr, ABT_THREAD_ATTR_NULL, f_attr, NULL },
    { "thread_attr_create", 0, NULL, c_thread_attr_create, ABT_THREAD_ATTR_NULL, f_attr, NULL },
    { "key_create", 0, NULL, c_key_create, ABT_KEY_NULL, f_key, NULL },
    { "key_set_first", F_NOOUT | F_INULT | Q, NULL, c_key_set_first, NULL, f_key_get, "ABTI_ktable_set" },
    { "key_set_first_kt8", F_NOOUT | F_INULT | F_KT8, NULL, c_key_set_first, NULL, f_key_get, "ABTI_ktable_set" },
    { "key_set_two_kt8", F_NOOUT | F_INULT | F_KT8, NULL, c_key_set_two, NULL, f_key_get, NULL },
    { "key_set_first_drained", F_NOOUT | F_INULT | F_SMALL | F_DRAIN, NULL, c_key_set_first, NULL, f_key_get, "ABTI_ktable_set" },
    { "thread_set_specific", F_NOOUT, NULL, c_thread_set_specific, NULL, f_specific, "ABTI_ktable_set" },
    { "thread_set_specific_kt8", F_NOOUT | F_KT8, NULL, c_thread_set_specific, NULL, f_specific, "ABTI_ktable_set" },
    { "xstream_create", Q, NULL, c_xstream_create, ABT_XSTREAM_NULL, f_xstream, "xstream_create" },
    { "xstream_create_small", F_SMALL, NULL, c_xstream_create, ABT_XSTREAM_NULL, f_xstream, "xstream_create" },
    { "xstream_create_malloclp", F_MALLOCLP, NULL, c_xstream_create, ABT_XSTREAM_NULL, f_xstream, "xstream_create" },
    { "xstream_create_sched", 0, p_sched_basic, c_xstream_create_sched, ABT_XSTREAM_NULL, f_xstream, "xstream_create" },
    { "xstream_create_usersched", 0, p_user_sched, c_xstream_create_sched, ABT_XSTREAM_NULL, f_xstream_usched, "xstream_create" },
    { "xstream_create_basic", Q, p_extra_pool, c_xstream_create_basic, ABT_XSTREAM_NULL, f_xstream_pool, "xstream_create" },
    { "xstream_create_basic_prio", 0, NULL, c_xstream_create_basic_prio, ABT_XSTREAM_NULL, f_xstream, "xstream_create" },
    { "xstream_create_with_rank", 0, NULL, c_xstream_create_with_rank, ABT_XSTREAM_NULL, f_xstream, "xstream_create" },
    { "xstream_revive", F_NOOUT, p_joined_xstream, c_xstream_revive, NULL, f_sxs, NULL },
    { "set_main_sched_other", F_NOOUT, p_joined_xstream, c_set_main_sched_other, NULL, f_sxs_revive, NULL },
    { "set_main_sched_other_null", F_NOOUT, p_joined_xstream, c_set_main_sched_other_null, NULL, f_sxs_revive, NULL },
    { "set_main_sched_self", F_NOOUT | F_INULT, NULL, c_set_main_sched_self, NULL, NULL, NULL },
    { "xstream_barrier_create", 0, NULL, c_xstream_barrier_create, ABT_XSTREAM_BARRIER_NULL, f_xbarrier, NULL },
    { "sched_create_user", Q, p_extra_pool, c_sched_create_user, ABT_SCHED_NULL, f_sched_pool, "sched_create" },
    { "sched_create_basic", 0, NULL, c_sched_create_basic_basic, ABT_SCHED_NULL, f_sched, "ABTI_sched_create_basic" },
    { "sched_create_basic_wait", 0, NULL, c_sched_create_basic_wait, ABT_SCHED_NULL, f_sched, "ABTI_sched_create_basic" },
    { "sched_create_basic_prio", Q, NULL, c_sched_create_basic_prio, ABT_SCHED_NULL, f_sched, "ABTI_sched_create_basic" },
    { "sched_create_basic_randws", 0, NULL, c_sched_create_basic_randws, ABT_SCHED_NULL, f_sched, "ABTI_sched_create_basic" },
    { "sched_create_basic_pools", Q, NULL, c_sched_create_basic_pools, ABT_SCHED_NULL, f_sched, "ABTI_sched_create_basic" },
    { "sched_create_basic_config", 0, p_sched_config, c_sched_create_basic_config, ABT_SCHED_NULL, f_sched_cfg, "ABTI_sched_create_basic" },
    { "sched_config_create", 0, NULL, c_sched_config_create, ABT_SCHED_CONFIG_NULL, f_scfg, NULL },
    { "pool_create_user", Q, NULL, c_pool_create_user, ABT_POOL_NULL, f_pool, "pool_create" },
    { "pool_create_basic_fifo", 0, NULL, c_pool_create_basic_fifo, ABT_POOL_NULL, f_pool, "pool_create" },
    { "pool_create_basic_fifo_wait", Q, NULL, c_pool_create_basic_fifo_wait, ABT_POOL_NULL, f_pool, "pool_create" },
    { "pool_create_basic_randws", 0, NULL, c_pool_create_basic_randws, ABT_POOL_NULL, f_pool, "pool_create" },
    { "pool_config_create", 0, NULL, c_pool_config_create, ABT_POOL_CONFIG_NULL, f_pcfg, NULL },
    { "pool_config_set", F_NOOUT, p_pool_config, c_pool_config_set, NULL, f_spcfg, NULL },
    { "pool_user_def_create", 0, NULL, c_pool_user_def_create, ABT_POOL_USER_DEF_NULL, f_udef, NULL },
    { "pool_add_sched", F_NOOUT, p_stack_sched, c_pool_add_sched, NULL, f_settle, "ythread_create" },
    { "mutex_create", 0, NULL, c_mutex_create, ABT_MUTEX_NULL, f_mutex, NULL },
    { "mutex_create_with_attr", 0, p_mattr, c_mutex_create_with_attr, ABT_MUTEX_NULL, f_mutex_attr, NULL },
    { "mutex_attr_create", 0, NULL, c_mutex_attr_create, ABT_MUTEX_ATTR_NULL, f_mattr, NULL },
    { "mutex_get_attr", 0, NULL, c_mutex_get_attr, ABT_MUTEX_ATTR_NULL, f_mattr, NULL },
    { "cond_create", 0, NULL, c_cond_create, ABT_COND_NULL, f_cond, NULL },
    { "barrier_create", 0, NULL, c_barrier_create, ABT_BARRIER_NULL, f_barrier, NULL },
    { "eventual_create", Q, NULL, c_eventual_create, ABT_EVENTUAL_NULL, f_eventual, "ABT_eventual_create" },
    { "eventual_create0", 0, NULL, c_eventual_create0, ABT_EVENTUAL_NULL, f_eventual, "ABT_eventual_create" },
    { "future_create", 0, NULL, c_future_create, ABT_FUTURE_NULL, f_future, "ABT_future_create" },
    { "rwlock_create", 0, NULL, c_rwlock_create, ABT_RWLOCK_NULL, f_rwlock, NULL },
    { "timer_create", 0, NULL, c_timer_create, ABT_TIMER_NULL, f_timer, NULL },
    { "timer_dup", 0, NULL, c_timer_dup, ABT_TIMER_NULL, f_timer, NULL },
    { "info_stacks_in_pool", F_NOOUT, p_null, c_info_stacks_in_pool, NULL, f_null, NULL },
    { "info_all_xstreams", F_NOOUT, p_null, c_info_all_xstreams, NULL, f_null, NULL },
    { "thread_create_dml", F_DML | Q, NULL, c_thread_create, ABT_THREAD_NULL, f_thread, "ythread_create" },
    { "thread_create_cb_dml", F_DML, p_attr_cb, c_thread_create_attr, ABT_THREAD_NULL, f_thread_attr, "ythread_create" },
    { "thread_create_userpool_dml", F_DML, NULL, c_thread_create_userpool, ABT_THREAD_NULL, f_thread, "ythread_create" },
    { "task_create_dml", F_DML, NULL, c_task_create, ABT_TASK_NULL, f_task, "task_create" },
    { "key_set_first_dml", F_NOOUT | F_INULT | F_DML, NULL, c_key_set_first, NULL, f_key_get, "ABTI_ktable_set" },
    { "key_set_first_kt8_dml", F_NOOUT | F_INULT | F_DML | F_KT8, NULL, c_key_set_first, NULL, f_key_get, "ABTI_ktable_set" },
    { "self_set_callback_dml", F_NOOUT | F_INULT | F_DML, NULL, c_self_set_callback, NULL, NULL, "ABTI_thread_get_mig_data" },
    { "thread_migrate_to_pool_dml", F_NOOUT | F_DML, NULL, c_thread_migrate_to_pool, NULL, NULL, "ABTI_thread_get_mig_data" },
    { "xstream_create_dml", F_DML, NULL, c_xstream_create, ABT_XSTREAM_NULL, f_xstream, "xstream_create" },
    { "pool_add_sched_userpool", F_NOOUT | Q, p_stack_sched, c_pool_add_sched_user, NULL, f_settle, "ythread_create" },
    { "pool_add_sched_dml", F_NOOUT | F_DML, p_stack_sched, c_pool_add_sched, NULL, f_settle, "ythread_create" },
    { "thread_create_ext", F_EXT | Q, NULL, c_thread_create, ABT_THREAD_NULL, f_thread, "ythread_create" },
    { "thread_create_userstack_ext", F_EXT, p_attr_userstack, c_thread_create_attr, ABT_THREAD_NULL, f_thread_attr, "ythread_create" },
    { "thread_create_cb_ext", F_EXT, p_attr_cb, c_thread_create_attr, ABT_THREAD_NULL, f_thread_attr, "ythread_create" },
    { "thread_create_userpool_ext", F_EXT, NULL, c_thread_create_userpool, ABT_THREAD_NULL, f_thread, "ythread_create" },
    { "task_create_ext", F_EXT, NULL, c_task_create, ABT_TASK_NULL, f_task, "task_create" },
    { "thread_set_specific_ext", F_NOOUT | F_EXT, NULL, c_thread_set_specific, NULL, f_specific, "ABTI_ktable_set" },
    { "thread_set_specific_kt8_ext", F_NOOUT | F_EXT | F_KT8, NULL, c_thread_set_specific, NULL, f_specific, "ABTI_ktable_set" },
    { "xstream_create_ext", F_EXT, NULL, c_xstream_create, ABT_XSTREAM_NULL, f_xstream, "xstream_create" },
    { "init", F_FRESH | F_NOOUT | Q, NULL, c_init, NULL, NULL, "init_library" },
    { "init_small", F_FRESH | F_NOOUT | F_SMALL, NULL, c_init, NULL, NULL, "init_library" },
    { "init_affinity", F_FRESH | F_NOOUT | F_AFF, NULL, c_init, NULL, NULL, "init_library" },
    { "init_malloclp", F_FRESH | F_NOOUT | F_MALLOCLP, NULL, c_init, NULL, NULL, "init_library" },
};
static const int n_scens = (int)(sizeof scens / sizeof scens[0]);

static void fresh_workload(void)
{
    ABT_xstream x;
    ABT_thread t;
    ABT_pool p;
    long before = ran;
    OK(ABT_xstream_self(&x));
    OK(ABT_xstream_get_main_pools(x, 1, &p));
    OK(ABT_thread_create(p, f_inc, NULL, ABT_THREAD_ATTR_NULL, &t));
    OK(ABT_thread_free(&t));
    if (ran != before + 1)
        problem("workload after ABT_init did not run");
}

static void run_fresh(void)
{
    phase("call");
    fi_trace_reset();
    fi_arm(K);
    r_rc = S->call();
    fi_disarm();
    r_N = fi_count();
    r_fired = fi_fired();
    fmt_events();
    if (trace_mode)
        fmt_trace();
    fmt_bt(sitebuf, sizeof sitebuf, fi_fail_bt());
    if (fi_bad_releases())
        problem("bad-release: %d release(s) of a resource that is not live", fi_bad_releases());
    if (r_rc != ABT_SUCCESS) {
        r_outcome = r_fired ? "error" : "error-uninjected";
        phase("check_failure");
        if (ABT_initialized() == ABT_SUCCESS)
            problem("state-changed: ABT_initialized() reports initialized after ABT_init failed with %d", r_rc);
        const fi_ent *l[64];
        int n = fi_live_in_window(l, 64);
        if (n) {
            size_t pos = 0;
            for (int i = 0; i < n && i < 64; i++) {
                char bt[400];
                fmt_bt(bt, sizeof bt, l[i]->bt);
                pos += (size_t)snprintf(leakbuf + pos, sizeof leakbuf - pos, "%s{\"kind\":\"%s\",\"op\":\"%s\",\"size\":%zu,\"bt\":[%s]}",
                                        i ? "," : "", fi_kindname(l[i]->kind), fi_opname(l[i]->op), l[i]->size, bt);
            }
            problem("leak: %d resource(s) acquired by the failed ABT_init are still allocated", n);
        }
        phase("retry");
        r_retry = S->call();
        if (r_retry != ABT_SUCCESS) {
            problem("retry-failed: ABT_init without the failure returned %d", r_retry);
            return;
        }
    } else {
        if (K == 0 || r_fired)
            r_outcome = r_fired ? "absorbed" : "success";
    }
    phase("use_result");
    fresh_workload();
    phase("finalize");
    OK(ABT_finalize());
}

int __real_pthread_create(pthread_t *, const pthread_attr_t *, void *(*)(void *), void *);
int __real_pthread_join(pthread_t, void **);
static int ext_done;
static void *ext_body(void *a)
{
    body(a);
    __atomic_store_n(&ext_done, 1, __ATOMIC_RELEASE);
    return NULL;
}

int main(int argc, char **argv)
{
    gen_scens();
    if (argc >= 2 && strcmp(argv[1], "list") == 0) {
        for (int i = 0; i < n_scens; i++)
            printf("%s %d %s\n", scens[i].name, scens[i].flags, scens[i].routine ? scens[i].routine : "-");
        for (int i = 0; i < n_dyn; i++)
            printf("%s %d %s\n", dyn[i].name, dyn[i].flags, dyn[i].routine ? dyn[i].routine : "-");
        return 0;
    }
    if (argc < 3) {
        fprintf(stderr, "usage: fi_scen <scenario>|list <k> [trace]\n");
        return 2;
    }
    for (int i = 0; i < n_scens; i++)
        if (strcmp(scens[i].name, argv[1]) == 0)
            S = &scens[i];
    for (int i = 0; i < n_dyn; i++)
        if (strcmp(dyn[i].name, argv[1]) == 0)
            S = &dyn[i];
    if (!S) {
        fprintf(stderr, "unknown scenario %s\n", argv[1]);
        return 2;
    }
    K = atoi(argv[2]);
    trace_mode = argc > 3 && strcmp(argv[3], "trace") == 0;
    signal(SIGALRM, on_alarm);
    alarm(60);
    unsetenv("ABT_SET_AFFINITY");
    if (S->flags & F_SMALL) {
        setenv("ABT_MEM_MAX_NUM_STACKS", "8", 1);
        setenv("ABT_MEM_MAX_NUM_DESCS", "8", 1);
        setenv("ABT_MEM_STACK_PAGE_SIZE", "131072", 1);
        setenv("ABT_MEM_PAGE_SIZE", "4096", 1);
    }
    if (S->flags & F_KT8)
        setenv("ABT_KEY_TABLE_SIZE", "8", 1);
    if (S->flags & F_AFF)
        setenv("ABT_SET_AFFINITY", "{0,1},{2:3:1},4,{5}:2:2,1:9", 1);
    if (S->flags & F_MALLOCLP)
        setenv("ABT_MEM_LP_ALLOC", "malloc", 1);
    long base = fi_live_total();
    if (S->flags & F_FRESH) {
        run_fresh();
    } else {
        phase("init");
        OK(ABT_init(0, NULL));
        world_build();
        if (S->flags & F_INULT) {
            ABT_thread t;
            if (S->flags & F_DRAIN) {
                /* the body ULT itself needs a stack + descriptor: create it first, then drain */
            }
            OK(ABT_thread_create(p_main, body, NULL, ABT_THREAD_ATTR_NULL, &t));
            OK(ABT_thread_free(&t));
        } else if (S->flags & F_EXT) {
            pthread_t th;
            __real_pthread_create(&th, NULL, ext_body, NULL);
            while (!__atomic_load_n(&ext_done, __ATOMIC_ACQUIRE))
                ABT_thread_yield(); /* keep the primary stream scheduling */
            __real_pthread_join(th, NULL);
        } else {
            body(NULL);
        }
        if (n_probs) {
            /* the run has already failed: report now.  Tearing down a runtime that the failed call damaged
             * (a stream that can no longer be freed, a scheduler stuck in the MAIN state) would only replace the
             * precise problems by an assertion failure of ABT_finalize */
            emit();
            _exit(0);
        }
        world_teardown();
        free_drained();
        undrain();
        phase("finalize");
        OK(ABT_finalize());
    }
    phase("final_check");
    final_check(base);
    emit();
    return 0;
}
