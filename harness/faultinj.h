/* C18 fault injection core: link-time interposition (-Wl,--wrap=SYM) of every
 * allocation / OS-resource primitive the library calls, with a ledger of live
 * resources and a "fail the k-th acquisition of the armed thread" switch. */
#ifndef FAULTINJ_H
#define FAULTINJ_H
#include <stddef.h>
#include <stdint.h>

enum { FI_MALLOC = 0, FI_CALLOC, FI_REALLOC, FI_MEMALIGN, FI_ALIGNED, FI_MMAP,
       FI_THREAD, FI_MUTEX, FI_COND, FI_BARRIER, FI_NOPS };
/* resource kinds */
enum { FK_HEAP = 0, FK_MAP, FK_THREAD, FK_MUTEX, FK_COND, FK_BARRIER, FK_N };

typedef struct fi_event {
    uint8_t acquire;  /* 1 acquire, 0 release */
    uint8_t op;       /* FI_* for acquire, FK_* for release */
    uint8_t failed;   /* 1 injected failure, 2 natural failure, 3 bad release, 4 second free of a block freed in the window */
    uint8_t depth;    /* instrumentation depth (if built with -finstrument-functions) */
    int idx;          /* acquisition index in the window (acquire only) */
    int rid;          /* resource id renamed by first-seen order in the window, -1 = pre-existing */
} fi_event;

#define FI_BT 16
typedef struct fi_ent {
    void *key;
    size_t size;
    uint8_t kind, op, used;
    uint32_t win; /* window id in which it was acquired (0 = outside any window) */
    int rid;
    void *bt[FI_BT];
} fi_ent;

void fi_arm(int k);            /* k = 0: count only */
void fi_disarm(void);
int fi_fired(void);            /* did the k-th acquisition happen (and fail)? */
int fi_count(void);            /* acquisitions seen in the last window */
int fi_nevents(void);
const fi_event *fi_events(void);
void *const *fi_fail_bt(void); /* return addresses at the injected failure */
const char *fi_opname(int op);
const char *fi_kindname(int k);
/* ledger queries */
long fi_live_total(void);                      /* live resources of the whole process */
int fi_live_in_window(const fi_ent **out, int max); /* acquired in last window, still live */
int fi_pre_released(void);                     /* pre-window resources released inside the window */
int fi_bad_releases(void);                     /* releases of unknown keys (whole process) */
int fi_double_frees(void);                     /* of those: second free of a block quarantined in the window */
int fi_live_list(const fi_ent **out, int max); /* all live entries */
uint32_t fi_window(void);
void fi_note(const char *s);                   /* async-safe breadcrumb on stderr */
/* call trace (only populated when the library is built with -finstrument-functions) */
int fi_trace_len(void);
void fi_trace_reset(void);
int fi_trace_get(int i, void **fn, int *enter, int *depth, int *evpos);
#endif
