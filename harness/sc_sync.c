/* vsched scenario family: synchronisation objects (mutex, cond, barrier, eventual, future, rwlock).
 * usage: sc_sync <seed> <mode> <log> <family> <nes> <nactors> <rounds> [ext%] [task%]
 * Programs are generated from vs_rand() (seeded), monitors are plain C counters: under vsched a
 * statement sequence without a hook point is atomic. */
#include "sc_common.h"
#include <sched.h>

static int rounds = 3;
static const char *family = "mutex";

/* ------------------------------------------------------------------ mutex */
#define NM 2
static ABT_mutex M[NM];
static int m_holder[NM], m_inwin[NM], m_rec[NM];
static long m_acq[NM];
static int cs_yield; /* holders may yield inside the critical section (then nobody may spin / no tasklets) */

static void relax(actor *a)
{
    if (a->kind == AK_ULT)
        ABT_thread_yield();
    else
        sched_yield();
}

#define MCALL(opname, m, expr)                                                 \
    ({                                                                         \
        vs_log("apiCall %s M%d", opname, m);                                   \
        int rc__ = (expr);                                                     \
        vs_note("apiRet %s M%d %d", opname, m, rc__ == ABT_SUCCESS ? 1 : 0);   \
        rc__;                                                                  \
    })

static void mutex_body(actor *a)
{
    for (int r = 0; r < rounds; r++) {
        int m = sc_rnd(NM);
        int how = sc_rnd(a->kind == AK_ULT ? 5 : 4);
        if (how == 2 && cs_yield)
            how = 0;
        m_inwin[m]++;
        switch (how) {
            case 0:
                ABT_OK(MCALL("lock", m, ABT_mutex_lock(M[m])));
                break;
            case 1:
                for (;;) {
                    int rc = MCALL("trylock", m, ABT_mutex_trylock(M[m]));
                    if (rc == ABT_SUCCESS)
                        break;
                    VSA_CHECK(rc == ABT_ERR_MUTEX_LOCKED, "trylock M%d returned %d", m, rc);
                    VSA_CHECK(m_inwin[m] >= 2, "trylock M%d failed although nobody holds or is acquiring/releasing it", m);
                    relax(a);
                }
                break;
            case 2:
                ABT_OK(MCALL("spinlock", m, ABT_mutex_spinlock(M[m])));
                break;
            case 3:
                ABT_OK(MCALL("lock", m, ABT_mutex_lock_high(M[m])));
                break;
            default:
                ABT_OK(MCALL("lock", m, ABT_mutex_lock_low(M[m])));
                break;
        }
        m_holder[m]++;
        m_acq[m]++;
        VSA_CHECK(m_holder[m] == 1, "mutual exclusion broken on M%d: %d holders", m, m_holder[m]);
        int depth = 0;
        if (m_rec[m]) {
            depth = sc_rnd(3);
            for (int d = 0; d < depth; d++) {
                if (sc_rnd(2))
                    ABT_OK(MCALL("lock", m, ABT_mutex_lock(M[m])));
                else
                    VSA_CHECK(MCALL("trylock", m, ABT_mutex_trylock(M[m])) == ABT_SUCCESS, "recursive trylock by owner failed on M%d", m);
            }
        } else if (sc_rnd(3) == 0) {
            /* a non-recursive mutex held by me: trylock must fail */
            VSA_CHECK(MCALL("trylock", m, ABT_mutex_trylock(M[m])) == ABT_ERR_MUTEX_LOCKED, "trylock succeeded on held M%d", m);
        }
        if (cs_yield && sc_rnd(2))
            relax(a);
        VSA_CHECK(m_holder[m] == 1, "mutual exclusion broken on M%d after yield: %d holders", m, m_holder[m]);
        for (int d = 0; d < depth; d++) {
            ABT_OK(MCALL("unlock", m, ABT_mutex_unlock(M[m])));
            VSA_CHECK(m_holder[m] == 1, "recursive unlock released M%d early", m);
        }
        m_holder[m]--;
        int ur = sc_rnd(3);
        if (ur == 0)
            ABT_OK(MCALL("unlock", m, ABT_mutex_unlock(M[m])));
        else if (ur == 1)
            ABT_OK(MCALL("unlock", m, ABT_mutex_unlock_se(M[m])));
        else
            ABT_OK(MCALL("unlock", m, ABT_mutex_unlock_de(M[m])));
        m_inwin[m]--;
        if (sc_rnd(2))
            relax(a);
    }
}

static ABT_mutex_memory Mmem = ABT_MUTEX_INITIALIZER;
static ABT_mutex_memory Mrecmem = ABT_RECURSIVE_MUTEX_INITIALIZER;
static int m_static[NM];

static void mutex_setup(void)
{
    int variant = sc_rnd(4); /* 0 both dynamic; 1 M1 static; 2 M0 recursive; 3 M0 recursive static + M1 static */
    for (int i = 0; i < NM; i++) {
        m_rec[i] = (i == 0 && variant >= 2);
        m_static[i] = (i == 1 && (variant == 1 || variant == 3)) || (i == 0 && variant == 3);
        if (m_static[i]) {
            M[i] = m_rec[i] ? ABT_MUTEX_MEMORY_GET_HANDLE(&Mrecmem) : ABT_MUTEX_MEMORY_GET_HANDLE(&Mmem);
        } else if (m_rec[i]) {
            ABT_mutex_attr at;
            ABT_OK(ABT_mutex_attr_create(&at));
            ABT_OK(ABT_mutex_attr_set_recursive(at, ABT_TRUE));
            ABT_OK(ABT_mutex_create_with_attr(at, &M[i]));
            ABT_OK(ABT_mutex_attr_free(&at));
        } else {
            ABT_OK(ABT_mutex_create(&M[i]));
        }
        vs_name(ABTI_mutex_get_ptr(M[i]), sizeof(ABTI_mutex), "M%d", i);
        vs_note("obj M%d recursive=%d static=%d", i, m_rec[i], m_static[i]);
    }
}
static void mutex_teardown(void)
{
    for (int i = 0; i < NM; i++) {
        VSA_CHECK(m_holder[i] == 0 && m_inwin[i] == 0, "M%d still held at the end", i);
        if (!m_static[i])
            ABT_OK(ABT_mutex_free(&M[i]));
    }
}

/* ------------------------------------------------------------------- main */
int main(int argc, char **argv)
{
    vsa_setup(argc, argv);
    if (vsa_argc > 0)
        family = vsa_argv[0];
    int nes = (int)vsa_param(1, 2), nact = (int)vsa_param(2, 3);
    rounds = (int)vsa_param(3, 3);
    int extpct = (int)vsa_param(4, 25), taskpct = (int)vsa_param(5, 10);
    if (nes > MAX_ES)
        nes = MAX_ES;
    if (nact > MAX_ACTORS)
        nact = MAX_ACTORS;
    ABT_init(0, NULL);
    vsa_begin();
    vs_note("scenario sync family=%s nes=%d nact=%d rounds=%d", family, nes, nact, rounds);
    sc_streams(nes, ABT_SCHED_BASIC);
    void (*body)(actor *) = NULL;
    void (*teardown)(void) = NULL;
    int allow_task = 1;
    if (!strcmp(family, "mutex")) {
        cs_yield = sc_rnd(2);
        allow_task = !cs_yield;
        mutex_setup();
        body = mutex_body;
        teardown = mutex_teardown;
    } else {
        fprintf(stderr, "unknown family %s\n", family);
        return 2;
    }
    sc_nactors = nact;
    for (int i = 0; i < nact; i++) {
        int k = sc_rnd(100);
        sc_actors[i].kind = k < extpct ? AK_EXT : (allow_task && k < extpct + taskpct ? AK_TASK : AK_ULT);
        sc_actors[i].es = sc_rnd(nes);
        sc_actors[i].body = body;
        vs_note("actor A%d kind=%s es=%d", i, AKN[sc_actors[i].kind], sc_actors[i].es);
    }
    sc_launch();
    sc_join_all();
    teardown();
    sc_stop_streams();
    ABT_finalize();
    int rc = vsa_end();
    if (rc)
        fprintf(stderr, "MONITOR: %s\n", vs_first_failure());
    return rc;
}
