/* vsched scenario family: synchronisation objects (mutex, cond, barrier, eventual, future, rwlock).
 * usage: sc_sync <seed> <mode> <log> <family> <nes> <nactors> <rounds> [ext%] [task%] [shared pool 0|1]
 * Programs are generated from vs_rand() (seeded), monitors are plain C counters: under vsched a
 * statement sequence without a hook point is atomic. */
#include "sc_common.h"
#include <sched.h>

static int rounds = 3;
static const char *family = "mutex";

/* ------------------------------------------------------------------ mutex */
#define NM 2
static ABT_mutex M[NM];
static int m_holder[NM], m_inwin[NM], m_rec[NM];
static long m_acq[NM];
static int cs_yield; /* holders may yield inside the critical section (then nobody may spin / no tasklets) */

static void relax(actor *a)
{
    if (a->kind == AK_ULT)
        ABT_thread_yield();
    else
        sched_yield();
}

#define MCALL(opname, m, expr)                                                 \
    ({                                                                         \
        vs_log("apiCall %s M%d", opname, m);                                   \
        int rc__ = (expr);                                                     \
        vs_note("apiRet %s M%d %d", opname, m, rc__ == ABT_SUCCESS ? 1 : 0);   \
        rc__;                                                                  \
    })

static void mutex_body(actor *a)
{
    for (int r = 0; r < rounds; r++) {
        int m = sc_rnd(NM);
        int how = sc_rnd(a->kind == AK_ULT ? 5 : 4);
        if (how == 2 && cs_yield)
            how = 0;
        m_inwin[m]++;
        switch (how) {
            case 0:
                ABT_OK(MCALL("lock", m, ABT_mutex_lock(M[m])));
                break;
            case 1:
                for (;;) {
                    int rc = MCALL("trylock", m, ABT_mutex_trylock(M[m]));
                    if (rc == ABT_SUCCESS)
                        break;
                    VSA_CHECK(rc == ABT_ERR_MUTEX_LOCKED, "trylock M%d returned %d", m, rc);
                    VSA_CHECK(m_inwin[m] >= 2, "trylock M%d failed although nobody holds or is acquiring/releasing it", m);
                    relax(a);
                }
                break;
            case 2:
                ABT_OK(MCALL("spinlock", m, ABT_mutex_spinlock(M[m])));
                break;
            case 3:
                ABT_OK(MCALL("lock", m, ABT_mutex_lock_high(M[m])));
                break;
            default:
                ABT_OK(MCALL("lock", m, ABT_mutex_lock_low(M[m])));
                break;
        }
        m_holder[m]++;
        m_acq[m]++;
        VSA_CHECK(m_holder[m] == 1, "mutual exclusion broken on M%d: %d holders", m, m_holder[m]);
        int depth = 0;
        if (m_rec[m]) {
            depth = sc_rnd(3);
            for (int d = 0; d < depth; d++) {
                if (sc_rnd(2))
                    ABT_OK(MCALL("lock", m, ABT_mutex_lock(M[m])));
                else
                    VSA_CHECK(MCALL("trylock", m, ABT_mutex_trylock(M[m])) == ABT_SUCCESS, "recursive trylock by owner failed on M%d", m);
            }
        } else if (sc_rnd(3) == 0) {
            /* a non-recursive mutex held by me: trylock must fail */
            VSA_CHECK(MCALL("trylock", m, ABT_mutex_trylock(M[m])) == ABT_ERR_MUTEX_LOCKED, "trylock succeeded on held M%d", m);
        }
        if (cs_yield && sc_rnd(2))
            relax(a);
        VSA_CHECK(m_holder[m] == 1, "mutual exclusion broken on M%d after yield: %d holders", m, m_holder[m]);
        for (int d = 0; d < depth; d++) {
            ABT_OK(MCALL("unlock", m, ABT_mutex_unlock(M[m])));
            VSA_CHECK(m_holder[m] == 1, "recursive unlock released M%d early", m);
        }
        m_holder[m]--;
        int ur = sc_rnd(3);
        if (ur == 0)
            ABT_OK(MCALL("unlock", m, ABT_mutex_unlock(M[m])));
        else if (ur == 1)
            ABT_OK(MCALL("unlock", m, ABT_mutex_unlock_se(M[m])));
        else
            ABT_OK(MCALL("unlock", m, ABT_mutex_unlock_de(M[m])));
        m_inwin[m]--;
        if (sc_rnd(2))
            relax(a);
    }
}

static ABT_mutex_memory Mmem = ABT_MUTEX_INITIALIZER;
static ABT_mutex_memory Mrecmem = ABT_RECURSIVE_MUTEX_INITIALIZER;
static int m_static[NM];

static void mutex_setup(void)
{
    int variant = sc_rnd(4); /* 0 both dynamic; 1 M1 static; 2 M0 recursive; 3 M0 recursive static + M1 static */
    for (int i = 0; i < NM; i++) {
        m_rec[i] = (i == 0 && variant >= 2);
        m_static[i] = (i == 1 && (variant == 1 || variant == 3)) || (i == 0 && variant == 3);
        if (m_static[i]) {
            M[i] = m_rec[i] ? ABT_MUTEX_MEMORY_GET_HANDLE(&Mrecmem) : ABT_MUTEX_MEMORY_GET_HANDLE(&Mmem);
        } else if (m_rec[i]) {
            ABT_mutex_attr at;
            ABT_OK(ABT_mutex_attr_create(&at));
            ABT_OK(ABT_mutex_attr_set_recursive(at, ABT_TRUE));
            ABT_OK(ABT_mutex_create_with_attr(at, &M[i]));
            ABT_OK(ABT_mutex_attr_free(&at));
        } else {
            ABT_OK(ABT_mutex_create(&M[i]));
        }
        vs_name(ABTI_mutex_get_ptr(M[i]), sizeof(ABTI_mutex), "M%d", i);
        vs_note("obj M%d recursive=%d static=%d", i, m_rec[i], m_static[i]);
    }
}
static void mutex_teardown(void)
{
    for (int i = 0; i < NM; i++) {
        VSA_CHECK(m_holder[i] == 0 && m_inwin[i] == 0, "M%d still held at the end", i);
        if (!m_static[i])
            ABT_OK(ABT_mutex_free(&M[i]));
    }
}

/* ------------------------------------------------------------------- cond */
static ABT_cond C0;
static ABT_mutex CM0, CM1;
static int c_tokens, c_holder, c_sigseq, c_sigdone, c_quota[MAX_ACTORS], c_role[MAX_ACTORS]; /* role 0 consumer 1 producer */
static int c_to_produce, c_timeouts, c_okwaits, c_bound;
/* family condq ("long queues"): producers hold a token back until several consumers are inside a wait, timed waits
 * use staggered deadlines so that the head, middle nodes and the tail of a long wait-list time out while signals and
 * further enqueues (timed and untimed, ULT and external) are interleaved */
static int c_many, c_nwait, c_nconsumers_left, c_maxwait, c_recursive;
/* lost-signal accounting: "sure" waiters are inside an untimed wait or a timed wait whose deadline is out of reach; a
 * signal issued by the holder of CM0 while such a waiter is not yet promised a wake-up must wake one (broadcast: all) */
static int c_nsure, c_required, c_succ_sure;
static int c_sure_kind[MAX_ACTORS]; /* 0 not waiting, 1 inside an untimed wait, 2 inside a timed wait with deadline c_dl */
static double c_dl[MAX_ACTORS];
static unsigned c_sure_set(void)
{
    /* waiters that are certainly still queued: untimed ones, and timed ones whose deadline the virtual clock has not
     * reached (the controlled scheduler may let any pending timeout fire early by jumping the clock to its deadline) */
    unsigned m = 0;
    double now = vs_now();
    for (int a = 0; a < MAX_ACTORS; a++)
        if (c_sure_kind[a] == 1 || (c_sure_kind[a] == 2 && now < c_dl[a]))
            m |= 1u << a;
    return m;
}
static unsigned c_sig_before;
static void c_note_signal_under_mutex_begin(void) { c_sig_before = c_sure_set(); }
static void c_note_signal_under_mutex_end(int broadcast)
{
    /* present before the call and not expired after it: present during the whole call */
    unsigned m = c_sig_before & c_sure_set();
    int n = __builtin_popcount(m);
    int outstanding = c_required - c_succ_sure;
    if (outstanding < 0)
        outstanding = 0;
    int avail = n - outstanding;
    if (avail > 0)
        c_required += broadcast ? avail : 1;
}

#define CCALL(opname, extra, expr)                                             \
    ({                                                                         \
        vs_log("apiCall %s C0 %s", opname, extra);                             \
        int rc__ = (expr);                                                     \
        vs_note("apiRet %s C0 %d", opname, rc__);                              \
        rc__;                                                                  \
    })

static void cm_lock(ABT_mutex m, int id)
{
    vs_log("apiCall lock CM%d", id);
    ABT_OK(ABT_mutex_lock(m));
    vs_note("apiRet lock CM%d 1", id);
}
static void cm_unlock(ABT_mutex m, int id)
{
    vs_log("apiCall unlock CM%d", id);
    ABT_OK(ABT_mutex_unlock(m));
    vs_note("apiRet unlock CM%d 1", id);
}

static int c_nprod, c_timed_in, c_free_refused;
static void c_try_refused_free(void)
{
    /* Argobots 1.x: ABT_cond_free on a condition variable that has waiters is refused (ABT_ERR_COND) and must leave the
     * object as it was.  Called by the only producer (nobody else dequeues an untimed waiter): if more waiters are
     * queued than timed waits are in flight, an untimed one is queued and stays so */
    ABTI_cond *p_cond = ABTI_cond_get_ptr(C0);
    int queued = 0;
    /* (plain read of the lock byte, no hook point: somebody inside the cond's critical section — e.g. a timed-out waiter
     * unlinking itself — may have the list half updated; with the lock free the list is consistent, and nothing runs
     * between this test and the walk) */
    if (*(volatile uint8_t *)&p_cond->lock.val.val)
        return;
    for (ABTI_thread *p = p_cond->waitlist.p_head; p && queued < 1000; p = p->p_next)
        queued++;
    if (c_nprod != 1 || queued <= c_timed_in)
        return;
    ABT_cond copy = C0;
    int rc = ABT_cond_free(&copy);
    vs_note("condFreeRefused C0 %d queued=%d", rc, queued);
    VSA_CHECK(rc == ABT_ERR_COND && copy == C0, "ABT_cond_free with %d queued waiter(s) returned %d (handle %s)", queued, rc,
              copy == C0 ? "kept" : "cleared");
    c_free_refused++;
}

static void cond_body(actor *a)
{
    if (c_role[a->id] == 1) {
        /* producer: change the predicate under the mutex, then signal or broadcast */
        for (int r = 0; r < c_quota[a->id]; r++) {
            if (c_many) {
                int want = 2 + sc_rnd(5), patience = 60 + sc_rnd(240);
                if (want > c_nconsumers_left)
                    want = c_nconsumers_left;
                while (c_nwait < want && patience-- > 0)
                    relax(a);
                for (int k = sc_rnd(4); k > 0; k--) /* let deadlines pass while the queue is long */
                    relax(a);
            }
            cm_lock(CM0, 0);
            VSA_CHECK(++c_holder == 1, "cond: mutex CM0 held by %d", c_holder);
            c_tokens++;
            c_holder--;
            if (sc_rnd(3) == 0)
                c_try_refused_free();
            if (sc_rnd(2)) { /* signal while holding the mutex ... */
                if (sc_rnd(3))
                    { c_note_signal_under_mutex_begin(); ABT_OK(CCALL("signal", "", (c_sigseq++, ABT_cond_signal(C0)))); c_sigdone++; c_note_signal_under_mutex_end(0); }
                else
                    { c_note_signal_under_mutex_begin(); ABT_OK(CCALL("broadcast", "", (c_sigseq++, ABT_cond_broadcast(C0)))); c_sigdone++; c_note_signal_under_mutex_end(1); }
                cm_unlock(CM0, 0);
            } else { /* ... or after releasing it */
                cm_unlock(CM0, 0);
                if (sc_rnd(3))
                    { ABT_OK(CCALL("signal", "", (c_sigseq++, ABT_cond_signal(C0)))); c_sigdone++; }
                else
                    { ABT_OK(CCALL("broadcast", "", (c_sigseq++, ABT_cond_broadcast(C0)))); c_sigdone++; }
            }
            if (sc_rnd(2))
                relax(a);
        }
        return;
    }
    /* consumer */
    if (c_bound && sc_rnd(4) == 0 && a->kind != AK_TASK) {
        /* the condition variable is bound to CM0: waiting with CM1 must be rejected */
        cm_lock(CM1, 1);
        int rc = CCALL("wait", "CM1", ABT_cond_wait(C0, CM1));
        VSA_CHECK(rc == ABT_ERR_INV_MUTEX, "cond wait with a wrong mutex returned %d", rc);
        cm_unlock(CM1, 1);
    }
    for (int r = 0; r < c_quota[a->id]; r++) {
        cm_lock(CM0, 0);
        VSA_CHECK(++c_holder == 1, "cond: mutex CM0 held by %d", c_holder);
        while (c_tokens == 0) {
            int seq = c_sigdone; /* signals completed before this wait starts cannot be the ones that wake it */
            c_holder--;
            int timed = sc_rnd(2);
            int rc;
            if (++c_nwait > c_maxwait)
                c_maxwait = c_nwait;
            int sure = 0;
            if (!timed) {
                sure = 1;
                c_nsure++;
                c_sure_kind[a->id] = 1;
                rc = CCALL("wait", "CM0", ABT_cond_wait(C0, CM0));
                VSA_CHECK(rc == ABT_SUCCESS, "cond wait returned %d", rc);
            } else {
                struct timespec ts;
                clock_gettime(CLOCK_REALTIME, &ts);
                long add = (long[]){ -1000, 0, 20000, 300000, 5000000 }[sc_rnd(5)]; /* ns: past, now, near, far */
                if (c_many) /* staggered: a few clock reads apart, so that any position of the queue can expire first */
                    add = (long[]){ 4000, 9000, 15000, 25000, 40000, 80000, 200000, 3000000 }[sc_rnd(8)];
                ts.tv_nsec += add;
                if (!c_many && sc_rnd(4) == 0) {
                    /* out of reach: only a jump of the virtual clock (nobody else can run) gets there */
                    ts.tv_sec += 1000;
                    sure = 1;
                    c_nsure++;
                }
                while (ts.tv_nsec < 0)
                    ts.tv_nsec += 1000000000L, ts.tv_sec--;
                while (ts.tv_nsec >= 1000000000L)
                    ts.tv_nsec -= 1000000000L, ts.tv_sec++;
                double dl = (double)ts.tv_sec + 1.0e-9 * (double)ts.tv_nsec;
                if (sure) {
                    c_dl[a->id] = dl;
                    c_sure_kind[a->id] = 2;
                }
                char extra[64];
                snprintf(extra, sizeof extra, "CM0 %.17g", dl);
                c_timed_in++;
                rc = CCALL("timedwait", extra, ABT_cond_timedwait(C0, CM0, &ts));
                c_timed_in--;
                VSA_CHECK(rc == ABT_SUCCESS || rc == ABT_ERR_COND_TIMEDOUT, "cond timedwait returned %d", rc);
                if (rc == ABT_ERR_COND_TIMEDOUT) {
                    c_timeouts++;
                    VSA_CHECK(vs_now() >= dl, "timedwait reported a timeout %.9f s before its deadline", dl - vs_now());
                }
            }
            VSA_CHECK(++c_holder == 1, "cond: wait returned without exclusive ownership of the mutex (%d holders)", c_holder);
            if (c_recursive) {
                int rt = ABT_mutex_trylock(CM0);
                VSA_CHECK(rt == ABT_SUCCESS, "cond: the wait returned but a nested lock of the recursive mutex by the same caller fails (%d): the caller does not own it", rt);
                if (rt == ABT_SUCCESS)
                    ABT_OK(ABT_mutex_unlock(CM0));
            }
            c_nwait--;
            if (sure) {
                c_nsure--;
                c_sure_kind[a->id] = 0;
                if (rc == ABT_SUCCESS)
                    c_succ_sure++;
            }
            if (rc == ABT_SUCCESS) {
                c_okwaits++;
                VSA_CHECK(c_sigseq > seq, "cond: wait returned SUCCESS although every signal/broadcast issued so far had completed before it started (spurious wake-up)");
            }
        }
        c_tokens--;
        c_holder--;
        if (r == c_quota[a->id] - 1)
            c_nconsumers_left--;
        cm_unlock(CM0, 0);
        if (sc_rnd(2))
            relax(a);
    }
}

static void cond_setup(int nact)
{
    ABT_OK(ABT_cond_create(&C0));
    c_recursive = sc_rnd(3) == 0;
    if (c_recursive) {
        /* a recursive mutex: the waiter must own it again when the wait returns (a nested lock succeeds) */
        ABT_mutex_attr ma;
        ABT_OK(ABT_mutex_attr_create(&ma));
        ABT_OK(ABT_mutex_attr_set_recursive(ma, ABT_TRUE));
        ABT_OK(ABT_mutex_create_with_attr(ma, &CM0));
        ABT_OK(ABT_mutex_attr_free(&ma));
    } else {
        ABT_OK(ABT_mutex_create(&CM0));
    }
    ABT_OK(ABT_mutex_create(&CM1));
    vs_name_ex(ABTI_cond_get_ptr(C0), sizeof(ABTI_cond), VS_SNAP, "C0");
    vsa_watch_waitlist(ABTI_cond_get_ptr(C0), &ABTI_cond_get_ptr(C0)->waitlist);
    vs_name(ABTI_mutex_get_ptr(CM0), sizeof(ABTI_mutex), "CM0");
    vs_name(ABTI_mutex_get_ptr(CM1), sizeof(ABTI_mutex), "CM1");
    /* roles: at least one producer and one consumer; tokens produced == tokens consumed */
    int total = 0, nprod = 0;
    for (int i = 0; i < nact; i++) {
        c_role[i] = (i == 0) ? 1 : (i == 1 ? 0 : sc_rnd(c_many ? 6 : 3) == 0);
        if (c_role[i] == 0) {
            c_nconsumers_left++;
            c_quota[i] = 1 + sc_rnd(rounds);
            total += c_quota[i];
        } else
            nprod++;
    }
    for (int i = 0; i < nact; i++)
        if (c_role[i] == 1)
            c_quota[i] = 0;
    for (int t = 0; t < total; t++) {
        int k = sc_rnd(nprod), j = 0;
        for (int i = 0; i < nact; i++)
            if (c_role[i] == 1 && j++ == k)
                c_quota[i]++;
    }
    c_to_produce = total;
    c_nprod = nprod;
    /* bind the condition variable to CM0 (the first waiter's mutex is remembered for ever): a timed wait
     * whose deadline has passed */
    struct timespec ts;
    clock_gettime(CLOCK_REALTIME, &ts);
    ts.tv_sec -= 1;
    char extra[64];
    snprintf(extra, sizeof extra, "CM0 %.17g", (double)ts.tv_sec + 1.0e-9 * (double)ts.tv_nsec);
    cm_lock(CM0, 0);
    int rc = CCALL("timedwait", extra, ABT_cond_timedwait(C0, CM0, &ts));
    VSA_CHECK(rc == ABT_ERR_COND_TIMEDOUT, "binding timedwait returned %d", rc);
    cm_unlock(CM0, 0);
    c_bound = 1;
}
static void cond_teardown(void)
{
    VSA_CHECK(c_tokens == 0 && c_holder == 0, "cond: %d tokens left, holder=%d", c_tokens, c_holder);
    VSA_CHECK(c_nwait == 0, "cond: %d consumers still counted inside a wait", c_nwait);
    VSA_CHECK(c_succ_sure >= c_required,
              "cond: %d signal(s)/broadcast wake-ups were owed to waiters that had released the mutex inside their wait, only %d "
              "such waiters were woken (lost signal)", c_required, c_succ_sure);
    vs_note("cond stats okwaits=%d timeouts=%d maxwaiting=%d refusedfree=%d", c_okwaits, c_timeouts, c_maxwait, c_free_refused);
    vs_unname(ABTI_cond_get_ptr(C0));
    ABT_OK(ABT_cond_free(&C0));
    ABT_OK(ABT_mutex_free(&CM0));
    ABT_OK(ABT_mutex_free(&CM1));
}

/* ------------------------------------------------------------------- main */
int main(int argc, char **argv)
{
    vsa_setup(argc, argv);
    if (vsa_argc > 0)
        family = vsa_argv[0];
    int nes = (int)vsa_param(1, 2), nact = (int)vsa_param(2, 3);
    rounds = (int)vsa_param(3, 3);
    int extpct = (int)vsa_param(4, 25), taskpct = (int)vsa_param(5, 10);
    sc_shared = (int)vsa_param(6, 0);
    if (nes > MAX_ES)
        nes = MAX_ES;
    if (nact > MAX_ACTORS)
        nact = MAX_ACTORS;
    if (!strcmp(family, "condq")) /* long queues, many polls: idle streams eat most of the default step budget under PCT */
        setenv("VS_BUDGET", "15000000", 0);
    ABT_init(0, NULL);
    vsa_begin();
    vs_note("scenario sync family=%s nes=%d nact=%d rounds=%d", family, nes, nact, rounds);
    sc_streams(nes, ABT_SCHED_BASIC);
    void (*body)(actor *) = NULL;
    void (*teardown)(void) = NULL;
    int allow_task = 1;
    if (!strcmp(family, "mutex")) {
        cs_yield = sc_rnd(2);
        allow_task = !cs_yield;
        mutex_setup();
        body = mutex_body;
        teardown = mutex_teardown;
    } else if (!strcmp(family, "cond") || !strcmp(family, "condq")) {
        c_many = !strcmp(family, "condq");
        if (nact < 2)
            nact = 2;
        cond_setup(nact);
        body = cond_body;
        teardown = cond_teardown;
        allow_task = 0;
    } else {
        fprintf(stderr, "unknown family %s\n", family);
        return 2;
    }
    sc_nactors = nact;
    for (int i = 0; i < nact; i++) {
        int k = sc_rnd(100);
        sc_actors[i].kind = k < extpct ? AK_EXT : (allow_task && k < extpct + taskpct ? AK_TASK : AK_ULT);
        sc_actors[i].es = sc_rnd(nes);
        sc_actors[i].body = body;
        vs_note("actor A%d kind=%s es=%d", i, AKN[sc_actors[i].kind], sc_actors[i].es);
    }
    sc_launch();
    sc_join_all();
    teardown();
    sc_stop_streams();
    ABT_finalize();
    int rc = vsa_end();
    if (rc)
        fprintf(stderr, "MONITOR: %s\n", vs_first_failure());
    return rc;
}
