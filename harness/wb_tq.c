/* White-box differential driver for thread_queue_t (C07).
 * NQ queues over NU fake ABTI_thread structs (unit id = array index + 1, 0 = NULL).
 * Line protocol identical to `driver tq`; after every mutating operation the ring is dumped by
 * walking the real p_next / p_prev pointers.
 *
 * The contract the queue code assumes silently (model: `none`) is enforced here by shadow
 * bookkeeping, so that the real functions are never called outside it:
 *   push of NULL or of a unit whose is_in_pool flag is set            -> "undefined"
 *   remove, on a non-empty queue, of NULL or of a unit whose flag is 1
 *   but which the shadow says is not in *this* queue                  -> "undefined" */
#include "abti.h"
#include "pool/thread_queue.h"
#include <stdio.h>
#include <string.h>

#define NQ 4
#define NU 16

static thread_queue_t queues[NQ];
static ABTI_thread units[NU];
static int where[NU + 1]; /* shadow: queue index, -1 = in no queue, -2 = orphaned by a re-init */
static int cur = 0;

static long id_of(const ABTI_thread *p)
{
    if (!p)
        return 0;
    if (p >= units && p < units + NU && ((const char *)p - (const char *)units) % sizeof(ABTI_thread) == 0)
        return (long)(p - units) + 1;
    return -1;
}

static void print_id(long id)
{
    if (id < 0)
        printf(" ?");
    else
        printf(" %ld", id);
}

static void dump(int touched)
{
    thread_queue_t *q = &queues[cur];
    size_t n = q->num_threads, i;
    const ABTI_thread *p;
    printf(" | f:");
    for (p = q->p_head, i = 0; i < n && i < 64; i++) {
        long id = id_of(p);
        print_id(id);
        if (id < 0)
            break;
        p = p ? p->p_next : NULL;
    }
    printf(" | b:");
    for (p = q->p_tail, i = 0; i < n && i < 64; i++) {
        long id = id_of(p);
        print_id(id);
        if (id < 0)
            break;
        p = p ? p->p_prev : NULL;
    }
    printf(" | n=%zu e=%d h=%ld t=%ld", n, ABTD_atomic_relaxed_load_int(&q->is_empty), id_of(q->p_head),
           id_of(q->p_tail));
    if (touched > 0) {
        ABTI_thread *u = &units[touched - 1];
        printf(" | u%d: p=%ld n=%ld in=%d", touched, id_of(u->p_prev), id_of(u->p_next),
               ABTD_atomic_relaxed_load_int(&u->is_in_pool));
    }
    printf("\n");
}

static int push_allowed(long u)
{
    return u >= 1 && u <= NU && ABTD_atomic_relaxed_load_int(&units[u - 1].is_in_pool) == 0;
}

int main(void)
{
    char line[256], extra;
    long a;
    int i;
    setvbuf(stdout, NULL, _IOLBF, 0);
    memset(queues, 0, sizeof queues);
    for (i = 0; i < NU; i++) {
        memset(&units[i], 0, sizeof units[i]);
        ABTI_unit_init_builtin(&units[i]);
        where[i + 1] = -1;
    }
    while (fgets(line, sizeof line, stdin)) {
        thread_queue_t *q = &queues[cur];
        if (sscanf(line, "sel %ld %c", &a, &extra) == 1) {
            if (a >= 0 && a < NQ) {
                cur = (int)a;
                printf("ok\n");
            } else
                printf("bad-op\n");
        } else if (strcmp(line, "init\n") == 0) {
            for (i = 1; i <= NU; i++)
                if (where[i] == cur)
                    where[i] = -2;
            thread_queue_init(q);
            printf("init");
            dump(0);
        } else if (sscanf(line, "push_head %ld %c", &a, &extra) == 1 || sscanf(line, "push_tail %ld %c", &a, &extra) == 1) {
            if (a < 0 || a > NU) {
                printf("bad-op\n");
            } else if (!push_allowed(a)) {
                printf("undefined\n");
            } else {
                if (line[5] == 'h')
                    thread_queue_push_head(q, &units[a - 1]);
                else
                    thread_queue_push_tail(q, &units[a - 1]);
                where[a] = cur;
                printf("push ok");
                dump((int)a);
            }
        } else if (strcmp(line, "pop_head\n") == 0 || strcmp(line, "pop_tail\n") == 0) {
            ABTI_thread *p = line[4] == 'h' ? thread_queue_pop_head(q) : thread_queue_pop_tail(q);
            long id = id_of(p);
            if (id > 0)
                where[id] = -1;
            if (id == 0)
                printf("pop null");
            else if (id < 0)
                printf("pop ?");
            else
                printf("pop %ld", id);
            dump(id > 0 ? (int)id : 0);
        } else if (sscanf(line, "remove %ld %c", &a, &extra) == 1) {
            if (a < 0 || a > NU) {
                printf("bad-op\n");
            } else if (q->num_threads != 0 &&
                       (a == 0 || (ABTD_atomic_relaxed_load_int(&units[a - 1].is_in_pool) == 1 && where[a] != cur))) {
                printf("undefined\n");
            } else {
                /* with num_threads == 0 the unit pointer is not dereferenced; NULL is passed as is */
                int rc = thread_queue_remove(q, a == 0 ? NULL : &units[a - 1]);
                if (rc == ABT_SUCCESS) {
                    where[a] = -1;
                    printf("remove ok");
                } else if (rc == ABT_ERR_POOL)
                    printf("remove err_pool");
                else
                    printf("remove err %d", rc);
                dump((int)a);
            }
        } else if (strcmp(line, "size\n") == 0) {
            printf("size %zu\n", thread_queue_get_size(q));
        } else if (strcmp(line, "is_empty\n") == 0) {
            printf("empty %d\n", thread_queue_is_empty(q) == ABT_TRUE ? 1 : 0);
        } else if (line[0] != '\n') {
            printf("bad-op\n");
        }
    }
    return 0;
}
