/* Shared plumbing for vsched scenario programs: streams, pools, actors of three kinds. */
#ifndef SC_COMMON_H
#define SC_COMMON_H
#include "vs_abt.h"
#include <stdlib.h>
#include <string.h>

#define MAX_ES 6
#define MAX_ACTORS 16

enum { AK_ULT = 0, AK_TASK = 1, AK_EXT = 2 };
static const char *AKN[] = { "ult", "task", "ext" };

typedef struct actor {
    int id, kind, es;
    void (*body)(struct actor *);
    ABT_thread th;
    pthread_t pt;
    volatile int started, finished;
    void *user;
    int migrates; /* has asked to be migrated: it does not stay in the pool it was created in */
} actor;

static int sc_nes = 1;
static ABT_xstream sc_xs[MAX_ES];
static ABT_pool sc_pool[MAX_ES];
static actor sc_actors[MAX_ACTORS];
static int sc_nactors;
static int sc_shared;        /* asked for: the secondary streams also serve one common pool (needs >= 2 of them) */
static ABT_pool sc_shpool = ABT_POOL_NULL;

static inline int sc_rnd(int n) { return (int)(vs_rand() % (uint64_t)n); }

/* stream 0 is the primary; others get one private-to-them FIFO MPMC pool each */
static void sc_streams(int nes, ABT_sched_predef sched)
{
    sc_nes = nes;
    ABT_OK(ABT_xstream_self(&sc_xs[0]));
    ABT_OK(ABT_xstream_get_main_pools(sc_xs[0], 1, &sc_pool[0]));
    vsa_name_xstream(sc_xs[0], "X0");
    vsa_name_pool(sc_pool[0], "P0");
    {
        /* the primary ULT takes part in some scenarios (set-up calls): it is actor A99 */
        ABT_thread self;
        ABT_OK(ABT_thread_self(&self));
        vsa_name_thread(self, "A99");
        vs_note("actor A99 kind=ult es=0");
    }
    if (sc_shared && nes >= 3) {
        /* work units of this pool block on one stream and come back on another */
        ABT_OK(ABT_pool_create_basic(ABT_POOL_FIFO, ABT_POOL_ACCESS_MPMC, ABT_TRUE, &sc_shpool));
        vsa_name_pool(sc_shpool, "P%d", nes);
    }
    for (int i = 1; i < nes; i++) {
        ABT_OK(ABT_pool_create_basic(ABT_POOL_FIFO, ABT_POOL_ACCESS_MPMC, ABT_TRUE, &sc_pool[i]));
        vsa_name_pool(sc_pool[i], "P%d", i);
        ABT_pool two[2] = { sc_pool[i], sc_shpool };
        ABT_OK(ABT_xstream_create_basic(sched, sc_shpool != ABT_POOL_NULL ? 2 : 1, two, ABT_SCHED_CONFIG_NULL, &sc_xs[i]));
        vsa_name_xstream(sc_xs[i], "X%d", i);
    }
}

static void sc_actor_entry(void *p)
{
    actor *a = (actor *)p;
    a->started++;
    vs_note("userStart A%d", a->id);
    a->body(a);
    vs_note("userEnd A%d", a->id);
    a->finished++;
}
static void *sc_actor_entry_pt(void *p)
{
    sc_actor_entry(p);
    return NULL;
}

static void sc_launch(void)
{
    for (int i = 0; i < sc_nactors; i++) {
        actor *a = &sc_actors[i];
        a->id = i;
        ABT_pool pl = sc_pool[a->es];
        if (sc_shpool != ABT_POOL_NULL && a->kind != AK_EXT && a->es >= 1 && sc_rnd(2))
            pl = sc_shpool;
        if (a->kind == AK_ULT) {
            ABT_OK(ABT_thread_create(pl, sc_actor_entry, a, ABT_THREAD_ATTR_NULL, &a->th));
            vsa_name_thread(a->th, "A%d", i);
        } else if (a->kind == AK_TASK) {
            ABT_OK(ABT_task_create(pl, sc_actor_entry, a, (ABT_task *)&a->th));
            vsa_name_thread(a->th, "A%d", i);
        } else {
            pthread_create(&a->pt, NULL, sc_actor_entry_pt, a);
        }
    }
}

static void sc_join_all(void)
{
    /* work units first: joining them keeps this execution stream scheduling; a pthread_join
     * would block the stream (and every ULT on it) */
    for (int i = 0; i < sc_nactors; i++) {
        actor *a = &sc_actors[i];
        if (a->kind == AK_EXT)
            continue;
        vs_log("apiCall join A%d", i);
        ABT_OK(ABT_thread_join(a->th));
        vs_note("apiRet join A%d", i);
        VSA_CHECK(a->finished == 1, "join of A%d returned but finished=%d", i, a->finished);
        vs_unname(ABTI_thread_get_ptr(a->th));
        ABT_OK(ABT_thread_free(&a->th));
    }
    for (int i = 0; i < sc_nactors; i++) {
        actor *a = &sc_actors[i];
        if (a->kind == AK_EXT)
            pthread_join(a->pt, NULL);
        VSA_CHECK(a->started == 1 && a->finished == 1, "actor A%d started=%d finished=%d", i, a->started, a->finished);
    }
}

static void sc_stop_streams(void)
{
    for (int i = 1; i < sc_nes; i++) {
        ABT_OK(ABT_xstream_join(sc_xs[i]));
        ABT_OK(ABT_xstream_free(&sc_xs[i]));
    }
}

#endif
