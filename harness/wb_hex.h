/* shared by the C20 parser harnesses: hex field -> exact-size heap C string
 * (so that ASan sees any read behind the terminating NUL). "-" = empty string. */
#ifndef WB_HEX_H
#define WB_HEX_H
#include <stdlib.h>
#include <string.h>
static int wb_hexval(int c)
{
    if ('0' <= c && c <= '9')
        return c - '0';
    if ('a' <= c && c <= 'f')
        return c - 'a' + 10;
    return -1;
}
/* returns NULL on malformed input */
static char *wb_unhex(const char *h)
{
    size_t n = strlen(h), i;
    if (strcmp(h, "-") == 0) {
        char *e = (char *)malloc(1);
        e[0] = '\0';
        return e;
    }
    if (n % 2)
        return NULL;
    char *s = (char *)malloc(n / 2 + 1);
    for (i = 0; i < n / 2; i++) {
        int a = wb_hexval(h[2 * i]), b = wb_hexval(h[2 * i + 1]);
        if (a < 0 || b < 0) {
            free(s);
            return NULL;
        }
        s[i] = (char)(a * 16 + b);
    }
    s[n / 2] = '\0';
    return s;
}
#endif
