/* C06, native part: a stream that was joined and revived behaves like a new one — it keeps running while idle (no stale
 * termination request), runs the work pushed to its pool later (also a unit that blocks and is resumed), and its next join
 * returns only after that work.  Five join / revive rounds on one stream.  exit 0 ok, 1 violation */
#include <abt.h>
#include <stdio.h>
#include <unistd.h>
#include <pthread.h>
static ABT_eventual ev;
static volatile int plain_ran, waiter_ran;
static void plain(void *a) { (void)a; plain_ran++; }
static void waiter(void *a) { (void)a; ABT_eventual_wait(ev, NULL); waiter_ran++; }
static void *setter(void *a) { (void)a; usleep(30000); ABT_eventual_set(ev, NULL, 0); return NULL; }
int main(void)
{
    ABT_init(0, NULL);
    ABT_xstream xs;
    ABT_pool p;
    ABT_pool_create_basic(ABT_POOL_FIFO, ABT_POOL_ACCESS_MPMC, ABT_TRUE, &p);
    ABT_xstream_create_basic(ABT_SCHED_BASIC, 1, &p, ABT_SCHED_CONFIG_NULL, &xs);
    int bad = 0;
    for (int round = 0; round < 5 && !bad; round++) {
        ABT_xstream_join(xs);
        ABT_xstream_revive(xs);
        usleep(20000); /* an idle moment: nothing to do, no join pending */
        ABT_xstream_state st;
        ABT_xstream_get_state(xs, &st);
        if (st != ABT_XSTREAM_STATE_RUNNING) {
            printf("round %d: the revived stream is not RUNNING after an idle moment (state %d) although nobody asked it to stop\n", round, (int)st);
            bad = 1;
        }
        plain_ran = waiter_ran = 0;
        ABT_eventual_create(0, &ev);
        ABT_thread_create(p, plain, NULL, ABT_THREAD_ATTR_NULL, NULL);
        ABT_thread_create(p, waiter, NULL, ABT_THREAD_ATTR_NULL, NULL);
        pthread_t t;
        pthread_create(&t, NULL, setter, NULL);
        ABT_xstream_join(xs);
        if (plain_ran != 1 || waiter_ran != 1) {
            size_t n = 0;
            ABT_pool_get_total_size(p, &n);
            printf("round %d: the join after the revive returned with plain=%d waiter=%d (expected 1 1), %zu unit(s) still in / owed to the pool\n",
                   round, plain_ran, waiter_ran, n);
            bad = 1;
        }
        pthread_join(t, NULL);
        if (!bad)
            ABT_eventual_free(&ev);
    }
    if (bad) {
        fflush(stdout);
        _exit(1);
    }
    ABT_xstream_free(&xs);
    ABT_finalize();
    printf("join / revive rounds: ok\n");
    return 0;
}
