/* C14 search aid (native, two execution streams): a user-defined pool whose unit handles come from a shared LIFO free
 * list, so a handle freed on one stream is the very next handle handed out on another.  The primary stream creates
 * unnamed ULTs into the pool while a second stream runs them; a finished unnamed ULT is released on the second stream
 * (free_unit there), concurrently with the next create_unit on the primary stream.
 * Checked white-box in the callbacks and after every creation:
 *   - when free_unit(u) is called the runtime's unit table must no longer hold u (it may be recycled from here on);
 *   - when create_unit returns u the table must not hold u yet;
 *   - ABT_unit_get_thread / ABT_thread_get_unit translate the new unit correctly;
 *   - every ULT runs exactly once.
 * usage: xs_recycle <iterations>; prints "xs ok ..." or "xs FAIL ..." (exit 1). */
#include "abti.h"
#include <pthread.h>
#include <stdio.h>
#include <stdlib.h>

#define NH 8
#define QCAP 64
typedef struct {
    ABT_thread thread;
    int idx;
} handle;
static handle hs[NH];
static int freelist[NH], nfree; /* LIFO */
static ABT_unit q[QCAP];
static int qh, qn;
static pthread_mutex_t mu = PTHREAD_MUTEX_INITIALIZER;
static long n_create, n_free, n_recycled_fast, fails;
static int last_freed = -1;
static char first_fail[256];

static void fail(const char *what, int idx, int cnt)
{
    if (!fails)
        snprintf(first_fail, sizeof first_fail, "%s (handle h%d, table holds it %d time(s))", what, idx, cnt);
    fails++;
}

static int table_count(ABT_unit u)
{
    ABTI_global *g = ABTI_global_get_global();
    int n = 0;
    for (int i = 0; i < (int)ABTI_UNIT_HASH_TABLE_SIZE; i++) {
        struct cell {
            void *unit;
            ABTI_thread *p_thread;
            struct cell *p_next;
        } *c = (struct cell *)ABTD_atomic_acquire_load_ptr(&g->unit_to_thread_entires[i].list.val);
        for (; c; c = c->p_next)
            n += (ABT_unit)c->unit == u;
    }
    return n;
}

static ABT_unit p_create_unit(ABT_pool pool, ABT_thread thread)
{
    (void)pool;
    pthread_mutex_lock(&mu);
    if (nfree == 0) {
        pthread_mutex_unlock(&mu);
        return ABT_UNIT_NULL;
    }
    int i = freelist[--nfree];
    if (i == last_freed)
        n_recycled_fast++;
    n_create++;
    hs[i].thread = thread;
    int c = table_count((ABT_unit)&hs[i]);
    if (c != 0)
        fail("create_unit handed out a handle that the runtime's unit table still maps", i, c);
    pthread_mutex_unlock(&mu);
    return (ABT_unit)&hs[i];
}
static void p_free_unit(ABT_pool pool, ABT_unit unit)
{
    (void)pool;
    handle *h = (handle *)unit;
    pthread_mutex_lock(&mu);
    int c = table_count(unit);
    if (c != 0)
        fail("free_unit called while the runtime's unit table still maps the handle", h->idx, c);
    n_free++;
    last_freed = h->idx;
    freelist[nfree++] = h->idx;
    pthread_mutex_unlock(&mu);
}
static ABT_bool p_is_empty(ABT_pool pool)
{
    (void)pool;
    return qn == 0 ? ABT_TRUE : ABT_FALSE;
}
static ABT_thread p_pop(ABT_pool pool, ABT_pool_context ctx)
{
    (void)pool;
    (void)ctx;
    ABT_thread t = ABT_THREAD_NULL;
    pthread_mutex_lock(&mu);
    if (qn > 0) {
        t = ((handle *)q[qh])->thread;
        qh = (qh + 1) % QCAP;
        qn--;
    }
    pthread_mutex_unlock(&mu);
    return t;
}
static void p_push(ABT_pool pool, ABT_unit unit, ABT_pool_context ctx)
{
    (void)pool;
    (void)ctx;
    pthread_mutex_lock(&mu);
    q[(qh + qn) % QCAP] = unit;
    qn++;
    pthread_mutex_unlock(&mu);
}

static volatile long ran;
static void body(void *arg)
{
    (void)arg;
    __sync_fetch_and_add(&ran, 1);
}

int main(int argc, char **argv)
{
    long iters = argc > 1 ? atol(argv[1]) : 400;
    for (int i = 0; i < NH; i++) {
        hs[i].idx = i;
        freelist[nfree++] = i;
    }
    ABT_init(0, NULL);
    ABT_pool_user_def def;
    ABT_pool pool;
    ABT_pool_user_def_create(p_create_unit, p_free_unit, p_is_empty, p_pop, p_push, &def);
    ABT_pool_create(def, ABT_POOL_CONFIG_NULL, &pool);
    ABT_pool_user_def_free(&def);
    ABT_xstream xs;
    ABT_xstream_create_basic(ABT_SCHED_BASIC, 1, &pool, ABT_SCHED_CONFIG_NULL, &xs);
    long created = 0, busy = 0;
    while (created < iters) {
        int r = ABT_thread_create(pool, body, NULL, ABT_THREAD_ATTR_NULL, NULL); /* unnamed: freed by the running stream */
        if (r == ABT_SUCCESS) {
            created++;
        } else {
            busy++; /* all handles in use: the other stream has to catch up */
            sched_yield();
        }
    }
    while (ran < created || n_free < n_create)
        sched_yield();
    ABT_xstream_join(xs);
    ABT_xstream_free(&xs);
    ABT_pool_free(&pool);
    ABT_finalize();
    if (ran != created)
        fail("number of executed work units differs from the number created", -1, (int)(ran - created));
    if (fails) {
        printf("xs FAIL %ld violation(s); first: %s; creates=%ld frees=%ld\n", fails, first_fail, n_create, n_free);
        return 1;
    }
    printf("xs ok creates=%ld frees=%ld immediately-recycled=%ld ran=%ld\n", n_create, n_free, n_recycled_fast, (long)ran);
    return 0;
}
