/* vsched — controlled scheduler (see vsched.h).  Plain C, no Argobots headers. */
#define _GNU_SOURCE
#include "vsched.h"
#include <errno.h>
#include <limits.h>
#include <linux/futex.h>
#include <pthread.h>
#include <stdarg.h>
#include <stdlib.h>
#include <string.h>
#include <sys/syscall.h>
#include <sys/time.h>
#include <time.h>
#include <unistd.h>

/* real functions (the wrapped names resolve to __wrap_* at link time) */
int __real_pthread_create(pthread_t *, const pthread_attr_t *, void *(*)(void *), void *);
int __real_pthread_join(pthread_t, void **);
int __real_pthread_mutex_lock(pthread_mutex_t *);
int __real_pthread_mutex_trylock(pthread_mutex_t *);
int __real_pthread_mutex_unlock(pthread_mutex_t *);
int __real_pthread_cond_wait(pthread_cond_t *, pthread_mutex_t *);
int __real_pthread_cond_timedwait(pthread_cond_t *, pthread_mutex_t *, const struct timespec *);
int __real_pthread_cond_signal(pthread_cond_t *);
int __real_pthread_cond_broadcast(pthread_cond_t *);
int __real_pthread_barrier_init(pthread_barrier_t *, const pthread_barrierattr_t *, unsigned);
int __real_pthread_barrier_wait(pthread_barrier_t *);
int __real_nanosleep(const struct timespec *, struct timespec *);
int __real_usleep(useconds_t);
int __real_sched_yield(void);
int __real_clock_gettime(clockid_t, struct timespec *);
int __real_gettimeofday(struct timeval *, void *);
long __real_syscall(long, ...);

enum { ST_UNUSED, ST_RUNNABLE, ST_RUNNING, ST_BLOCKED, ST_DEAD };
enum { BK_NONE, BK_MUTEX, BK_COND, BK_BARRIER, BK_FUTEX, BK_JOIN, BK_SLEEP, BK_SPIN, BK_IDLE };
static const char *BKN[] = { "none", "mutex", "cond", "barrier", "futex", "join", "sleep", "spin", "idle" };

#define MAXT 96
#define SPIN_LIMIT 200
#define IDLE_LIMIT 2000

typedef struct vthread {
    int id, st, bkind;
    const void *bobj;
    int has_deadline, timedout;
    double deadline;
    pthread_cond_t cv;
    void *(*fn)(void *);
    void *arg;
    pthread_t real;
    int real_known;
    /* spin / idle detection */
    const volatile void *ll_addr;
    uint64_t ll_val;
    int ll_rep, ro_streak;
    uint64_t since; /* step at which it last ran or became runnable (starvation age under PCT) */
    /* log dedupe */
    const volatile void *lg_addr;
    uint64_t lg_val;
    long prio;
} vthread;

static vthread T[MAXT];
static int nthreads;
static __thread vthread *me;
static volatile int on;
static pthread_mutex_t G = PTHREAD_MUTEX_INITIALIZER;
static int current = -1;
static uint64_t rng_s, rng_u;
static double vclock = 1000.0;
static uint64_t steps, budget = 3000000ULL, switches, decisions;
static FILE *logf;
static int mode_pct, stick = 50, pct_depth;
static uint64_t pct_change[16];
static long pct_low = -1;
static const void *(*unit_fn)(void);
static char first_failure[512];
static int nfail;
static int spurious_deadlock_rescues;
static uint64_t nwrites, writes_at_rescue = (uint64_t)-1;
static int debug_parks; /* VS_DEBUG_PARKS=1: log spin/idle parking (`Z` lines) */
static int log_all;
static void (*event_fn)(int, const void *, const void *, long);
static int autoname_units; /* name work units T<n> at their creation event, drop the name at free */

#define LOCK() __real_pthread_mutex_lock(&G)
#define UNLOCK() __real_pthread_mutex_unlock(&G)

static uint64_t xs(uint64_t *s)
{
    uint64_t x = *s;
    x ^= x >> 12;
    x ^= x << 25;
    x ^= x >> 27;
    *s = x;
    return x * 0x2545F4914F6CDD1DULL;
}

/* ------------------------------------------------------------------ names */
typedef struct {
    const char *base;
    size_t size;
    int flags;
    char name[40];
    void (*snap_fn)(const void *, const char *);
} nm;
static nm *names;
static int nnames, capnames;
typedef struct {
    const void *p;
    int id;
} anon;
static anon *anons;
static int nanons, capanons;

static nm *lookup(const void *p)
{
    const char *c = (const char *)p;
    for (int i = nnames - 1; i >= 0; i--)
        if (names[i].base && c >= names[i].base && c < names[i].base + names[i].size)
            return &names[i];
    return NULL;
}

const char *vs_addr_name(const void *p, char *buf, size_t n)
{
    if ((uintptr_t)p < 4096) {
        snprintf(buf, n, "null");
        return buf;
    }
    nm *e = lookup(p);
    if (e) {
        size_t off = (const char *)p - e->base;
        if (off)
            snprintf(buf, n, "%s+%zu", e->name, off);
        else
            snprintf(buf, n, "%s", e->name);
        return buf;
    }
    for (int i = 0; i < nanons; i++)
        if (anons[i].p == p) {
            snprintf(buf, n, "x%d", anons[i].id);
            return buf;
        }
    if (nanons == capanons) {
        capanons = capanons ? capanons * 2 : 256;
        anons = realloc(anons, capanons * sizeof(anon));
    }
    anons[nanons].p = p;
    anons[nanons].id = nanons;
    snprintf(buf, n, "x%d", nanons);
    nanons++;
    return buf;
}

static void vname(const void *addr, size_t size, int flags, const char *fmt, va_list ap)
{
    if (nnames == capnames) {
        capnames = capnames ? capnames * 2 : 64;
        names = realloc(names, capnames * sizeof(nm));
    }
    nm *e = &names[nnames++];
    e->base = addr;
    e->size = size;
    e->flags = flags;
    e->snap_fn = NULL;
    vsnprintf(e->name, sizeof e->name, fmt, ap);
    if (logf)
        fprintf(logf, "N %s %zu\n", e->name, size);
}
void vs_name(const void *addr, size_t size, const char *fmt, ...)
{
    va_list ap;
    va_start(ap, fmt);
    vname(addr, size, 0, fmt, ap);
    va_end(ap);
}
void vs_name_ex(const void *addr, size_t size, int flags, const char *fmt, ...)
{
    va_list ap;
    va_start(ap, fmt);
    vname(addr, size, flags, fmt, ap);
    va_end(ap);
}
void vs_set_snap_fn(const void *addr, void (*fn)(const void *, const char *))
{
    nm *e = lookup(addr);
    if (e)
        e->snap_fn = fn;
}
void vs_unname(const void *addr)
{
    for (int i = nnames - 1; i >= 0; i--)
        if (names[i].base == (const char *)addr) {
            if (logf)
                fprintf(logf, "U %s\n", names[i].name);
            names[i].base = NULL;
            return;
        }
}

/* like vs_unname, but only the entry that carries this name: the address may have been named again (memory handed out
 * anew and named by another thread) since the object called `name` was released */
void vs_unname_named(const void *addr, const char *name)
{
    for (int i = nnames - 1; i >= 0; i--)
        if (names[i].base == (const char *)addr && !strcmp(names[i].name, name)) {
            if (logf)
                fprintf(logf, "U %s\n", names[i].name);
            names[i].base = NULL;
            return;
        }
}

static const char *unit_name(char *buf, size_t n)
{
    const void *u = unit_fn ? unit_fn() : NULL;
    if (!u) {
        snprintf(buf, n, "-");
        return buf;
    }
    return vs_addr_name(u, buf, n);
}

/* ------------------------------------------------------------ controller */
static void die(int code, const char *why)
{
    if (logf) {
        fprintf(logf, "X %s steps=%llu clock=%.9f\n", why, (unsigned long long)steps, vclock);
        for (int i = 0; i < nthreads; i++) {
            char b[64];
            fprintf(logf, "X thread %d st=%d blocked_on=%s %s\n", i, T[i].st, BKN[T[i].bkind],
                    T[i].st == ST_BLOCKED && T[i].bobj ? vs_addr_name(T[i].bobj, b, sizeof b) : "-");
        }
        fflush(logf);
    }
    fprintf(stderr, "vsched: %s (steps=%llu)\n", why, (unsigned long long)steps);
    _exit(code);
}

static void wake(vthread *t)
{
    if (t->st == ST_BLOCKED) {
        t->st = ST_RUNNABLE;
        t->bkind = BK_NONE;
        t->since = steps;
    }
}

static void fire_due(void)
{
    for (int i = 0; i < nthreads; i++)
        if (T[i].st == ST_BLOCKED && T[i].has_deadline && T[i].deadline <= vclock) {
            T[i].timedout = 1;
            T[i].has_deadline = 0;
            wake(&T[i]);
        }
}

static int earliest(void)
{
    int b = -1;
    for (int i = 0; i < nthreads; i++)
        if (T[i].st == ST_BLOCKED && T[i].has_deadline && (b < 0 || T[i].deadline < T[b].deadline))
            b = i;
    return b;
}

/* pick the next thread to run; `cur` may be NULL (caller not runnable) */
static int choose(vthread *cur)
{
    for (;;) {
        fire_due();
        int r[MAXT], n = 0;
        for (int i = 0; i < nthreads; i++)
            if (T[i].st == ST_RUNNABLE)
                r[n++] = i;
        int e = earliest();
        if (n > 0 && e >= 0 && (xs(&rng_s) % 16) == 0) {
            /* scheduling choice: let the earliest pending timeout fire now */
            if (T[e].deadline > vclock)
                vclock = T[e].deadline;
            if (logf)
                fprintf(logf, "C %.9f\n", vclock);
            continue;
        }
        if (n == 0) {
            if (e >= 0) {
                if (T[e].deadline > vclock)
                    vclock = T[e].deadline;
                if (logf)
                    fprintf(logf, "C %.9f\n", vclock);
                continue;
            }
            /* nobody can run: parked (idle / spin) threads are woken once in case the
             * state they poll was changed by a plain store */
            int rescued = 0;
            for (int i = 0; i < nthreads; i++)
                if (T[i].st == ST_BLOCKED && (T[i].bkind == BK_SPIN || T[i].bkind == BK_IDLE)) {
                    T[i].ro_streak = 0;
                    T[i].ll_rep = 0;
                    wake(&T[i]);
                    rescued++;
                }
            if (rescued) {
                /* a rescue round only counts as progress if somebody wrote since the last one */
                if (writes_at_rescue != nwrites)
                    spurious_deadlock_rescues = 0;
                writes_at_rescue = nwrites;
                if (spurious_deadlock_rescues++ < 3)
                    continue;
            }
            int alive = 0;
            for (int i = 0; i < nthreads; i++)
                if (T[i].st != ST_DEAD && T[i].st != ST_UNUSED)
                    alive++;
            if (alive == 0)
                return -1;
            die(97, "deadlock");
        }
        decisions++;
        if (n == 1)
            return r[0];
        if (mode_pct) {
            for (int k = 0; k < pct_depth; k++)
                if (pct_change[k] == steps && cur)
                    cur->prio = pct_low--;
            /* bounded fairness: strict priorities starve a low-priority thread for ever when the others busy-wait
             * without yielding, sleeping or getting parked (e.g. a scheduler loop that re-posts a request word on
             * every round keeps waking an idle poller).  A thread that has been runnable for 20000 steps without
             * running is scheduled once. */
            {
                int starved = -1;
                for (int k = 0; k < n; k++)
                    if (steps - T[r[k]].since > 20000 && (starved < 0 || T[r[k]].since < T[starved].since))
                        starved = r[k];
                if (starved >= 0) {
                    static long pct_high = 2000000;
                    T[starved].since = steps;
                    T[starved].prio = pct_high++; /* it runs until it yields, sleeps, blocks or is parked (each demotes) */
                    return starved;
                }
            }
            int b = r[0];
            for (int k = 1; k < n; k++)
                if (T[r[k]].prio > T[b].prio)
                    b = r[k];
            T[b].since = steps;
            return b;
        }
        if (cur && cur->st == ST_RUNNABLE && (int)(xs(&rng_s) % 100) < stick)
            return cur->id;
        return r[xs(&rng_s) % n];
    }
}

static void handoff(vthread *self, int nx)
{
    if (nx == self->id)
        return;
    if (nx >= 0) {
        current = nx;
        switches++;
        __real_pthread_cond_signal(&T[nx].cv);
    }
    while (current != self->id)
        __real_pthread_cond_wait(&self->cv, &G);
}

static void point(vthread *self)
{
    LOCK();
    if (++steps > budget)
        die(98, "step-budget-exhausted");
    self->st = ST_RUNNABLE;
    int nx = choose(self);
    handoff(self, nx);
    self->st = ST_RUNNING;
    UNLOCK();
}

/* returns 1 if woken by timeout */
static int block(vthread *self, int kind, const void *obj, int has_deadline, double deadline)
{
    LOCK();
    if (++steps > budget)
        die(98, "step-budget-exhausted");
    self->st = ST_BLOCKED;
    self->bkind = kind;
    self->bobj = obj;
    self->has_deadline = has_deadline;
    self->deadline = deadline;
    self->timedout = 0;
    if (mode_pct && (kind == BK_SPIN || kind == BK_IDLE || kind == BK_SLEEP))
        self->prio = pct_low--;
    if (logf && kind != BK_SPIN && kind != BK_IDLE) {
        char b[64];
        fprintf(logf, "B %d %s %s\n", self->id, BKN[kind], vs_addr_name(obj, b, sizeof b));
    } else if (logf && debug_parks) {
        fprintf(logf, "Z park %d %s prio=%ld steps=%llu\n", self->id, BKN[kind], (long)self->prio, (unsigned long long)steps);
    }
    int nx = choose(NULL);
    if (nx < 0)
        die(97, "deadlock");
    handoff(self, nx);
    self->st = ST_RUNNING;
    self->has_deadline = 0;
    int to = self->timedout;
    UNLOCK();
    return to;
}

static void wake_all(int kind, const void *obj)
{
    for (int i = 0; i < nthreads; i++)
        if (T[i].st == ST_BLOCKED && T[i].bkind == kind && T[i].bobj == obj)
            wake(&T[i]);
}

static int woke_ids[MAXT]; /* threads woken by the last wake_some (log only) */
static int wake_some(int kind, const void *obj, int n)
{
    int c[MAXT], k = 0, w = 0;
    for (int i = 0; i < nthreads; i++)
        if (T[i].st == ST_BLOCKED && T[i].bkind == kind && T[i].bobj == obj)
            c[k++] = i;
    while (k > 0 && w < n) {
        int j = xs(&rng_s) % k;
        wake(&T[c[j]]);
        woke_ids[w] = c[j];
        c[j] = c[--k];
        w++;
    }
    return w;
}

/* ------------------------------------------------------------------- API */
void vs_set_unit_fn(const void *(*fn)(void)) { unit_fn = fn; }
void vs_autoname_units(int on) { autoname_units = on; }
void vs_set_event_fn(void (*fn)(int, const void *, const void *, long)) { event_fn = fn; }
static void (*atomic_fn)(int, int, const volatile void *, uint64_t, uint64_t);
void vs_set_atomic_fn(void (*fn)(int, int, const volatile void *, uint64_t, uint64_t)) { atomic_fn = fn; }
double vs_now(void) { return vclock; }
uint64_t vs_rand(void) { return xs(&rng_u); }
uint64_t vs_steps(void) { return steps; }
int vs_tid(void) { return me ? me->id : -1; }
int vs_thread_alive(int tid) { return tid >= 0 && tid < nthreads && T[tid].st != ST_DEAD && T[tid].st != ST_UNUSED; }
int vs_failed(void) { return nfail; }
const char *vs_first_failure(void) { return first_failure; }

void vs_init(uint64_t seed, const char *mode, const char *logpath)
{
    rng_s = seed * 0x9E3779B97F4A7C15ULL + 0x1234567ULL;
    if (!rng_s)
        rng_s = 1;
    rng_u = rng_s ^ 0xA5A5A5A55A5A5A5AULL;
    for (int i = 0; i < 4; i++)
        xs(&rng_s);
    if (logpath) {
        logf = fopen(logpath, "w");
        if (logf)
            setvbuf(logf, NULL, _IOFBF, 1 << 20);
    }
    if (getenv("VS_BUDGET"))
        budget = strtoull(getenv("VS_BUDGET"), 0, 0);
    if (getenv("VS_DEBUG_PARKS"))
        debug_parks = 1;
    if (getenv("VS_LOG_ALL"))
        log_all = 1;
    if (mode && !strncmp(mode, "pct:", 4)) {
        mode_pct = 1;
        pct_depth = atoi(mode + 4);
        if (pct_depth > 16)
            pct_depth = 16;
        uint64_t est = getenv("VS_PCT_STEPS") ? strtoull(getenv("VS_PCT_STEPS"), 0, 0) : 20000;
        for (int k = 0; k < pct_depth; k++)
            pct_change[k] = 1 + xs(&rng_s) % est;
    } else if (mode && !strncmp(mode, "rand:", 5)) {
        stick = atoi(mode + 5);
    }
    for (int i = 0; i < MAXT; i++) {
        pthread_cond_init(&T[i].cv, NULL);
        T[i].id = i;
        T[i].prio = (long)(xs(&rng_s) % 1000000) + 10;
    }
    nthreads = 1;
    T[0].st = ST_RUNNING;
    T[0].real = pthread_self();
    T[0].real_known = 1;
    me = &T[0];
    current = 0;
    if (logf)
        fprintf(logf, "I seed=%llu mode=%s\n", (unsigned long long)seed, mode ? mode : "rand:50");
    on = 1;
}

int vs_finish(void)
{
    on = 0;
    if (logf) {
        fprintf(logf, "X done steps=%llu switches=%llu decisions=%llu clock=%.9f fails=%d\n", (unsigned long long)steps,
                (unsigned long long)switches, (unsigned long long)decisions, vclock, nfail);
        fflush(logf);
    }
    return nfail ? 1 : 0;
}

static void vlogline(char tag, int is_point, const char *fmt, va_list ap)
{
    if (on && me && is_point)
        point(me);
    if (!logf)
        return;
    char u[64];
    fprintf(logf, "%c %d %s ", tag, me ? me->id : -1, unit_name(u, sizeof u));
    vfprintf(logf, fmt, ap);
    fputc('\n', logf);
    if (me)
        me->lg_addr = NULL;
}
void vs_log(const char *fmt, ...)
{
    va_list ap;
    va_start(ap, fmt);
    vlogline('S', 1, fmt, ap);
    va_end(ap);
}
void vs_note(const char *fmt, ...)
{
    va_list ap;
    va_start(ap, fmt);
    vlogline('S', 0, fmt, ap);
    va_end(ap);
}
void vs_fail(const char *fmt, ...)
{
    va_list ap;
    va_start(ap, fmt);
    if (!nfail) {
        va_list ap2;
        va_copy(ap2, ap);
        vsnprintf(first_failure, sizeof first_failure, fmt, ap2);
        va_end(ap2);
    }
    nfail++;
    vlogline('F', 0, fmt, ap);
    va_end(ap);
    if (logf)
        fflush(logf);
}
void vs_point(void)
{
    if (on && me)
        point(me);
}

/* ----------------------------------------------------------------- hooks */
static const char *OPN[] = { "?", "load", "store", "clear", "tas", "cas", "fadd", "fsub", "for", "fand", "fxor", "xchg", "pause", "fence" };

static uint64_t peek(const volatile void *addr, int width)
{
    switch (width) {
        case 1:
            return *(const volatile uint8_t *)addr;
        case 4:
            return *(const volatile uint32_t *)addr;
        case 8:
        case 16:
            return *(const volatile uint64_t *)addr;
        default:
            return 0;
    }
}

void abt_verif_atomic(int kind, int width, const volatile void *addr, uint64_t a, uint64_t b)
{
    if (!on || !me)
        return;
    vthread *self = me;
    if (kind == 13) /* fence */
        return;
    if (kind == 12) { /* pause: a polite spin */
        point(self);
        return;
    }
    int is_load = (kind == 1);
    if (is_load) {
        uint64_t v = peek(addr, width);
        if (self->ll_addr == addr && self->ll_val == v)
            self->ll_rep++;
        else {
            self->ll_addr = addr;
            self->ll_val = v;
            self->ll_rep = 0;
        }
        self->ro_streak++;
        if (self->ll_rep >= SPIN_LIMIT) {
            self->ll_rep = 0;
            block(self, BK_SPIN, (const void *)addr, 0, 0);
        } else if (self->ro_streak >= IDLE_LIMIT) {
            self->ro_streak = 0;
            block(self, BK_IDLE, NULL, 0, 0);
        } else {
            point(self);
        }
    } else {
        self->ll_addr = NULL;
        self->ll_rep = 0;
        self->ro_streak = 0;
        nwrites++;
        point(self);
        /* a write is about to happen: pollers may now make progress */
        LOCK();
        for (int i = 0; i < nthreads; i++) {
            if (T[i].st == ST_BLOCKED && (T[i].bkind == BK_IDLE || (T[i].bkind == BK_SPIN && T[i].bobj == (const void *)addr)))
                wake(&T[i]);
            /* a poller that is not parked yet gets a fresh allowance too: what it polls may have just changed (it must
             * not be parked on the strength of reads it did before this write) */
            if (&T[i] != self)
                T[i].ro_streak = 0;
        }
        UNLOCK();
    }
    if (atomic_fn) /* scenario hook: runs while this thread holds the token, right before the op executes (may vs_name) */
        atomic_fn(kind, width, addr, a, b);
    if (!logf)
        return;
    nm *e = lookup((const void *)addr);
    if (!e && !log_all)
        return;
    uint64_t cur = peek(addr, width);
    if (is_load) {
        if (e && (e->flags & VS_QUIET_LOADS))
            return;
        if (self->lg_addr == addr && self->lg_val == cur)
            return; /* identical consecutive observation */
        self->lg_addr = addr;
        self->lg_val = cur;
    } else {
        self->lg_addr = NULL;
    }
    char n1[64], u[64];
    fprintf(logf, "A %d %s %s %s %lld %lld %lld\n", self->id, unit_name(u, sizeof u), OPN[kind], vs_addr_name((const void *)addr, n1, sizeof n1),
            (long long)cur, (long long)a, (long long)b);
    if (e && e->snap_fn && kind == 3)
        e->snap_fn(e->base, e->name);
    if (e && (e->flags & VS_SNAP) && !is_load) {
        fprintf(logf, "P %s ", e->name);
        size_t n = e->size > 160 ? 160 : e->size;
        for (size_t i = 0; i < n; i++)
            fprintf(logf, "%02x", (unsigned)(unsigned char)e->base[i]);
        fputc('\n', logf);
    }
}

void abt_verif_event(int kind, const void *p1, const void *p2, long v)
{
    if (!on || !me)
        return;
    vthread *self = me;
    if (event_fn)
        event_fn(kind, p1, p2, v);
    if (autoname_units && logf && (kind == 1 || kind == 4) && !lookup(p1)) {
        static int tn;
        vs_name(p1, 128, "T%d", tn++);
    }
    if (kind == 50 && logf) {
        /* wait-list node on a waiter's stack (external thread / timed wait): name it while it is queued.
         * Stale names of earlier nodes that overlap the new one (stack reuse) are dropped first. */
        static int wn;
        nm *e;
        while ((e = lookup(p2)) != NULL && e->name[0] == 'W' && e->base != (const char *)p2)
            e->base = NULL;
        while ((e = lookup((const char *)p2 + 95)) != NULL && e->name[0] == 'W' && e->base != (const char *)p2)
            e->base = NULL;
        if (!lookup(p2))
            vs_name(p2, 96, "W%d", wn++);
    }
    if (mode_pct && kind == 8) /* a yielding thread goes to the back (PCT treatment of yields) */
        self->prio = pct_low--;
    point(self);
    if (!logf)
        return;
    if (kind == 21 && (uintptr_t)p2 < 4096) /* empty pop: only noise */
        return;
    self->lg_addr = NULL;
    char n1[64], n2[64], u[64];
    fprintf(logf, "E %d %s %d %s %s %ld\n", self->id, unit_name(u, sizeof u), kind, vs_addr_name(p1, n1, sizeof n1), vs_addr_name(p2, n2, sizeof n2), v);
    if (kind == 3 && autoname_units) { /* freed: the descriptor will be reused by another unit */
        nm *e = lookup(p1);
        if (e && e->name[0] == 'T' && e->base == (const char *)p1)
            vs_unname(e->base);
    }
    if (kind == 51) { /* timed-out node leaves the list: its stack slot will be reused */
        nm *e = lookup(p2);
        if (e && e->name[0] == 'W')
            vs_unname(e->base);
    }
}

/* ------------------------------------------------------------ wrappers */
typedef struct {
    const void *addr;
    int owner;
    unsigned count, arrived;
} vobj;
static vobj *objs;
static int nobjs, capobjs;
static vobj *obj(const void *addr)
{
    for (int i = 0; i < nobjs; i++)
        if (objs[i].addr == addr)
            return &objs[i];
    if (nobjs == capobjs) {
        capobjs = capobjs ? capobjs * 2 : 64;
        objs = realloc(objs, capobjs * sizeof(vobj));
    }
    vobj *o = &objs[nobjs++];
    o->addr = addr;
    o->owner = -1;
    o->count = 0;
    o->arrived = 0;
    return o;
}

static void *trampoline(void *p)
{
    vthread *self = (vthread *)p;
    me = self;
    LOCK();
    while (current != self->id)
        __real_pthread_cond_wait(&self->cv, &G);
    self->st = ST_RUNNING;
    UNLOCK();
    void *r = self->fn(self->arg);
    LOCK();
    self->st = ST_DEAD;
    if (logf)
        fprintf(logf, "T %d exit\n", self->id);
    wake_all(BK_JOIN, self);
    int nx = choose(NULL);
    me = NULL;
    if (nx >= 0) {
        current = nx;
        switches++;
        __real_pthread_cond_signal(&T[nx].cv);
    }
    UNLOCK();
    return r;
}

int __wrap_pthread_create(pthread_t *th, const pthread_attr_t *attr, void *(*fn)(void *), void *arg)
{
    if (!on || !me)
        return __real_pthread_create(th, attr, fn, arg);
    LOCK();
    if (nthreads >= MAXT)
        die(96, "too many threads");
    vthread *t = &T[nthreads++];
    t->st = ST_RUNNABLE;
    t->fn = fn;
    t->arg = arg;
    t->real_known = 0;
    if (logf)
        fprintf(logf, "T %d create by %d\n", t->id, me->id);
    UNLOCK();
    int r = __real_pthread_create(th, attr, trampoline, t);
    if (r != 0) {
        LOCK();
        t->st = ST_DEAD;
        UNLOCK();
        return r;
    }
    t->real = *th;
    t->real_known = 1;
    point(me);
    return 0;
}

int __wrap_pthread_join(pthread_t th, void **ret)
{
    if (!on || !me)
        return __real_pthread_join(th, ret);
    vthread *t = NULL;
    for (int i = 0; i < nthreads; i++)
        if (T[i].real_known && pthread_equal(T[i].real, th) && T[i].fn)
            t = &T[i];
    if (t) {
        point(me);
        while (t->st != ST_DEAD)
            block(me, BK_JOIN, t, 0, 0);
    }
    return __real_pthread_join(th, ret);
}

/* log-only lines for the virtual pthread objects that live inside a *named* object (no schedule point):
 *   M <tid> lock|unlock <obj>      R <tid> condwait <obj> dl=<abs|inf>      R <tid> condret <obj> to=<0|1>
 *   W <tid> cond <obj> n=<k> woke=<tid,...> */
static void (*mutex_fn)(char, const char *, const void *);
void vs_set_mutex_fn(void (*fn)(char, const char *, const void *)) { mutex_fn = fn; }
static void plog(char tag, const char *what, const void *o, const char *extra)
{
    char b[64];
    if (logf && me && lookup(o)) {
        fprintf(logf, "%c %d %s %s%s\n", tag, me->id, what, vs_addr_name(o, b, sizeof b), extra);
        if (mutex_fn) /* scenario hook (additive; unset everywhere but in sc_xslife): the word the mutex protects */
            mutex_fn(tag, what, o);
    }
}
static void vmutex_lock(vthread *self, pthread_mutex_t *m)
{
    for (;;) {
        vobj *o = obj(m);
        if (o->owner < 0) {
            o->owner = self->id;
            plog('M', "lock", m, "");
            return;
        }
        block(self, BK_MUTEX, m, 0, 0);
    }
}
static void vmutex_unlock(pthread_mutex_t *m)
{
    vobj *o = obj(m);
    o->owner = -1;
    plog('M', "unlock", m, "");
    LOCK();
    wake_all(BK_MUTEX, m);
    UNLOCK();
}

int __wrap_pthread_mutex_lock(pthread_mutex_t *m)
{
    if (!on || !me)
        return __real_pthread_mutex_lock(m);
    point(me);
    vmutex_lock(me, m);
    return 0;
}
int __wrap_pthread_mutex_trylock(pthread_mutex_t *m)
{
    if (!on || !me)
        return __real_pthread_mutex_trylock(m);
    point(me);
    vobj *o = obj(m);
    if (o->owner < 0) {
        o->owner = me->id;
        plog('M', "lock", m, "");
        return 0;
    }
    return EBUSY;
}
int __wrap_pthread_mutex_unlock(pthread_mutex_t *m)
{
    if (!on || !me)
        return __real_pthread_mutex_unlock(m);
    vmutex_unlock(m);
    point(me);
    return 0;
}
int __wrap_pthread_cond_wait(pthread_cond_t *c, pthread_mutex_t *m)
{
    if (!on || !me)
        return __real_pthread_cond_wait(c, m);
    plog('R', "condwait", c, " dl=inf");
    vmutex_unlock(m);
    block(me, BK_COND, c, 0, 0);
    plog('R', "condret", c, " to=0");
    vmutex_lock(me, m);
    return 0;
}
int __wrap_pthread_cond_timedwait(pthread_cond_t *c, pthread_mutex_t *m, const struct timespec *abst)
{
    if (!on || !me)
        return __real_pthread_cond_timedwait(c, m, abst);
    double dl = (double)abst->tv_sec + 1e-9 * (double)abst->tv_nsec;
    char dlb[48];
    snprintf(dlb, sizeof dlb, " dl=%.9f", dl);
    plog('R', "condwait", c, dlb);
    vmutex_unlock(m);
    int to = 0;
    if (dl <= vclock)
        to = 1, point(me);
    else
        to = block(me, BK_COND, c, 1, dl);
    plog('R', "condret", c, to ? " to=1" : " to=0");
    vmutex_lock(me, m);
    return to ? ETIMEDOUT : 0;
}
int __wrap_pthread_cond_signal(pthread_cond_t *c)
{
    if (!on || !me)
        return __real_pthread_cond_signal(c);
    point(me);
    LOCK();
    int w = wake_some(BK_COND, c, 1);
    char wb[48];
    snprintf(wb, sizeof wb, w ? " n=1 woke=%d" : " n=0 woke=", woke_ids[0]);
    plog('W', "cond", c, wb);
    UNLOCK();
    return 0;
}
int __wrap_pthread_cond_broadcast(pthread_cond_t *c)
{
    if (!on || !me)
        return __real_pthread_cond_broadcast(c);
    point(me);
    LOCK();
    {
        char wb[400];
        int n = 0, k = 0;
        for (int i = 0; i < nthreads; i++)
            if (T[i].st == ST_BLOCKED && T[i].bkind == BK_COND && T[i].bobj == (const void *)c)
                n++;
        k = snprintf(wb, sizeof wb, " n=%d woke=", n);
        for (int i = 0; i < nthreads && k < (int)sizeof wb - 8; i++)
            if (T[i].st == ST_BLOCKED && T[i].bkind == BK_COND && T[i].bobj == (const void *)c)
                k += snprintf(wb + k, sizeof wb - k, "%d,", i);
        plog('W', "cond", c, wb);
    }
    wake_all(BK_COND, c);
    UNLOCK();
    return 0;
}
int __wrap_pthread_barrier_init(pthread_barrier_t *b, const pthread_barrierattr_t *a, unsigned count)
{
    vobj *o = obj(b);
    o->count = count;
    o->arrived = 0;
    return __real_pthread_barrier_init(b, a, count);
}
int __wrap_pthread_barrier_wait(pthread_barrier_t *b)
{
    if (!on || !me)
        return __real_pthread_barrier_wait(b);
    point(me);
    vobj *o = obj(b);
    if (++o->arrived >= o->count) {
        o->arrived = 0;
        LOCK();
        wake_all(BK_BARRIER, b);
        UNLOCK();
        return PTHREAD_BARRIER_SERIAL_THREAD;
    }
    block(me, BK_BARRIER, b, 0, 0);
    return 0;
}

static void vsleep(double secs)
{
    if (secs <= 0) {
        point(me);
        return;
    }
    /* a real nanosleep never returns before the timer slack (50 us by default): polling loops that sleep 100 ns at a
     * time (pop_wait of the built-in pools) then cost 50 times fewer steps per virtual second */
    if (secs < 50e-6)
        secs = 50e-6;
    block(me, BK_SLEEP, NULL, 1, vclock + secs);
}
int __wrap_nanosleep(const struct timespec *req, struct timespec *rem)
{
    if (!on || !me)
        return __real_nanosleep(req, rem);
    vsleep((double)req->tv_sec + 1e-9 * (double)req->tv_nsec);
    if (rem)
        rem->tv_sec = 0, rem->tv_nsec = 0;
    return 0;
}
int __wrap_usleep(useconds_t us)
{
    if (!on || !me)
        return __real_usleep(us);
    vsleep(1e-6 * (double)us);
    return 0;
}
int __wrap_sched_yield(void)
{
    if (!on || !me)
        return __real_sched_yield();
    if (mode_pct)
        me->prio = pct_low--;
    point(me);
    return 0;
}
static void tick(void)
{
    /* every clock read moves virtual time a little so that polling loops make progress */
    vclock += 1e-6;
    if (me) {
        me->ro_streak = 0;
        me->ll_rep = 0;
        me->ll_addr = NULL;
    }
}
int __wrap_clock_gettime(clockid_t id, struct timespec *ts)
{
    if (!on || !me)
        return __real_clock_gettime(id, ts);
    point(me);
    tick();
    ts->tv_sec = (time_t)vclock;
    ts->tv_nsec = (long)((vclock - (double)(time_t)vclock) * 1e9);
    if (logf) {
        char u[64];
        /* the value the caller will compute from the timespec (sec + 1e-9 * nsec) */
        fprintf(logf, "K %d %s %.17g\n", me->id, unit_name(u, sizeof u), (double)ts->tv_sec + 1.0e-9 * (double)ts->tv_nsec);
        me->lg_addr = NULL;
    }
    return 0;
}
int __wrap_gettimeofday(struct timeval *tv, void *tz)
{
    if (!on || !me)
        return __real_gettimeofday(tv, tz);
    point(me);
    tick();
    tv->tv_sec = (time_t)vclock;
    tv->tv_usec = (long)((vclock - (double)(time_t)vclock) * 1e6);
    return 0;
}

long __wrap_syscall(long no, ...)
{
    va_list ap;
    va_start(ap, no);
    long a1 = va_arg(ap, long), a2 = va_arg(ap, long), a3 = va_arg(ap, long), a4 = va_arg(ap, long), a5 = va_arg(ap, long),
         a6 = va_arg(ap, long);
    va_end(ap);
    if (!on || !me || no != SYS_futex)
        return __real_syscall(no, a1, a2, a3, a4, a5, a6);
    int *uaddr = (int *)a1;
    int op = (int)a2 & ~FUTEX_PRIVATE_FLAG;
    int val = (int)a3;
    if (op == FUTEX_WAIT) {
        const struct timespec *to = (const struct timespec *)a4;
        point(me);
        if (*(volatile int *)uaddr != val) {
            errno = EAGAIN;
            return -1;
        }
        int t;
        if (to)
            t = block(me, BK_FUTEX, uaddr, 1, vclock + (double)to->tv_sec + 1e-9 * (double)to->tv_nsec);
        else
            t = block(me, BK_FUTEX, uaddr, 0, 0);
        if (t) {
            errno = ETIMEDOUT;
            return -1;
        }
        return 0;
    } else if (op == FUTEX_WAKE) {
        point(me);
        LOCK();
        int w = wake_some(BK_FUTEX, uaddr, val < 0 ? INT_MAX : val);
        if (logf) {
            char b[64];
            fprintf(logf, "W %d futex %s n=%d\n", me->id, vs_addr_name(uaddr, b, sizeof b), w);
        }
        UNLOCK();
        return w;
    }
    return __real_syscall(no, a1, a2, a3, a4, a5, a6);
}
