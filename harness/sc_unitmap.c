/* vsched scenario for C14 (bucket-lock discipline of the unit -> work-unit table): several actors (ULTs on different
 * execution streams / external threads) each re-associate THEIR OWN work unit back and forth between two user-defined
 * pools X and Y at the same time.
 * usage: sc_unitmap <seed> <mode> <log> <nes> <nactors> <rounds> [ext%]
 *
 *   The pools' create_unit hands out handles from an arena; which bucket of the runtime's table a handle falls into
 *   is determined before the controlled run with the runtime's own code (map it, look where it went, unmap it).
 *   Work unit W_i gets a bucket-B1 handle in pool X and a bucket-B2 handle in pool Y when i is even, and the other way
 *   round when i is odd: moving W_even X->Y touches B1 then B2 while moving W_odd X->Y touches B2 then B1 (crosswise).
 *
 * In the trace: the table `p_global->unit_to_thread_entires` is named UT, so every test-and-set / clear of a bucket
 * spinlock is logged; vlib/t3_unitmap.py projects them onto Model.UnitMapLock (`driver unitmaplock`).
 * Native monitors: every re-association succeeds, ABT_unit_get_thread / ABT_thread_get_unit translate W_i's current unit
 * back to W_i after every move, every W_i finally runs exactly once, the table ends with tombstones only.  A deadlock
 * of the table operations is found exactly by vsched (every thread blocked: exit 97) with the schedule as replay. */
#include "sc_common.h"
#include <sched.h>

#define NW MAX_ACTORS
static int rounds = 4;
static ABT_pool PX, PY;
static ABT_thread W[NW];
static int wran[NW];
static ABT_unit H[NW][2]; /* handle of W_i in X (0) and in Y (1) */
static int hbucket[NW][2];

/* ---- user pools: plain C (atomic between hook points under vsched) ---- */
typedef struct {
    ABT_unit q[NW * 2];
    int n;
} upool;
static upool qx, qy;
static int widx(ABT_thread t)
{
    for (int i = 0; i < NW; i++)
        if (W[i] == t)
            return i;
    return -1;
}
static int creating = -1;
static ABT_unit up_create(ABT_pool pool, ABT_thread thread)
{
    int i = widx(thread);
    if (i < 0)
        i = creating;
    return H[i][pool == PY];
}
static void up_free(ABT_pool pool, ABT_unit unit)
{
    (void)pool;
    (void)unit;
}
static ABT_bool up_is_empty(ABT_pool pool) { return (pool == PY ? qy.n : qx.n) == 0 ? ABT_TRUE : ABT_FALSE; }
static ABT_thread up_pop(ABT_pool pool, ABT_pool_context ctx)
{
    (void)ctx;
    upool *p = pool == PY ? &qy : &qx;
    if (p->n == 0)
        return ABT_THREAD_NULL;
    ABT_unit u = p->q[--p->n];
    for (int i = 0; i < NW; i++)
        if (H[i][0] == u || H[i][1] == u)
            return W[i];
    return ABT_THREAD_NULL;
}
static void up_push(ABT_pool pool, ABT_unit unit, ABT_pool_context ctx)
{
    (void)ctx;
    upool *p = pool == PY ? &qy : &qx;
    p->q[p->n++] = unit;
}

/* ---- which bucket does the runtime put a handle into?  ask the runtime ---- */
struct cell {
    void *unit;
    ABTI_thread *p_thread;
    struct cell *p_next;
};
static int bucket_of_mapped(ABT_unit u)
{
    ABTI_global *g = ABTI_global_get_global();
    for (int i = 0; i < (int)ABTI_UNIT_HASH_TABLE_SIZE; i++)
        for (struct cell *c = (struct cell *)ABTD_atomic_relaxed_load_ptr(&g->unit_to_thread_entires[i].list.val); c; c = c->p_next)
            if ((ABT_unit)c->unit == u)
                return i;
    return -1;
}
static int live_cells(void)
{
    ABTI_global *g = ABTI_global_get_global();
    int n = 0;
    for (int i = 0; i < (int)ABTI_UNIT_HASH_TABLE_SIZE; i++)
        for (struct cell *c = (struct cell *)ABTD_atomic_relaxed_load_ptr(&g->unit_to_thread_entires[i].list.val); c; c = c->p_next)
            n += (ABT_unit)c->unit != ABT_UNIT_NULL;
    return n;
}
static void choose_handles(int nact)
{
    /* candidates 16 bytes apart; take the first two buckets that collect `nact` handles each */
    static char arena[1 << 16] __attribute__((aligned(4096)));
    ABTI_global *g = ABTI_global_get_global();
    static ABT_unit byb[ABTI_UNIT_HASH_TABLE_SIZE][NW];
    static int cnt[ABTI_UNIT_HASH_TABLE_SIZE];
    int b1 = -1, b2 = -1;
    for (size_t off = 16; off + 16 <= sizeof arena && b2 < 0; off += 16) {
        ABT_unit u = (ABT_unit)(arena + off);
        if (ABTI_unit_map_thread(g, u, (ABTI_thread *)(arena)) != ABT_SUCCESS)
            continue;
        int b = bucket_of_mapped(u);
        ABTI_unit_unmap_thread(g, u);
        if (b < 0 || cnt[b] >= NW)
            continue;
        byb[b][cnt[b]++] = u;
        if (cnt[b] == nact) {
            if (b1 < 0)
                b1 = b;
            else if (b != b1)
                b2 = b;
        }
    }
    if (b2 < 0) {
        fprintf(stderr, "harness-error: no two buckets with %d handles\n", nact);
        exit(3);
    }
    for (int i = 0; i < nact; i++) {
        int x = (i % 2 == 0) ? b1 : b2, y = (i % 2 == 0) ? b2 : b1;
        H[i][0] = byb[x][i];
        H[i][1] = byb[y][i];
        hbucket[i][0] = x;
        hbucket[i][1] = y;
    }
}

static void wbody(void *arg)
{
    wran[(int)(intptr_t)arg]++;
}

static void relax(actor *a)
{
    if (a->kind == AK_ULT)
        ABT_thread_yield();
    else
        sched_yield();
}

static void body(actor *a)
{
    int i = a->id, where = 0;
    for (int r = 0; r < rounds; r++) {
        int to = 1 - where;
        vs_log("ua begin A%d W%d %s b%d->b%d", i, i, to ? "X->Y" : "Y->X", hbucket[i][where], hbucket[i][to]);
        int rc = ABT_thread_set_associated_pool(W[i], to ? PY : PX);
        vs_note("ua end A%d rc=%d", i, rc);
        VSA_CHECK(rc == ABT_SUCCESS, "re-association of W%d by A%d returned %d", i, i, rc);
        where = to;
        ABT_unit u = ABT_UNIT_NULL;
        ABT_thread back = ABT_THREAD_NULL;
        ABT_OK(ABT_thread_get_unit(W[i], &u));
        VSA_CHECK(u == H[i][where], "W%d carries an unexpected unit after the move", i);
        ABT_OK(ABT_unit_get_thread(u, &back));
        VSA_CHECK(back == W[i], "unit of W%d translates to another work unit after the move", i);
        if (sc_rnd(3) == 0)
            relax(a);
    }
    a->user = (void *)(intptr_t)where;
}

int main(int argc, char **argv)
{
    vsa_setup(argc, argv);
    int nes = (int)vsa_param(0, 2), nact = (int)vsa_param(1, 2);
    rounds = (int)vsa_param(2, 4);
    int extpct = (int)vsa_param(3, 30);
    if (nes > MAX_ES)
        nes = MAX_ES;
    if (nes < 1)
        nes = 1;
    if (nact < 2)
        nact = 2;
    if (nact > NW)
        nact = NW;
    ABT_init(0, NULL);
    choose_handles(nact);
    vsa_begin();
    vs_note("scenario unitmap nes=%d nact=%d rounds=%d", nes, nact, rounds);
    sc_streams(nes, ABT_SCHED_BASIC);
    {
        ABT_pool_user_def def;
        ABT_OK(ABT_pool_user_def_create(up_create, up_free, up_is_empty, up_pop, up_push, &def));
        ABT_OK(ABT_pool_create(def, ABT_POOL_CONFIG_NULL, &PX));
        ABT_OK(ABT_pool_create(def, ABT_POOL_CONFIG_NULL, &PY));
        ABT_OK(ABT_pool_user_def_free(&def));
    }
    ABTI_global *g = ABTI_global_get_global();
    vs_name_ex(g->unit_to_thread_entires, sizeof g->unit_to_thread_entires, VS_QUIET_LOADS, "UT");
    vs_note("ut table entry=%zu lock=%zu list=%zu buckets=%d", sizeof g->unit_to_thread_entires[0],
            offsetof(ABTI_unit_to_thread_entry, lock), offsetof(ABTI_unit_to_thread_entry, list), (int)ABTI_UNIT_HASH_TABLE_SIZE);
    for (int i = 0; i < nact; i++) {
        creating = i;
        ABT_OK(ABT_thread_create(PX, wbody, (void *)(intptr_t)i, ABT_THREAD_ATTR_NULL, &W[i]));
        creating = -1;
        ABT_thread t;
        ABT_OK(ABT_pool_pop_thread(PX, &t));
        VSA_CHECK(t == W[i], "pool X handed out another work unit than the one just created");
        vs_note("ut unit W%d x=b%d y=b%d", i, hbucket[i][0], hbucket[i][1]);
    }
    sc_nactors = nact;
    for (int i = 0; i < nact; i++) {
        actor *a = &sc_actors[i];
        a->kind = sc_rnd(100) < extpct ? AK_EXT : AK_ULT;
        a->es = nes > 1 ? 1 + (i % (nes - 1)) : 0;
        a->body = body;
        vs_note("actor A%d kind=%s es=%d", i, AKN[a->kind], a->es);
    }
    sc_launch();
    sc_join_all();
    /* run every W_i once on the primary stream and release it */
    for (int i = 0; i < nact; i++) {
        ABT_OK(ABT_thread_set_associated_pool(W[i], sc_pool[0]));
        ABT_OK(ABT_pool_push_thread(sc_pool[0], W[i]));
    }
    for (int i = 0; i < nact; i++) {
        ABT_OK(ABT_thread_free(&W[i]));
        VSA_CHECK(wran[i] == 1, "W%d ran %d time(s)", i, wran[i]);
    }
    VSA_CHECK(live_cells() == 0, "%d live cell(s) left in the unit table after every work unit left the user pools", live_cells());
    vs_unname(g->unit_to_thread_entires);
    ABT_OK(ABT_pool_free(&PX));
    ABT_OK(ABT_pool_free(&PY));
    sc_stop_streams();
    ABT_finalize();
    int rc = vsa_end();
    if (rc)
        fprintf(stderr, "MONITOR: %s\n", vs_first_failure());
    return rc;
}
