"""T3 projections for C10 (ABT_rwlock), scenario harness/sc_rwlock.c.

project_rwlock   vsched log -> event lines for `driver rwlock` (Model.RWLock) + independent oracle findings
embedded_logs    derived logs in which the rwlock's *embedded* ABTI_mutex / ABTI_cond look like stand-alone objects
                 used through their APIs, so that t3.project_mutex / t3.project_waitlist (C04 / C05 models) validate
                 them unchanged
validate         everything together; returns (rejects, transitions, nlines)

Event mapping for Model.RWLock (object RW0 = the whole ABTI_rwlock; the ABTI_mutex is at offset 0, the ABTI_cond
behind it; offsets come from the `O` notes of the scenario):
  S apiCall/apiRet <op> RW0                 -> call a op / ret a op ok|err
  A tas   RW0+<mutex.lock> cur=0            -> mutexLock a        (+ snap from the P line that follows)
  A clear RW0+<mutex.lock>                  -> sleep a  if a holds the cond lock (it is inside ABTI_cond_wait)
                                               mutexUnlock a otherwise          (+ snap from the P line that follows)
  E 50 on RW0+<cond.waitlist>               -> enq a
  E 52 on RW0+<cond.waitlist>               -> wake a n
The plain-memory `update` step has no event; the driver performs it when the mutex holder goes on to wake/mutexUnlock.
Oracles that do not depend on the Lean model (they read the real memory snapshot / the scenario's monitor notes):
  R1  a rdlock caller entered the cond wait although the real write_flag was 0 at that moment
  R2  a rdlock caller blocked although no wrlock call was in progress or holding (`mon wwin 0`)
  W1  a wrlock caller entered the cond wait although write_flag = 0 and reader_count = 0"""
import copy
from . import t3

RC_TIMEDOUT, RC_INV_MUTEX = 42, 20


def _offs(log):
    o = {"mutex": log.off("ABTI_rwlock", "mutex"), "cond": log.off("ABTI_rwlock", "cond"),
         "rc": log.offs[("ABTI_rwlock", "reader_count")], "wf": log.offs[("ABTI_rwlock", "write_flag")]}
    o["mlock"] = o["mutex"] + log.off("ABTI_mutex", "lock")
    o["mw"] = o["mutex"] + log.off("ABTI_mutex", "waiter_lock")
    o["clock"] = o["cond"] + log.off("ABTI_cond", "lock")
    o["cwl"] = o["cond"] + log.off("ABTI_cond", "waitlist")
    return o


def kinds_line(log):
    ks = []
    for i, a in sorted(log.actors.items()):
        ks.append({"ult": "u", "ext": "e", "task": "t"}.get(a.get("kind"), "e") + str(i))
    return "init " + " ".join(ks)


def project_rwlock(log, name="RW0"):
    """-> (lines, oracle_findings, stats)"""
    o = _offs(log)
    wl_loc = "%s+%d" % (name, o["cwl"])
    out = [kinds_line(log)]
    oracle = []
    am = t3.ActorMap()
    cur_op = {}            # actor -> op while inside a call
    slept = {}             # actor -> number of E 50 inside the current call
    cond_holder = None     # who holds the cond lock
    node_actor = {}
    want_snap = None       # (kind, actor) : the next P line of RW0 is the snapshot taken at that event
    w_win = 0
    stats = {"rd_calls": 0, "rd_blocked": 0, "wr_calls": 0, "wr_blocked": 0, "rd_while_readers_hold": 0, "max_rc": 0}
    for ev in log.events:
        am.feed(ev)
        t = ev["t"]
        if t == "S":
            txt = ev["txt"]
            if txt[0] == "mon" and len(txt) >= 3 and txt[1] == "wwin":
                w_win = int(txt[2])
            elif txt[0] in ("apiCall", "apiRet") and len(txt) >= 3 and txt[2] == name:
                a = am.actor(ev)
                if a is None:
                    out.append("call 999999 %s" % txt[1])
                    continue
                if txt[0] == "apiCall":
                    cur_op[a] = txt[1]
                    slept[a] = 0
                    out.append("call %d %s" % (a, txt[1]))
                else:
                    op = cur_op.pop(a, None)
                    if op == "rdlock":
                        stats["rd_calls"] += 1
                        stats["rd_blocked"] += 1 if slept.get(a) else 0
                    elif op == "wrlock":
                        stats["wr_calls"] += 1
                        stats["wr_blocked"] += 1 if slept.get(a) else 0
                    out.append("ret %d %s %s" % (a, txt[1], txt[3] if len(txt) > 3 else "?"))
        elif t == "E":
            k = ev["kind"]
            if k == 50 and ev["p1"] == wl_loc:
                a = am.actor(ev)
                node_actor[ev["p2"]] = a
                if a is None:
                    out.append("enq 999999")
                    continue
                slept[a] = slept.get(a, 0) + 1
                if cur_op.get(a) == "rdlock" and w_win == 0:
                    oracle.append({"oracle": "R2", "ln": ev["ln"], "actor": a,
                                   "what": "reader A%d blocked in ABT_rwlock_rdlock although no wrlock call was in progress or holding" % a})
                out.append("enq %d" % a)
            elif k == 52 and ev["p1"] == wl_loc:
                a = am.actor(ev)
                n = node_actor.pop(ev["p2"], None)
                out.append("wake %d %d" % (a if a is not None else 999999, n if n is not None else 999999))
        elif t == "A":
            nm, off = t3.split_loc(ev["loc"])
            if nm != name:
                continue
            op = ev["op"]
            a = am.actor(ev)
            if off == o["mlock"]:
                if op == "tas" and ev["cur"] == 0:
                    out.append("mutexLock %d" % (a if a is not None else 999999))
                    want_snap = ("acq", a)
                elif op == "clear":
                    if a is not None and cond_holder == a:
                        out.append("sleep %d" % a)
                        want_snap = ("sleep", a)
                    else:
                        out.append("mutexUnlock %d" % (a if a is not None else 999999))
                        want_snap = ("rel", a)
            elif off == o["clock"]:
                if op == "tas" and ev["cur"] == 0:
                    cond_holder = a
                elif op == "clear":
                    cond_holder = None
        elif t == "P" and ev["name"] == name and want_snap is not None:
            kind, a = want_snap
            want_snap = None
            rc = t3.Log.snap_int(ev["hex"], *o["rc"])
            wf = t3.Log.snap_int(ev["hex"], *o["wf"])
            stats["max_rc"] = max(stats["max_rc"], rc)
            if kind == "acq" and cur_op.get(a) == "rdlock" and rc > 0 and wf == 0:
                stats["rd_while_readers_hold"] += 1
            if kind == "sleep":
                if cur_op.get(a) == "rdlock" and wf == 0:
                    oracle.append({"oracle": "R1", "ln": ev["ln"], "actor": a,
                                   "what": "reader A%d entered the cond wait inside ABT_rwlock_rdlock although write_flag = 0 "
                                           "(reader_count = %d): readers do not share" % (a, rc)})
                if cur_op.get(a) == "wrlock" and wf == 0 and rc == 0:
                    oracle.append({"oracle": "W1", "ln": ev["ln"], "actor": a,
                                   "what": "writer A%d entered the cond wait although the lock was free" % a})
            out.append("snap %d %d" % (rc, wf))          # a flag other than 0/1 is a bad-op for the driver: rejected
    return out, oracle, stats


# ---------------------------------------------------------------------------------------------
# the embedded mutex and condition variable as stand-alone objects
# ---------------------------------------------------------------------------------------------
def _syn(ev, txt):
    return {"t": "S", "tid": ev["tid"], "unit": ev.get("unit", "-"), "txt": txt, "ln": ev["ln"]}


def embedded_logs(log, name="RW0"):
    """-> (mutex_log, cond_log): copies of `log` whose event lists contain synthesized API-level `S` events for the
    embedded ABTI_mutex (lock / unlock) and ABTI_cond (wait / broadcast) and no rwlock-level ones.  Where a call
    starts and ends is read off the real events: ABTI_mutex_lock starts at the caller's first test-and-set of the lock
    word and has returned when the caller next touches the mutex (it then starts ABTI_mutex_unlock with the
    test-and-set of the waiter lock, which ends with the clearing of the waiter lock); ABTI_cond_wait / broadcast
    start at the caller's first test-and-set of the cond lock (which one: by the rwlock operation in progress)."""
    o = _offs(log)
    wl_loc = "%s+%d" % (name, o["cwl"])
    am = t3.ActorMap()
    mev, cev = [], []
    mst, cst, cur_op, enq = {}, {}, {}, {}
    prev_clear_clock = False
    for ev in log.events:
        am.feed(ev)
        t = ev["t"]
        is_clear_clock = False
        if t == "S":
            txt = ev["txt"]
            if txt[0] in ("apiCall", "apiRet") and len(txt) >= 3 and txt[2] == name:
                a = am.actor(ev)
                if a is not None:
                    if txt[0] == "apiCall":
                        cur_op[a] = txt[1]
                    else:
                        cur_op.pop(a, None)
                continue                      # rwlock-level calls are not events of the embedded objects
            if txt[0] == "Q" and len(txt) >= 2 and txt[1] == name:
                if prev_clear_clock:          # the list as walked at the release of the cond lock only
                    cev.append(ev)
                continue
            mev.append(ev)
            cev.append(ev)
            continue
        if t == "A":
            nm, off = t3.split_loc(ev["loc"])
            a = am.actor(ev)
            if nm == name and a is not None:
                op = ev["op"]
                if off == o["mlock"] and op == "tas":
                    if mst.get(a) is None:
                        mev.append(_syn(ev, ["apiCall", "lock", name]))
                        mst[a] = "locking"
                    mev.append(ev)
                    cev.append(ev)
                    if ev["cur"] == 0:
                        mst[a] = "acquired"
                        if cst.get(a) == "wait" and enq.get(a):
                            cev.append(_syn(ev, ["apiRet", "wait", name, "0"]))
                            cst[a] = None
                            enq[a] = False
                    continue
                if off == o["mw"] and op == "tas" and mst.get(a) == "acquired":
                    mev.append(_syn(ev, ["apiRet", "lock", name, "1"]))
                    mev.append(_syn(ev, ["apiCall", "unlock", name]))
                    mst[a] = "unlocking"
                elif off == o["mw"] and op == "clear" and mst.get(a) == "unlocking":
                    mev.append(ev)
                    cev.append(ev)
                    mev.append(_syn(ev, ["apiRet", "unlock", name, "1"]))
                    mst[a] = None
                    continue
                elif off == o["clock"] and op == "tas" and cst.get(a) is None:
                    if cur_op.get(a) in ("rdlock", "wrlock"):
                        cev.append(_syn(ev, ["apiCall", "wait", name, name]))
                        cst[a] = "wait"
                        enq[a] = False
                    elif cur_op.get(a) == "unlock":
                        cev.append(_syn(ev, ["apiCall", "broadcast", name]))
                        cst[a] = "bcast"
                elif off == o["clock"] and op == "clear":
                    is_clear_clock = True
                    if cst.get(a) == "bcast":
                        mev.append(ev)
                        cev.append(ev)
                        cev.append(_syn(ev, ["apiRet", "broadcast", name, "0"]))
                        cst[a] = None
                        prev_clear_clock = True
                        continue
        elif t == "E" and ev["kind"] == 50 and ev["p1"] == wl_loc:
            a = am.actor(ev)
            if a is not None:
                enq[a] = True
        mev.append(ev)
        cev.append(ev)
        if t != "P":
            prev_clear_clock = is_clear_clock
    ml, cl = copy.copy(log), copy.copy(log)
    ml.events, cl.events = mev, cev
    return ml, cl, o


def _reject(model, obj, rej, drc, lines, width=14):
    idx = int(rej.split()[1]) if rej and rej.split()[1].isdigit() else 0
    return {"model": model, "object": obj, "reject": rej or "driver rc=%d" % drc,
            "projected_context": lines[max(0, idx - width): idx + 3]}


def validate(log, params, name="RW0", stats_out=None):
    rejects, trans, n = [], set(), 0
    # 1. the rwlock protocol against Model.RWLock + the model-independent oracles
    lines, oracle, stats = project_rwlock(log, name)
    rej, tr, drc = t3.run_driver("rwlock", lines)
    n += len(lines)
    trans.update("rw:" + x for x in tr)
    for f in oracle:
        rejects.append({"model": "oracle (real memory snapshot / monitor notes; independent of the Lean model)", "object": name,
                        "oracle": f["oracle"], "reject": "ORACLE %s: %s (log line %d)" % (f["oracle"], f["what"], f["ln"])})
    if rej or drc != 0:
        rejects.append(_reject("Model.RWLock", name, rej, drc, lines))
    # 2. the embedded mutex against Model.Mutex (C04) and the embedded cond against Model.Cond (C05)
    ml, cl, o = embedded_logs(log, name)
    mlines, _src = t3.project_mutex(ml, name)
    rej, tr, drc = t3.run_driver("mutex", mlines)
    n += len(mlines)
    trans.update("mutex:" + x for x in tr)
    if rej or drc != 0:
        rejects.append(_reject("Model.Mutex (embedded ABTI_mutex)", name, rej, drc, mlines))
    cfg = {"mutexes": {name: 0}, "rc_timedout": RC_TIMEDOUT, "rc_inv_mutex": RC_INV_MUTEX}
    clines = t3.project_waitlist(cl, name, o["clock"], o["cwl"], cond=cfg)
    rej, tr, drc = t3.run_driver("cond", clines)
    n += len(clines)
    trans.update("cond:" + x for x in tr)
    if rej or drc != 0:
        rejects.append(_reject("Model.Cond (embedded ABTI_cond)", name, rej, drc, clines))
    if stats_out is not None:
        for k, v in stats.items():
            stats_out[k] = max(stats_out.get(k, 0), v) if k == "max_rc" else stats_out.get(k, 0) + v
        for ev in log.events:
            if ev["t"] == "S" and ev["txt"][:2] == ["rw", "stats"]:
                kv = dict(x.split("=") for x in ev["txt"][2:])
                stats_out["max_reader_overlap"] = max(stats_out.get("max_reader_overlap", 0), int(kv.get("maxoverlap", 0)))
                stats_out["overlapping_reader_acquisitions"] = stats_out.get("overlapping_reader_acquisitions", 0) + int(kv.get("overlaps", 0))
                stats_out["runs_with_reader_overlap"] = stats_out.get("runs_with_reader_overlap", 0) + (1 if int(kv.get("maxoverlap", 0)) > 1 else 0)
                stats_out["nested_rdlocks"] = stats_out.get("nested_rdlocks", 0) + int(kv.get("nested", 0))
                stats_out["tasklets_rejected"] = stats_out.get("tasklets_rejected", 0) + int(kv.get("rejected", 0))
    return rejects, trans, n
