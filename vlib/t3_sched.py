"""Projection of a vsched log onto Model.Sched (work-unit life cycle)."""
import re
from . import t3

CB_KIND = {30: "yield", 31: "yield", 32: "yield", 33: "yield", 34: "yield", 35: "yield", 36: "yield",
           37: "suspend", 38: "suspend", 41: "suspend", 42: "suspend", 43: "suspend", 39: "exit", 40: "exit", 44: "orphan"}
REQ = {1: "join", 2: "cancel", 4: "migrate"}


def uid(name):
    """T<n> (optionally +1: the unit handle of built-in pools) -> n"""
    m = re.match(r"^T(\d+)(?:\+1)?$", name)
    return int(m.group(1)) if m else None


def pid(name):
    m = re.match(r"^P(\d+)$", name)
    return int(m.group(1)) if m else None


def project_sched(log):
    o_state = log.off("ABTI_thread", "state")
    o_req = log.off("ABTI_thread", "request")
    o_nb = log.off("ABTI_pool", "num_blocked")
    out = ["init"]
    switching = {}       # tid -> unit that is switching away (its callback runs next on this tid)
    resumed_on = {}      # tid -> stack of units resumed by this OS thread whose fetch_sub has not been seen yet (a
                         # resume_exit_to resumes its target, then the exiting unit's joiner, and decrements in reverse order)
    pending_dec = {}     # tid -> pool of a fetch_sub seen before the resume event it belongs to
    last_cb = {}         # tid -> kind of the callback running on this OS thread
    known = set()        # units whose creation is in the log (others, e.g. scheduler ULTs, are not modelled)
    extra = {}           # pool -> num_blocked contributions of units that are not modelled (primary ULT ...)
    evs = log.events
    n = len(evs)

    def emit(s):
        w = s.split()
        # position of the unit id per event kind
        pos = {"push": 2, "pop": 3, "run": 2, "finish": 2, "cb": 2, "joinRet": 2}.get(w[0], 1)
        if w[0] not in ("checkNb", "init") and int(w[pos]) not in known:
            return
        out.append(s)

    mig_target = {}
    in_cb = {}           # tid -> the context-switch callback of `switching[tid]` is running on this OS thread
    cb38 = {}            # tid -> [prev, next, counter touched] while ABTI_ythread_callback_resume_suspend_to runs

    def pend(p):
        # decrements already done in memory whose owner is only known at the resume event that follows (direct hand-off
        # to a joiner): the model has not seen them yet
        return sum(1 for q in pending_dec.values() if q == p)

    def next_push_pool(i, u):
        for j in range(i + 1, n):
            e = evs[j]
            if e["t"] == "E" and e["kind"] == 20 and uid(e["p2"]) == u:
                return pid(e["p1"])
        return None

    for i, ev in enumerate(evs):
        t = ev["t"]
        if t == "E":
            k = ev["kind"]
            tid = ev["tid"]
            if k in (1, 2, 3, 4, 6, 7, 8, 9):
                in_cb[tid] = False
                cb38.pop(tid, None)
            if k == 1 or k == 4:
                u, p = uid(ev["p1"]), pid(ev["p2"])
                if u is not None and p is not None:
                    known.add(u)
                    emit("create %d %d" % (u, p))
            elif k == 20:
                u, p = uid(ev["p2"]), pid(ev["p1"])
                if u is not None and p is not None:
                    emit("push %d %d" % (p, u))
            elif k == 21 or k == 22:
                # 22 = ABTI_pool_remove by a directed switch (ABT_thread_yield_to): the caller takes the target out
                u, p = uid(ev["p2"]), pid(ev["p1"])
                if u is not None and p is not None:
                    emit("pop %d %d %d" % (tid, p, u))
            elif k == 5:
                u = uid(ev["p1"])
                if u is not None:
                    emit("run %d %d" % (tid, u))
            elif k == 6:
                u = uid(ev["p1"])
                switching[tid] = u if u in known else None
                if u is not None:
                    emit("finish %d %d" % (tid, u))
            elif k in (8, 9):
                u = uid(ev["p1"])
                switching[tid] = u if u in known else None
            elif k in CB_KIND:
                u = switching.get(tid)
                last_cb[tid] = k
                in_cb[tid] = True
                if k == 38:
                    nxt = (resumed_on.get(tid) or [None])[-1]
                    cb38[tid] = [u, nxt if isinstance(nxt, int) else None, False]
                if u is not None:
                    emit("cb %d %d %s" % (tid, u, CB_KIND[k]))
            elif k == 10:
                u = uid(ev["p1"])
                resumed_on.setdefault(tid, []).append(u if (u is not None and u in known) else ev["p1"])
                if u is not None and u in known:
                    emit("resume %d" % u)
                if tid in pending_dec:
                    p = pending_dec.pop(tid)
                    if u is not None and u in known:
                        emit("decB %d %d" % (u, p))
                    else:
                        extra[p] = extra.get(p, 0) - 1
                    if resumed_on.get(tid):
                        resumed_on[tid].pop()
            elif k == 60:
                u = uid(ev["p1"])
                if u is not None:
                    emit("terminate %d" % u)
            elif k == 3:
                u = uid(ev["p1"])
                if u is not None:
                    emit("free %d" % u)
        elif t == "A":
            name, off = t3.split_loc(ev["loc"])
            op = ev["op"]
            u = uid(name)
            if u is not None and off == o_state and op == "store":
                c = cb38.get(ev["tid"])
                if c and ev["a"] == 2 and c[0] == u and c[1] is not None and not c[2] and c[1] in known and u in known:
                    # resume_suspend_to inside one pool: no counter update, the resumed unit's count passes to the caller
                    emit("xferB %d %d" % (c[1], u))
                    if resumed_on.get(ev["tid"]):
                        resumed_on[ev["tid"]].pop()
                emit("setSt %d %d" % (u, ev["a"]))
            elif u is not None and off == o_req and op == "for" and ev["a"] in REQ:
                emit("reqSet %d %s" % (u, REQ[ev["a"]]))
            elif u is not None and off == o_req and op == "fand":
                bit = (~ev["a"]) & 0xffffffff
                if bit in REQ:
                    if REQ[bit] == "migrate":
                        p = mig_target.pop(u, None)     # the pool the scenario asked for (`migReq` line) ...
                        if p is None:
                            p = next_push_pool(i, u)    # ... or where the unit is pushed next
                        if p is not None:
                            emit("migrate %d %d" % (u, p))
                    emit("reqClr %d %s" % (u, REQ[bit]))
            elif pid(name) is not None and off == o_nb and op in ("fadd", "fsub"):
                p = pid(name)
                tid = ev["tid"]
                if op == "fadd":
                    u = uid(ev["unit"])          # user code of a unit itself (ABT_thread_yield_to credit) ...
                    if u is None or u not in known or in_cb.get(tid):
                        u = switching.get(tid)   # ... or the callback finishing a unit's suspension (on the scheduler's
                                                 # context, or on the context of the unit a directed switch went to)
                    if tid in cb38:
                        cb38[tid][2] = True
                    if u is not None and u in known:
                        emit("checkNb %d %d" % (p, t3_s32(ev["cur"]) - extra.get(p, 0) + pend(p)))
                        emit("incB %d %d" % (u, p))
                    else:
                        extra[p] = extra.get(p, 0) + 1
                else:
                    u = resumed_on[tid].pop() if resumed_on.get(tid) else None
                    if u is None and last_cb.get(tid) == 35 and switching.get(tid) is not None:
                        u = switching[tid]        # ABT_thread_yield_to: the caller's own credit is returned by its callback
                    if u is None:
                        pending_dec[tid] = p      # the resume event of the unit it belongs to follows
                    elif isinstance(u, int):
                        emit("checkNb %d %d" % (p, t3_s32(ev["cur"]) - extra.get(p, 0) + pend(p)))
                        emit("decB %d %d" % (u, p))
                    else:
                        extra[p] = extra.get(p, 0) - 1
        elif t == "S":
            txt = ev["txt"]
            u = uid(ev["unit"])
            if txt[0] in ("step", "userStart", "userEnd", "apiCall", "apiRet"):
                in_cb[ev["tid"]] = False
                cb38.pop(ev["tid"], None)
            if txt[0] == "migReq" and u is not None and len(txt) >= 3 and pid(txt[2]) is not None:
                mig_target[u] = pid(txt[2])
            elif txt[0] == "userStart" and u is not None:
                emit("userStart %d" % u)
            elif txt[0] == "userEnd" and u is not None:
                emit("userEnd %d" % u)
            elif txt[0] == "apiRet" and len(txt) >= 4 and txt[1] == "join":
                tu = uid(txt[3])
                if tu is not None:
                    j = u if u is not None else 99
                    emit("joinRet %d %d" % (j, tu))
    return out


def t3_s32(v):
    v &= 0xffffffff
    return v - (1 << 32) if v & 0x80000000 else v


# --------------------------------------------------------------------------------------------
# projection onto Model.Join: one joiner / target pair per join call on a named ULT
# --------------------------------------------------------------------------------------------
def project_join(log):
    """Returns a list of (target name, lines) — one hand-shake per joined ULT target."""
    o_state = log.off("ABTI_thread", "state")
    o_req = log.off("ABTI_thread", "request")
    o_link = log.off("ABTI_ythread", "ctx") + log.off("ABTD_ythread_context", "p_link")
    evs = log.events
    # unit kinds (U<i> -> ult/task) and the U -> T binding from the join call lines
    ukind = {}
    for ev in evs:
        if ev["t"] == "S" and ev["txt"][0] == "unit" and len(ev["txt"]) > 2:
            kv = dict(x.split("=") for x in ev["txt"][2:])
            ukind[ev["txt"][1]] = kv.get("kind")
    targets = []
    for ev in evs:
        if ev["t"] == "S" and ev["txt"][0] == "apiCall" and len(ev["txt"]) >= 4 and ev["txt"][1] == "join":
            if ukind.get(ev["txt"][2]) == "ult" and uid(ev["txt"][3]) is not None:
                targets.append(ev["txt"][3])
    res = []
    seen_t = set()
    for tname in targets:
        if tname in seen_t:
            continue
        seen_t.add(tname)
        lines = ["new"]
        junit = None
        jfutex = None
        j_is_ult = True
        ext_resumed = False
        link_seen_set = False
        t_term = False
        jtid = None
        in_join = False
        t_exiting = False      # the target's exit path has begun (finish / cancellation): its link loads count
        t_tid = None
        done = False
        alive = False
        j_will_block = False
        for ev in evs:
            t = ev["t"]
            if t == "E" and ev["kind"] in (1, 4) and ev["p1"] == tname:
                if alive and ev["kind"] == 4:
                    # revive: a new life of the same descriptor, a new hand-shake
                    if done:
                        res.append((tname, lines))
                    lines = ["new"]
                    junit = jtid = t_tid = jfutex = None
                    in_join = t_exiting = done = t_term = link_seen_set = j_will_block = False
                alive = True          # (re)creation of the descriptor named tname
                continue
            if not alive:
                continue
            if t == "S":
                txt = ev["txt"]
                if txt[0] == "apiCall" and txt[1] == "join" and len(txt) >= 4 and txt[3] == tname:
                    junit = ev["unit"]
                    jtid = ev["tid"]
                    jfutex = None
                    in_join = True
                    jk = txt[4] if len(txt) >= 5 else ("ext" if junit == "-" else "ult")
                    j_is_ult = (jk == "ult")
                    ext_resumed = False
                    link_seen_set = False
                    lines.append("jCall %d" % (1 if jk == "ult" else 0))
                elif txt[0] == "apiRet" and txt[1] == "join" and len(txt) >= 4 and txt[3] == tname:
                    in_join = False
                    lines.append("jRet")
                    done = True
            elif t == "W":
                # futex wake by the exiting target: the external / tasklet joiner sleeping on its private futex is resumed
                # (the joiner may not be asleep yet: the wake then finds nobody and the changed futex word keeps the joiner
                # from sleeping; the private futex is known from the joiner's sleep, or it is the wake that follows the
                # target's load of the link of a non-ULT joiner)
                if ev["kind"] == "futex" and t_exiting and not t_term and ev["tid"] == t_tid and in_join and not j_is_ult and \
                        (jfutex is None or ev["obj"] == jfutex) and not ext_resumed:
                    lines.append("tResume")
                    ext_resumed = True
            elif t == "B":
                if ev["kind"] == "futex" and in_join and ev["tid"] == jtid and jfutex is None:
                    jfutex = ev["obj"]
            elif t == "E":
                k = ev["kind"]
                if k == 6 and ev["p1"] == tname:
                    if not t_exiting:
                        lines.append("tExit")
                    t_exiting = True
                    t_tid = ev["tid"]
                elif k == 10 and t_exiting and not t_term and ev["tid"] == t_tid and junit is not None and ev["p1"] == junit:
                    lines.append("tResume")   # (after its TERMINATED store the target resumes nobody: later resumptions of
                                              # the same joiner on this OS thread belong to other targets)
                elif k == 3 and ev["p1"] == tname:
                    break              # freed: the name may be reused by another unit
            elif t == "A":
                name, off = t3.split_loc(ev["loc"])
                op = ev["op"]
                jside = in_join and ev["unit"] == junit and ev["tid"] == jtid
                if name == tname and off == o_req and op == "for" and ev["a"] == 1:
                    if jside:
                        lines.append("jFetchOr %d" % (ev["cur"] & 1))
                        j_will_block = (ev["cur"] & 1) == 0
                    else:                          # the target itself, or a scheduler cancelling it
                        if not t_exiting:
                            t_exiting = True
                            lines.append("tExit")
                        t_tid = ev["tid"]
                        lines.append("tFetchOr %d" % (ev["cur"] & 1))
                elif name == tname and off == o_req and op == "fand" and (ev["a"] & 1) == 0 and (ev["cur"] & 1) == 1:
                    # the JOIN bit of the request word is a one-way hand-shake flag for the life of the descriptor (whoever
                    # finds it set relies on the other party): clearing it is no event of Model.Join
                    lines.append("reqJoinCleared")
                    done = True        # (reported even if this join never returns)
                elif name == tname and off == o_link:
                    if op == "store" and ev["a"] != 0 and in_join:
                        lines.append("jStoreLink")
                    elif op == "load" and not jside:
                        if not t_exiting:
                            t_exiting = True
                            lines.append("tExit")
                        t_tid = ev["tid"]
                        lines.append("tLoadLink %d" % (1 if ev["cur"] else 0))
                        if ev["cur"]:
                            link_seen_set = True
                elif name == tname and off == o_state:
                    if op == "store" and ev["a"] == 3:
                        lines.append("tStoreTerminated")
                        t_term = True
                    elif op == "load" and in_join and ev["unit"] == junit:
                        if not j_is_ult and link_seen_set and not ext_resumed and not t_term:
                            # the target's store into the joiner's private futex word (an unnamed stack address, not
                            # logged) has let the joiner leave its futex loop before the wake call is logged
                            lines.append("tResume")
                            ext_resumed = True
                        lines.append("jLoadState %d" % (1 if ev["cur"] == 3 else 0))
                elif in_join and junit and name == junit and off == o_state and op == "store" and ev["a"] == 2 and j_will_block:
                    # (the joiner's BLOCKED store belongs to the hand-shake it has just won: with ABT_thread_join_many /
                    # free_many several targets are "being joined" by the same caller, one after the other)
                    lines.append("jStoreBlocked")
                    j_will_block = False
        if done:
            res.append((tname, lines))
    return res


# --------------------------------------------------------------------------------------------
# projection onto Model.MemOwner: who touches which local memory pool (`memUse` notes of the monitor in vs_abt.c,
# emitted at the hook events 80 / 81 of ABTI_mem_pool_alloc / ABTI_mem_pool_free)
# --------------------------------------------------------------------------------------------
def _es_num(name):
    if name == "-":
        return "-"
    if name[0] == "X" and name[1:].isdigit():
        return str(int(name[1:]))
    if name[0] == "x" and name[1:].isdigit():
        return str(1000 + int(name[1:]))     # a stream the scenario did not name
    return "9999"


def project_memowner(log):
    out = []
    for ev in log.events:
        if ev["t"] == "S" and ev["txt"][0] == "memUse" and len(ev["txt"]) >= 5:
            _, op, owner, cur, flag = ev["txt"][:5]
            if owner == "ext":
                out.append("useExt %s" % flag)
            else:
                o = _es_num(owner)
                out.append("use %s %s %s" % (o, _es_num(cur), flag))
    return out
