"""T3 projection for C17: vsched trace of harness/sc_ranks.c -> events of Lean Model.RankConc (`driver rankconc`).

What is observed and what is derived
  observed   `rk call` / `rk ret` lines (scenario level), the atomic operations on p_global->xstream_list_lock
             (name RL: tas = ABTD_spinlock_acquire's test_and_set, load = its inner read loop, clear = release) with
             the thread / work unit that performed them, and the real stream list walked at every release
             (`rk snap`, logged while the releasing thread still holds the lock);
  derived    the scan / update events inside a critical section, from the caller's call in flight and the difference
             between the list at the previous release and at this one (placed directly after the successful
             test_and_set: under vsched nobody else runs between that and the hook of the releasing clear):
               create / create_with_rank   node added   -> check, insert        nothing added -> check
               set_rank                    rank changed -> check, move          unchanged     -> check
               free                        node removed -> remove
             `pre` (argument checks before the lock) is placed directly after `call`: nothing it reads can change
             under the contract that a handle is used by one call at a time.
  join       every created descriptor is named `Q<address>`: the trace shows the store of TERMINATED into its state
             word (thread_root_func, on the stream's own native thread: the stream has stopped executing) and that same
             thread blocking on ctx.state_cond (xstream_context_thread_func: parked).  `joined a` — the join part of a's
             ABT_xstream_free is complete — is emitted when both have been seen for a's target (at once if they
             were seen before the call).  A free that touches the list lock before that is rejected by the model.
The model decides whether the derived events are possible (e.g. a release after a successful scan without an
insertion, or an insertion where its own scan finds the rank taken, is rejected) and the driver compares the list at
every release, node by node, with the model's list.  Descriptor addresses are renamed: primary = 1, every creation
call gets the next number (the address is bound to it when the node first appears in the list)."""
import collections
from . import t3

MAIN_ID = 99


class Proj:
    def __init__(self):
        self.lines, self.src = [], []
        self.stats = collections.Counter()


def _snap(txt):
    # ['rk','snap',num,'|',ptr:rank,...]
    num = int(txt[2])
    nodes = []
    for w in txt[4:]:
        p, r = w.rsplit(":", 1)
        nodes.append((p, int(r)))
    return num, nodes


def project(log):
    pr = Proj()
    ext_actor = {}        # tid -> actor (external threads)
    inflight = {}         # actor -> dict(op, args, mid, ptr, t0)
    addr2id = {}          # real descriptor address -> model pointer
    next_id = [2]
    last = None           # last snapshot: (num, [(addr, rank)])
    holder = None         # actor inside the critical section
    snap_at_clear = {}    # actor -> list logged at the release of the critical section it is in
    intervals = []        # (actor, op, rank, i_call, i_ret, outcome) for the evidence counters
    stopped_by = {}       # descriptor address -> tid that stored TERMINATED into its state word
    parked = set()        # descriptor addresses whose native thread is parked after that
    try:
        o_state = log.off("ABTI_xstream", "state")
        o_cond = log.off("ABTI_xstream", "ctx.state_cond")
    except KeyError:
        o_state = o_cond = None
    v_term = [1]

    def qaddr(loc):
        n, o = t3.split_loc(loc)
        if n.startswith("Q0x"):
            return n[1:], o
        return None, None

    def freeing(addr):
        for b, rec in inflight.items():
            if rec["op"] == "free" and rec["ptr"] == addr and not rec.get("joined"):
                return b, rec
        return None, None
    ev = log.events
    ended = False

    def emit(line, e):
        pr.lines.append(line)
        pr.src.append(e["ln"])

    def actor_of(e):
        u = e.get("unit", "-")
        if u.startswith("A") and u[1:].isdigit():
            return int(u[1:])
        return ext_actor.get(e["tid"])

    for i, e in enumerate(ev):
        if ended:
            break
        t = e["t"]
        if t == "S" and e["txt"] and e["txt"][0] == "rk":
            x = e["txt"]
            k = x[1]
            if k == "const" and x[2] == "terminated":
                v_term[0] = int(x[3])
            elif k == "primary":
                addr2id[x[2]] = 1
                last = (1, [(x[2], 0)])
            elif k == "start":
                if e["unit"] == "-":
                    ext_actor[e["tid"]] = int(x[2])
            elif k == "end":
                ended = True
                for kv in x[2:]:
                    if "=" in kv:
                        n, v = kv.split("=", 1)
                        if n in ("busy", "free_while_busy", "claims_while_busy"):
                            pr.stats["harness_" + n] += int(v)
            elif k == "call":
                a, op = int(x[2]), x[3]
                rec = {"op": op, "i": i, "ptr": None, "mid": None, "rank": None}
                if op == "create":
                    rec["mid"] = next_id[0]
                    next_id[0] += 1
                    emit("call %d create %d" % (a, rec["mid"]), e)
                elif op == "createw":
                    rec["mid"] = next_id[0]
                    next_id[0] += 1
                    rec["rank"] = int(x[4])
                    emit("call %d createw %d %d" % (a, rec["mid"], rec["rank"]), e)
                elif op == "setrank":
                    rec["ptr"], rec["rank"] = x[4], int(x[5])
                    rec["mid"] = addr2id.get(x[4], 0)
                    emit("call %d setrank %d %d" % (a, rec["mid"], rec["rank"]), e)
                elif op == "free":
                    rec["ptr"] = x[4]
                    rec["mid"] = addr2id.get(x[4], 0)
                    emit("call %d free %d" % (a, rec["mid"]), e)
                    pr.stats["free_of_running_stream" if x[4] not in parked else "free_of_stopped_stream"] += 1
                elif op == "getnum":
                    emit("call %d getnum" % a, e)
                else:
                    emit("call %d %s" % (a, op), e)     # unknown: the driver answers bad-op
                inflight[a] = rec
                emit("pre %d" % a, e)
                if op == "free" and rec["ptr"] in parked:
                    rec["joined"] = True
                    emit("joined %d" % a, e)
                pr.stats["calls"] += 1
                pr.stats["call_" + op] += 1
            elif k == "ret":
                a, op, rc, val = int(x[2]), x[3], x[4], int(x[5])
                rec = inflight.pop(a, None)
                if op in ("create", "createw"):
                    out = "okrank %d" % val if rc == "ok" else rc
                elif op == "getnum":
                    out = "oknum %d" % val if rc == "ok" else rc
                else:
                    out = rc
                emit("ret %d %s" % (a, out), e)
                if rec is not None and op in ("create", "createw"):
                    intervals.append((a, op, rec["rank"], rec["i"], i, rc))
                if rec is not None and op == "free" and rc == "ok":
                    addr2id.pop(rec["ptr"], None)
                    stopped_by.pop(rec["ptr"], None)
                    parked.discard(rec["ptr"])
        elif t == "A" and e["op"] == "store" and e["loc"].startswith("Q0x"):
            addr, off = qaddr(e["loc"])
            if addr is not None and off == o_state and e["a"] == v_term[0]:
                stopped_by[addr] = e["tid"]
        elif t == "B" and e["kind"] == "cond" and e["obj"].startswith("Q0x"):
            addr, off = qaddr(e["obj"])
            if addr is not None and off == o_cond and stopped_by.get(addr) == e["tid"] and addr not in parked:
                parked.add(addr)
                b, rec = freeing(addr)
                if rec is not None:
                    rec["joined"] = True
                    emit("joined %d" % b, e)
                    pr.stats["joins_completed_inside_free"] += 1
        elif t == "A" and e["loc"] == "RL":
            a = actor_of(e)
            if a is None:
                emit("call -1 unattributed-lock-operation tid=%d" % e["tid"], e)
                continue
            if e["op"] == "tas":
                emit("tas %d %d" % (a, 1 if e["cur"] else 0), e)
                if e["cur"]:
                    pr.stats["tas_failed"] += 1
                    continue
                # Acquired.  The hook point of an atomic primitive is before the operation and exactly one thread
                # runs at a time: the test_and_set, the scan and the list update execute back to back, the next
                # point at which anybody else runs is the hook of the releasing clear.  The scan / update events are
                # therefore placed here; what they were is read off the list logged at that clear.
                holder = a
                pending_clear = None
                for j in range(i + 1, len(ev)):
                    f = ev[j]
                    if f["t"] == "A" and f["loc"] == "RL" and f["op"] == "clear":
                        if actor_of(f) == a:
                            for h in ev[j + 1: j + 4]:
                                if h["t"] == "S" and h["txt"][:2] == ["rk", "snap"] and h["tid"] == f["tid"]:
                                    pending_clear = _snap(h["txt"])
                                    break
                        break
                rec = inflight.get(a)
                snap_at_clear[a] = pending_clear
                if pending_clear is None or rec is None:
                    continue
                num, nodes = pending_clear
                old = dict(last[1]) if last else {}
                new = dict(nodes)
                added = [p for p, _ in nodes if p not in old]
                removed = [p for p in old if p not in new]
                op = rec["op"]
                if op in ("create", "createw"):
                    emit("check %d" % a, e)
                    if added:
                        addr2id[added[0]] = rec["mid"]
                        rec["ptr"] = added[0]
                        emit("insert %d" % a, e)
                elif op == "setrank":
                    emit("check %d" % a, e)
                    if rec["ptr"] in new and old.get(rec["ptr"]) != new[rec["ptr"]]:
                        emit("move %d" % a, e)
                elif op == "free":
                    if rec["ptr"] in removed:
                        emit("remove %d" % a, e)
            elif e["op"] == "load":
                emit("spin %d %d" % (a, 1 if e["cur"] else 0), e)
            elif e["op"] == "clear":
                snap = snap_at_clear.pop(a, None)
                if snap is None:
                    emit("clear %d" % a, e)
                else:
                    num, nodes = snap
                    ids = ["%d:%d" % (addr2id.get(p, 0), r) for p, r in nodes]
                    emit("clear %d %d %s" % (a, num, " ".join(ids)), e)
                    last = snap
                holder = None
                pr.stats["critical_sections"] += 1
    # evidence: overlapping creators, same-rank races won / lost
    for k, (a, op, r, i0, i1, rc) in enumerate(intervals):
        ov = [x for j, x in enumerate(intervals) if j != k and x[3] < i1 and i0 < x[4]]
        if ov:
            pr.stats["creators_overlapping_another_creator"] += 1
        if op == "createw" and r is not None and r >= 0:
            same = [x for x in ov if x[1] == "createw" and x[2] == r]
            if same:
                pr.stats["same_rank_races"] += 1
                if rc == "ok":
                    pr.stats["same_rank_race_won"] += 1
                elif rc == "errrank":
                    pr.stats["same_rank_race_lost"] += 1
                # a race that nobody wins must be explained by a third holder: the model checks it
    return pr


def validate(log, params, stats=None):
    pr = project(log)
    if stats is not None:
        stats.update(pr.stats)
    rej, trans, drc = t3.run_driver("rankconc", pr.lines)
    rejects = []
    if rej or drc != 0:
        try:
            idx = int(rej.split()[1]) if rej else 0
        except ValueError:
            idx = 0
        rejects.append({"model": "Model.RankConc", "reject": rej or "driver rc=%d" % drc,
                        "projected_context": pr.lines[max(0, idx - 14): idx + 2],
                        "log_line": pr.src[idx] if idx < len(pr.src) else None})
    return rejects, set(trans), len(pr.lines)


def reject_is_failure(rj):
    """Model.RankConc's guards are clauses of the property (the list changes only under the lock and only after a scan
    in the same lock hold; a stream leaves the list only after the join part of its free completed; the list at every
    release is the model's list; a caller is told what took effect): a real execution the model rejects is a failing
    history.  Lines the projection could not attribute are problems of the tie, not failures."""
    r = rj.get("reject", "")
    if not r.startswith("REJECT") or "bad-op" in r or "unattributed" in r:
        return None
    what = "execution of the real library is not a run of Model.RankConc"
    if "pc=ArgoVerif.Model.RankConc.Pc.joining" in r:
        what = ("ABT_xstream_free touches the stream list (rank returned / num_xstreams decremented) before its join has "
                "completed: the stream can still be executing ULTs while its rank is given to another stream and get_num "
                "no longer counts it")
    elif "pc=ArgoVerif.Model.RankConc.Pc.chkOk" in r and "clear" in r.split("|")[0]:
        what = ("the list lock is released between the rank availability scan and the insertion (check and insertion in "
                "different critical sections): concurrent creators can be granted the same rank")
    elif "snapshot-differs" in r:
        what = "the stream list at a lock release differs from the model's list"
    return "%s: %s" % (what, r[:400])
