"""T3 support: build and run vsched scenario programs against the hooked library."""
import os, subprocess, tempfile
from . import common as C

WRAPS = ["pthread_create", "pthread_join", "pthread_mutex_lock", "pthread_mutex_trylock", "pthread_mutex_unlock",
         "pthread_cond_wait", "pthread_cond_timedwait", "pthread_cond_signal", "pthread_cond_broadcast",
         "pthread_barrier_init", "pthread_barrier_wait", "nanosleep", "usleep", "sched_yield", "clock_gettime",
         "gettimeofday", "syscall"]
WRAPFLAGS = "-Wl," + ",".join("--wrap=" + w for w in WRAPS)


def build(name, sources):
    return C.cc_harness(name, list(sources) + ["vsched.c", "vs_abt.c"], "hooks", extra=WRAPFLAGS, defs="-D" + C.GUARD)


def run(exe, seed, mode, params, log=None, timeout=120, env=None):
    """Returns (rc, stderr_tail, logpath).  rc: 0 ok, 1 monitor failure, 97 deadlock, 98 budget, other = crash."""
    e = dict(os.environ)
    if env:
        e.update(env)
    args = [exe, str(seed), mode, log or "-"] + [str(p) for p in params]
    try:
        p = subprocess.run(args, stdout=subprocess.PIPE, stderr=subprocess.PIPE, timeout=timeout, env=e)
        return p.returncode, p.stderr.decode("utf-8", "replace")[-2000:], log
    except subprocess.TimeoutExpired:
        return -999, "timeout (wall %ds)" % timeout, log


MODES = ["rand:0", "rand:50", "rand:90", "rand:98", "pct:2", "pct:3"]


# ---------------------------------------------------------------------------------------------
# generic T3 campaign: programs x schedules, monitors + model validation, failing-input search
# ---------------------------------------------------------------------------------------------
import collections, json
from . import t3 as _t3

RC_TEXT = {1: "monitor failure", 97: "deadlock (every thread blocked or idle-polling; nobody can make progress)",
           98: "livelock (step budget exhausted)", -999: "wall-clock timeout"}


def campaign(res, broken, tier, prop, scenario, sources, param_gen, validate, sizes=None, reject_is_failure=None):
    """param_gen(rng) -> params list; validate(log: t3.Log, params) -> (rejects:[{...}], transitions:set, nlines:int).
    Explores programs x schedules.  A monitor failure / deadlock / crash is a concrete violation (replay = seed,
    mode, params).  A model rejection breaks the T3 correspondence: the exploration then continues without
    validation (search budget) looking for a concrete failure.
    reject_is_failure(reject:dict) -> str|None: for specification automata whose guards are the property's own clauses
    (Model.Sched), the search also validates; a real execution that the automaton rejects at such a guard is reported as
    the failing history (replay = the schedule), described by the returned text."""
    sizes = sizes or {"quick": (14, 3), "thorough": (150, 8), "search": (120, 6)}
    exe = build(scenario, sources)
    rng = C.Rng(res.seed * 104729 + sum(map(ord, prop)))
    outcomes = collections.Counter()
    transitions = set()
    stats = {"traces": 0, "events": 0, "runs": 0}
    logdir = os.path.join(C.BUILD, "logs")
    os.makedirs(logdir, exist_ok=True)
    log = os.path.join(logdir, "%s-%d.log" % (prop, os.getpid()))

    found_rejects = []
    reject_patience = [0]

    def sweep(nprog, nsched, do_validate):
        # a monitor failure / deadlock is the better witness: after the first rejected execution keep looking for one
        # for a while, then settle for the rejected execution
        reject_patience[0] = stats["runs"] + (nprog * nsched) // 3
        for p in range(nprog):
            params = param_gen(rng)
            pseed = 1 + rng.below(10**6)
            for k in range(nsched):
                mode = MODES[(p + k) % len(MODES)]
                sseed = pseed * 1000 + k
                rc, err, _ = run(exe, sseed, mode, params, log=log, timeout=180)
                outcomes[rc] += 1
                stats["runs"] += 1
                rep = {"scenario": scenario, "params": params, "seed": sseed, "mode": mode,
                       "cmd": "%s %d %s <log> %s" % (exe, sseed, mode, " ".join(map(str, params)))}
                if rc != 0:
                    last = err.strip().split("\n")[-1] if err.strip() else ""
                    rep["stderr"] = err[-600:]
                    return ("concrete", "%s: %s" % (RC_TEXT.get(rc, "scenario crashed rc=%d" % rc), last), rep)
                if not do_validate and reject_is_failure:
                    try:
                        rejects, _, _ = validate(_t3.Log(log), params)
                    except Exception:
                        rejects = []
                    for rj in rejects:
                        why = reject_is_failure(rj)
                        if why:
                            rep["rejects"] = rejects
                            found_rejects.append(("concrete", why, dict(rep)))
                            break
                    if found_rejects and len(found_rejects) >= 1 and stats["runs"] >= reject_patience[0]:
                        return found_rejects[0]
                if do_validate:
                    lg = _t3.Log(log)
                    rejects, trans, nlines = validate(lg, params)
                    stats["traces"] += 1
                    stats["events"] += nlines
                    transitions.update(trans)
                    if stats["traces"] <= 2:
                        res.sample({"params": params, "seed": sseed, "mode": mode, "log_head": [e for e in lg.events[:14]]})
                    if rejects:
                        rep["rejects"] = rejects
                        return ("reject", rejects[0].get("reject", "model rejected trace"), rep)
        return None

    r = None
    if broken:
        r = sweep(*sizes["search"], False)
    else:
        r = sweep(*sizes[tier], True)
        if r and r[0] == "reject":
            broken.append({"kind": "T3-correspondence", "what": r[1], "replay": r[2]})
            r = sweep(*sizes["search"], False)
    if r is None and found_rejects:
        r = found_rejects[0]
    if r and r[0] == "concrete":
        res.violation(r[1], r[2])
    res.add_cov(programs_and_schedules=sizes["search" if broken else tier], runs=stats["runs"],
                outcomes={str(k): v for k, v in outcomes.items()}, traces_validated_against_impl=stats["traces"],
                projected_events=stats["events"], model_transitions_exercised=len(transitions),
                model_transitions=sorted(transitions))
    try:
        os.remove(log)
    except OSError:
        pass
    return exe


def replay(scenario, sources, path, validate=None):
    rep = json.load(open(path))
    if "mode" not in rep or "params" not in rep:
        print("no concrete failing input in this replay; broken obligations:")
        print(json.dumps(rep.get("broken", rep), indent=1)[:3000])
        return 1
    exe = build(scenario, sources)
    log = os.path.join(C.BUILD, "logs", "replay-%d.log" % os.getpid())
    os.makedirs(os.path.dirname(log), exist_ok=True)
    rc, err, _ = run(exe, rep["seed"], rep["mode"], rep["params"], log=log, timeout=180)
    print("scenario rc=%d (%s) %s log=%s" % (rc, RC_TEXT.get(rc, "ok" if rc == 0 else "crash"), err.strip()[-300:], log))
    if rc == 0 and validate:
        rejects, _, _ = validate(_t3.Log(log), rep["params"])
        for r in rejects:
            print("model rejects:", r)
        return 1 if rejects else 0
    return 1 if rc else 0


def protocol_reject_is_failure(rj):
    """For protocol automata whose guards are the property's own clauses (Model.Mutex, Model.WaitList, Model.Cond: the
    lock is released only by its holder, a waiter is queued under the lock that releases the mutex, a timed-out waiter
    consumes no signal ...): an execution of the real code that the automaton rejects is a history on which such a clause
    fails.  Used by the failing-input search (vs.campaign reject_is_failure)."""
    r = rj.get("reject", "")
    if not r.startswith("REJECT"):
        return None
    return "execution of the real code leaves the specification automaton %s (%s): %s" % (
        rj.get("model", "?"), rj.get("object", ""), r[:300])
