"""T3 support: build and run vsched scenario programs against the hooked library."""
import os, subprocess, tempfile
from . import common as C

WRAPS = ["pthread_create", "pthread_join", "pthread_mutex_lock", "pthread_mutex_trylock", "pthread_mutex_unlock",
         "pthread_cond_wait", "pthread_cond_timedwait", "pthread_cond_signal", "pthread_cond_broadcast",
         "pthread_barrier_init", "pthread_barrier_wait", "nanosleep", "usleep", "sched_yield", "clock_gettime",
         "gettimeofday", "syscall"]
WRAPFLAGS = "-Wl," + ",".join("--wrap=" + w for w in WRAPS)


def build(name, sources):
    return C.cc_harness(name, list(sources) + ["vsched.c", "vs_abt.c"], "hooks", extra=WRAPFLAGS, defs="-D" + C.GUARD)


def run(exe, seed, mode, params, log=None, timeout=120, env=None):
    """Returns (rc, stderr_tail, logpath).  rc: 0 ok, 1 monitor failure, 97 deadlock, 98 budget, other = crash."""
    e = dict(os.environ)
    if env:
        e.update(env)
    args = [exe, str(seed), mode, log or "-"] + [str(p) for p in params]
    try:
        p = subprocess.run(args, stdout=subprocess.PIPE, stderr=subprocess.PIPE, timeout=timeout, env=e)
        return p.returncode, p.stderr.decode("utf-8", "replace")[-2000:], log
    except subprocess.TimeoutExpired:
        return -999, "timeout (wall %ds)" % timeout, log


MODES = ["rand:0", "rand:50", "rand:90", "rand:98", "pct:2", "pct:3"]
