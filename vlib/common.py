"""Shared machinery for /verif checks: repo build cache, Lean build + audit,
evidence writer, violation reporting.  Everything derives paths from this file."""
import fcntl, glob, hashlib, json, os, re, shutil, subprocess, sys, time

VERIF = os.path.dirname(os.path.dirname(os.path.abspath(__file__)))
REPO = os.environ.get("VERIF_REPO", "/repo")
SRC = os.path.join(REPO, "src")
LEAN = os.path.join(VERIF, "lean")
BUILD = os.path.join(VERIF, "build")
EVID = os.path.join(VERIF, "evidence")
REPLAYS = os.path.join(VERIF, "replays")
NCPU = os.cpu_count() or 4
GUARD = "ABT_VERIF_HOOKS"

ALLOWED_AXIOMS = {"propext", "Classical.choice", "Quot.sound"}


def sh(cmd, cwd=None, timeout=None, env=None, inp=None, check=False):
    e = dict(os.environ)
    if env:
        e.update(env)
    p = subprocess.run(cmd, cwd=cwd, shell=isinstance(cmd, str), stdout=subprocess.PIPE,
                       stderr=subprocess.STDOUT, timeout=timeout, env=e, input=inp)
    out = p.stdout.decode("utf-8", "replace")
    if check and p.returncode != 0:
        raise RuntimeError("command failed (%d): %s\n%s" % (p.returncode, cmd, out[-4000:]))
    return p.returncode, out


class Lock:
    def __init__(self, name):
        os.makedirs(BUILD, exist_ok=True)
        self.path = os.path.join(BUILD, name + ".lock")

    def __enter__(self):
        self.f = open(self.path, "w")
        fcntl.flock(self.f, fcntl.LOCK_EX)
        return self

    def __exit__(self, *a):
        fcntl.flock(self.f, fcntl.LOCK_UN)
        self.f.close()


# --------------------------------------------------------------------------
# repo build cache
# --------------------------------------------------------------------------
def src_files():
    fs = []
    for root, _, names in os.walk(SRC):
        if "/.libs" in root or "/.deps" in root:
            continue
        for n in names:
            if n.endswith((".c", ".h", ".S")):
                fs.append(os.path.join(root, n))
    return sorted(fs)


_hash_cache = None


def src_hash():
    global _hash_cache
    if _hash_cache:
        return _hash_cache
    h = hashlib.sha256()
    for f in src_files():
        h.update(f.encode())
        with open(f, "rb") as fh:
            h.update(fh.read())
    _hash_cache = h.hexdigest()[:16]
    return _hash_cache


VARIANTS = {
    # name: (cc, flags)
    "plain": ("gcc", "-O1 -g -fno-omit-frame-pointer"),
    "hooks": ("gcc", "-O1 -g -fno-omit-frame-pointer -D%s" % GUARD),
    "san": ("gcc", "-O1 -g -fno-omit-frame-pointer -fsanitize=address,undefined -fno-sanitize-recover=all"),
}
INC = "-DHAVE_CONFIG_H -I%s/include" % SRC


def fcontext_asm():
    return os.path.join(SRC, "arch/fcontext/fcontext_x86_64_sysv_elf_gas.S")


def lib_sources():
    cs = [f for f in src_files() if f.endswith(".c")]
    return cs + [fcontext_asm()]


def build_lib(variant="plain"):
    """Compile /repo/src (current working tree) into a static archive; cached by source hash."""
    h = src_hash()
    d = os.path.join(BUILD, "repo", h, variant)
    lib = os.path.join(d, "libabt.a")
    with Lock("repo-" + variant):
        if os.path.exists(lib):
            try:
                os.utime(os.path.join(BUILD, "repo", h), None)
            except OSError:
                pass
            return lib
        # drop stale hashes (disk is limited) but keep recent ones: other checks may be
        # running against a scratch worktree (VERIF_REPO) at the same time
        base = os.path.join(BUILD, "repo")
        if os.path.isdir(base):
            olds = [o for o in os.listdir(base) if o != h]
            olds.sort(key=lambda o: os.path.getmtime(os.path.join(base, o)), reverse=True)
            now = time.time()
            for k, old in enumerate(olds):
                po = os.path.join(base, old)
                if (k >= 6 and now - os.path.getmtime(po) > 3600) or now - os.path.getmtime(po) > 6 * 3600:
                    shutil.rmtree(po, ignore_errors=True)
        os.makedirs(d, exist_ok=True)
        cc, flags = VARIANTS[variant]
        jobs = []
        for i, s in enumerate(lib_sources()):
            o = os.path.join(d, "%03d_%s.o" % (i, os.path.basename(s).rsplit(".", 1)[0]))
            jobs.append("%s %s %s -c %s -o %s" % (cc, flags, INC, s, o))
        script = os.path.join(d, "jobs.txt")
        with open(script, "w") as f:
            f.write("\n".join(jobs) + "\n")
        rc, out = sh("xargs -P %d -I{} sh -c '{}' < %s" % (NCPU, script))
        if rc != 0:
            raise RuntimeError("repo build failed (%s):\n%s" % (variant, out[-6000:]))
        objs = sorted(glob.glob(os.path.join(d, "*.o")))
        tmp = lib + ".tmp"
        rc, out = sh(["ar", "rcs", tmp] + objs)
        if rc != 0:
            raise RuntimeError("ar failed: " + out)
        os.rename(tmp, lib)
        return lib


def cc_harness(name, sources, variant="plain", extra="", cxx=False, defs=""):
    """Compile a harness program against the cached library."""
    lib = build_lib(variant)
    d = os.path.dirname(lib)
    exe = os.path.join(d, name)
    cc, flags = VARIANTS[variant]
    srcs = [s if os.path.isabs(s) else os.path.join(VERIF, "harness", s) for s in sources]
    stamp = hashlib.sha256()
    for s in srcs:
        with open(s, "rb") as fh:
            stamp.update(fh.read())
    # headers in harness/ matter too
    for hfile in sorted(glob.glob(os.path.join(VERIF, "harness", "*.h"))):
        with open(hfile, "rb") as fh:
            stamp.update(fh.read())
    stamp.update((extra + defs + variant).encode())
    sf = exe + ".stamp"
    with Lock("cc-" + name + "-" + variant):
        if os.path.exists(exe) and os.path.exists(sf) and open(sf).read() == stamp.hexdigest():
            return exe
        cmd = "%s %s %s %s -I%s -I%s/harness %s -o %s %s %s -lpthread -lm" % (
            cc, flags, INC, defs, SRC, VERIF, " ".join(srcs), exe, lib, extra)
        rc, out = sh(cmd)
        if rc != 0:
            raise RuntimeError("harness build failed: %s\n%s" % (cmd, out[-6000:]))
        with open(sf, "w") as f:
            f.write(stamp.hexdigest())
    return exe


# --------------------------------------------------------------------------
# Lean
# --------------------------------------------------------------------------
def write_if_changed(path, text):
    os.makedirs(os.path.dirname(path), exist_ok=True)
    if os.path.exists(path):
        with open(path) as f:
            if f.read() == text:
                return False
    tmp = path + ".tmp%d" % os.getpid()
    with open(tmp, "w") as f:
        f.write(text)
    os.rename(tmp, path)
    return True


def lake_build(targets, timeout=3000):
    """Build Lean targets (module names or exe names). Returns (ok, output)."""
    with Lock("lake"):
        rc, out = sh(["lake", "build"] + list(targets), cwd=LEAN, timeout=timeout)
    return rc == 0, out


_private_driver = None


def driver_exe():
    """The model driver.  Checks work on a private copy (taken under the lake lock) so that a
    concurrent relink of .lake/build/bin/driver cannot pull the binary away mid-run."""
    return _private_driver or os.path.join(LEAN, ".lake", "build", "bin", "driver")


def snapshot_driver():
    global _private_driver
    src = os.path.join(LEAN, ".lake", "build", "bin", "driver")
    d = os.path.join(BUILD, "bin")
    os.makedirs(d, exist_ok=True)
    dst = os.path.join(d, "driver.%d" % os.getpid())
    with Lock("lake"):
        shutil.copy2(src, dst)
    _private_driver = dst
    import atexit
    atexit.register(lambda: os.path.exists(dst) and os.remove(dst))
    return dst


def strip_lean_comments(txt):
    # remove block comments (nested) then line comments
    out = []
    i, depth = 0, 0
    n = len(txt)
    while i < n:
        if txt.startswith("/-", i):
            depth += 1
            i += 2
        elif depth and txt.startswith("-/", i):
            depth -= 1
            i += 2
        elif depth:
            i += 1
        elif txt.startswith("--", i):
            j = txt.find("\n", i)
            i = n if j < 0 else j
        else:
            out.append(txt[i])
            i += 1
    return "".join(out)


FORBIDDEN = re.compile(r"\b(sorry|admit|native_decide|bv_decide|implemented_by|unsafe)\b|^\s*axiom\s|maxHeartbeats\s+0\b",
                       re.M)


def import_closure(module):
    """Files of the ArgoVerif library that `module` (e.g. ArgoVerif.Props.C07) imports, transitively (itself included)."""
    seen, todo = {}, [module]
    while todo:
        m = todo.pop()
        if m in seen or not m.startswith("ArgoVerif"):
            continue
        f = os.path.join(LEAN, *m.split(".")) + ".lean"
        if not os.path.exists(f):
            continue
        seen[m] = f
        for line in strip_lean_comments(open(f).read()).split("\n"):
            mm = re.match(r"\s*(?:public\s+)?import\s+(\S+)", line)
            if mm:
                todo.append(mm.group(1))
    return sorted(seen.values())


def grep_forbidden(prop=None):
    """Return list of (file, token) for forbidden constructs in the Lean library — with `prop`, in the files the
    property's theorems depend on (import closure of Props.<prop>); a construct in a file that no theorem of this
    property imports cannot weaken them."""
    hits = []
    files = import_closure("ArgoVerif.Props." + prop) if prop else \
        glob.glob(os.path.join(LEAN, "ArgoVerif", "**", "*.lean"), recursive=True)
    for f in files:
        txt = strip_lean_comments(open(f).read())
        # string literals may legitimately contain words; drop them
        txt = re.sub(r'"(\\.|[^"\\])*"', '""', txt)
        for m in FORBIDDEN.finditer(txt):
            hits.append((os.path.relpath(f, LEAN), m.group(0).strip()))
    return hits


def theorems_in(module_file):
    """Names (fully qualified) of theorems declared in a Props file."""
    txt = strip_lean_comments(open(module_file).read())
    ns = []
    names = []
    for line in txt.split("\n"):
        m = re.match(r"\s*namespace\s+(\S+)", line)
        if m:
            ns.append(m.group(1))
            continue
        m = re.match(r"\s*end\s+(\S+)", line)
        if m and ns and ns[-1].split(".")[-1] == m.group(1).split(".")[-1]:
            ns.pop()
            continue
        m = re.match(r"\s*(?:@\[[^\]]*\]\s*)?(?:private\s+|protected\s+)?theorem\s+(\S+)", line)
        if m:
            names.append(".".join(ns + [m.group(1)]))
    return names


def audit(prop):
    """#print axioms for every theorem of Props/<prop>.lean.  Returns dict name->axioms list, raises on problems."""
    pf = os.path.join(LEAN, "ArgoVerif", "Props", prop + ".lean")
    names = theorems_in(pf)
    aud = os.path.join(BUILD, "audit", prop + ".lean")
    body = "import ArgoVerif.Props.%s\n" % prop + "".join("#print axioms %s\n" % n for n in names)
    write_if_changed(aud, body)
    with Lock("lake"):
        rc, out = sh(["lake", "env", "lean", aud], cwd=LEAN, timeout=1200)
    res = {}
    cur = None
    for line in out.split("\n"):
        m = re.match(r"'([^']+)' depends on axioms: \[(.*)$", line)
        if m:
            cur = m.group(1)
            rest = m.group(2)
            res[cur] = []
            buf = rest
            if "]" in buf:
                res[cur] = [a.strip() for a in buf.split("]")[0].split(",") if a.strip()]
                cur = None
            else:
                res[cur] = [a.strip() for a in buf.split(",") if a.strip()]
            continue
        m = re.match(r"'([^']+)' does not depend on any axioms", line)
        if m:
            res[m.group(1)] = []
            cur = None
            continue
        if cur is not None:
            seg = line
            done = "]" in seg
            seg = seg.split("]")[0]
            res[cur] += [a.strip() for a in seg.split(",") if a.strip()]
            if done:
                cur = None
    problems = []
    if rc != 0:
        problems.append("audit lean run failed: " + out[-2000:])
    for n in names:
        if n not in res:
            problems.append("no axiom report for " + n)
        else:
            bad = [a for a in res[n] if a not in ALLOWED_AXIOMS]
            if bad:
                problems.append("%s depends on disallowed axioms %s" % (n, bad))
    return names, res, problems


# --------------------------------------------------------------------------
# results
# --------------------------------------------------------------------------
class Result:
    def __init__(self, prop, tier, seed):
        self.prop, self.tier, self.seed = prop, tier, seed
        self.t0 = time.time()
        self.violations = []   # (replay_path, no_input)
        self.known = []
        self.cov = {}
        self.assumptions = []
        self.samples = []
        self.notes = []

    def add_cov(self, **kw):
        for k, v in kw.items():
            if isinstance(v, (int, float)) and isinstance(self.cov.get(k), (int, float)):
                self.cov[k] += v
            else:
                self.cov[k] = v

    def sample(self, s, cap=6):
        if len(self.samples) < cap:
            self.samples.append(s)

    def violation(self, what, replay_obj, no_input=False):
        os.makedirs(REPLAYS, exist_ok=True)
        n = len(self.violations)
        path = os.path.join(REPLAYS, "%s-%s-%d-%d.json" % (self.prop, self.tier, self.seed, n))
        obj = {"property": self.prop, "what": what, "seed": self.seed, "tier": self.tier}
        obj.update(replay_obj)
        if no_input:
            obj["no_failing_input_found"] = True
        with open(path, "w") as f:
            json.dump(obj, f, indent=1, default=str)
        self.violations.append((path, no_input, what))
        print("VIOLATION property=%s replay=%s%s" % (self.prop, path, " no-failing-input-found" if no_input else ""))
        sys.stdout.flush()

    def known_finding(self, what):
        self.known.append(what)
        print("KNOWN-FINDING: property=%s %s" % (self.prop, what))

    def write_evidence(self, level="proof"):
        os.makedirs(EVID, exist_ok=True)
        cov = dict(self.cov)
        cov["samples"] = self.samples if self.samples else ["(no dynamic sample in this run)"]
        ev = {
            "property_id": self.prop, "tier": self.tier, "seed": self.seed, "level": level,
            "coverage": cov, "assumptions": self.assumptions,
            "wall_s": round(time.time() - self.t0, 2), "violations": len(self.violations),
        }
        if self.known:
            ev["known_findings"] = self.known
        if self.notes:
            ev["notes"] = self.notes
        with open(os.path.join(EVID, self.prop + ".json"), "w") as f:
            json.dump(ev, f, indent=1, default=str)


def known_findings():
    p = os.path.join(VERIF, "KNOWN_FINDINGS.json")
    if not os.path.exists(p):
        return []
    return json.load(open(p)).get("findings", [])


def open_findings(prop):
    return [f for f in known_findings() if f.get("property") == prop and f.get("status") == "open"]


def run_open_finding_programs(res):
    """Open known findings that come with a repro program (KNOWN_FINDINGS.json: program / argv / expect_rc): the program
    is compiled against the current tree and run.  The recorded failure prints KNOWN-FINDING (exit code unaffected); any
    other failure of the program is a violation; if it passes the finding no longer reproduces (reported in the evidence)."""
    import subprocess
    for f in open_findings(res.prop):
        prog = f.get("program")
        if not prog:
            continue
        exe = cc_harness("open_" + os.path.basename(prog).rsplit(".", 1)[0], [os.path.join(VERIF, prog)], "plain")
        try:
            p = subprocess.run([exe] + list(f.get("argv", [])), stdout=subprocess.PIPE, stderr=subprocess.STDOUT, timeout=90)
            rc, out = p.returncode, p.stdout.decode("utf-8", "replace")
        except subprocess.TimeoutExpired:
            rc, out = -999, "timeout"
        if rc in f.get("expect_rc", []):
            res.known_finding(f["what"])
            res.add_cov(**{"open_finding_%s" % f["id"]: "reproduces (rc %s)" % rc})
        elif rc == 0:
            res.add_cov(**{"open_finding_%s" % f["id"]: "no longer reproduces"})
        else:
            res.violation("repro program of open finding %s fails in a way that is not the recorded one (exit %s)" % (f["id"], rc),
                          {"corpus": prog, "argv": f.get("argv", []), "exit": rc, "output": out[-1500:]})


class Rng:
    """xorshift64* - same generator is implemented in C harnesses where needed."""
    def __init__(self, seed):
        self.s = (seed * 0x9E3779B97F4A7C15 + 0x1234567) & 0xFFFFFFFFFFFFFFFF or 1

    def next(self):
        x = self.s
        x ^= (x >> 12)
        x ^= (x << 25) & 0xFFFFFFFFFFFFFFFF
        x ^= (x >> 27)
        self.s = x
        return (x * 0x2545F4914F6CDD1D) & 0xFFFFFFFFFFFFFFFF

    def below(self, n):
        return self.next() % n

    def choice(self, xs):
        return xs[self.below(len(xs))]

    def chance(self, num, den):
        return self.below(den) < num
