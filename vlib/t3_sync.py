"""T3 projections for the barrier / eventual / future models (C08, C09).

A vsched log is projected onto the event vocabulary of Model.Barrier / Model.XBarrier / Model.Eventual /
Model.Future: API call/return lines written by the scenario, the test-and-set / clear of the object's
spinlock (with the `P` snapshot taken at the clear), wait-list enqueue (E 50) and dequeue (E 52) events, for
futures the atomic loads / stores of the counter and the begin / end of the callback, for barriers the loads / stores of
the wait-list's futex generation word, for eventuals and futures ABT_*_free as an operation of the protocol (it takes
the lock and never releases it).  The driver accepts or rejects the projected trace."""
from . import t3

KIND = {"ult": "u", "task": "t", "ext": "e"}


class _Proj:
    """actor attribution shared by all projections"""

    def __init__(self, log, obj):
        self.log = log
        self.obj = obj
        self.out = []
        self.src = []
        self.ext_actor = {}      # tid -> actor id (external threads)
        self.susp_on_tid = {}    # tid -> actor whose suspension callback runs on that stream's scheduler context
        self.node_actor = {}     # wait-list node name -> actor (most recent enqueue)
        self.cur_op = {}         # actor -> API operation in progress on this object

    def kinds(self):
        return " ".join("%d:%s" % (i, KIND.get(a.get("kind"), "u")) for i, a in sorted(self.log.actors.items()))

    def actor_of(self, ev):
        u = ev.get("unit", "-")
        if u.startswith("A") and u[1:].isdigit():
            return int(u[1:])
        tid = ev["tid"]
        if u == "-" and tid in self.ext_actor:
            return self.ext_actor[tid]
        if tid in self.susp_on_tid:
            return self.susp_on_tid[tid]
        return None

    def emit(self, line, ev):
        self.out.append(line)
        self.src.append(ev["ln"])

    def freed(self, ev):
        """the scenario announces ABT_*_free of the object: the protocol ends there (free takes the lock and
        releases the memory without unlocking) — for models without a `free` operation"""
        return ev["t"] == "S" and ev["txt"][:3] == ["apiCall", "free", self.obj]

    def gone(self, ev):
        """ABT_*_free has returned: nothing that follows can be an event of this object"""
        return ev["t"] == "S" and ev["txt"][:3] == ["apiRet", "free", self.obj]

    def track(self, ev):
        """bookkeeping common to all objects; returns True if the event was consumed"""
        t = ev["t"]
        if t == "S":
            txt = ev["txt"]
            if txt and txt[0] == "userStart" and ev["unit"] == "-":
                self.ext_actor[ev["tid"]] = int(txt[1][1:])
                return True
        elif t == "E":
            k = ev["kind"]
            if k == 9 and ev["p1"].startswith("A") and ev["p1"][1:].isdigit():
                self.susp_on_tid[ev["tid"]] = int(ev["p1"][1:])
            elif k == 5 and ev["tid"] in self.susp_on_tid:
                self.susp_on_tid.pop(ev["tid"], None)
        return False

    def snap_after(self, i):
        """the `P` snapshot printed right after atomic event i on this object"""
        evs = self.log.events
        if i + 1 < len(evs) and evs[i + 1]["t"] == "P" and evs[i + 1]["name"] == self.obj:
            return evs[i + 1]["hex"]
        return None

    def waitlist(self, ev, wl_loc):
        """E 50 / E 52 on this object's wait-list -> enq / wake"""
        k = ev["kind"]
        if ev["p1"] != wl_loc:
            return
        a = self.actor_of(ev)
        if a is None:
            a = 999999
        if k == 50:
            self.node_actor[ev["p2"]] = a
            self.emit("enq %d" % a, ev)
        elif k == 52:
            self.emit("wake %d %d" % (a, self.node_actor.get(ev["p2"], 999999)), ev)
        elif k == 51:
            self.emit("timeout %d" % a, ev)   # not part of these models: rejected as bad-op


def project_barrier(log, name="B0"):
    p = _Proj(log, name)
    o_lock = log.off("ABTI_barrier", "lock")
    o_cnt, s_cnt = log.offs[("ABTI_barrier", "counter")]
    o_nw, s_nw = log.offs[("ABTI_barrier", "num_waiters")]
    o_wl = log.off("ABTI_barrier", "waitlist")
    o_head, s_head = log.offs[("ABTI_waitlist", "p_head")]
    o_fut = o_wl + log.off("ABTI_waitlist", "futex")
    wl_loc = "%s+%d" % (name, o_wl)
    holder = None          # actor whose test-and-set of the barrier lock succeeded last (None after the clear)
    enqd = set()           # actors between their enqueue and the return of their wait
    nw0 = log.objs.get(name, {}).get("nw", "1")
    p.out.append("init %s %s" % (nw0, p.kinds()))
    p.src.append(0)
    for i, ev in enumerate(log.events):
        if p.freed(ev):
            break
        if p.track(ev):
            continue
        t = ev["t"]
        if t == "S":
            txt = ev["txt"]
            if txt[0] in ("apiCall", "apiRet") and len(txt) >= 3 and txt[2] == name:
                a = p.actor_of(ev)
                if a is None:
                    continue
                if txt[0] == "apiCall":
                    p.emit("call %d" % a, ev)
                else:
                    enqd.discard(a)
                    p.emit("ret %d %s" % (a, txt[3]), ev)
            elif txt[0] == "reinit" and len(txt) >= 4 and txt[1] == name:
                p.emit("reinit %s %s" % (txt[2], txt[3]), ev)
        elif t == "E":
            if ev["kind"] == 50 and ev["p1"] == wl_loc:
                enqd.add(p.actor_of(ev))
            p.waitlist(ev, wl_loc)
        elif t == "A":
            oname, off = t3.split_loc(ev["loc"])
            if oname != name:
                continue
            if off != o_lock:
                a = p.actor_of(ev)
                if ev["op"] == "load":
                    if off == o_fut:
                        # the futex generation word: a queued non-ULT waiter that holds the lock samples it before it
                        # sleeps; every other load (the sleeper's re-check, the broadcaster's read) is an observation
                        if a is not None and a == holder and a in enqd:
                            p.emit("fsamp %d %d" % (a, ev["cur"]), ev)
                        else:
                            p.emit("obsF %d" % ev["cur"], ev)
                    continue
                # a store inside the critical section (futex word of the broadcast): its snapshot shows the plain fields
                hx = p.snap_after(i)
                if hx is not None:
                    p.emit("obs %d %d" % (t3.Log.snap_int(hx, o_cnt, s_cnt), t3.Log.snap_int(hx, o_nw, s_nw)), ev)
                if off == o_fut and ev["op"] == "store":
                    p.emit("obsF %d" % ev["cur"], ev)
                    p.emit("fbump %d %d" % (a if a is not None else 999999, ev["a"]), ev)
                else:
                    p.emit("unexpected-write %s at %s+%d" % (ev["op"], name, off), ev)
                continue
            a = p.actor_of(ev)
            op = ev["op"]
            if op == "tas":
                if not ev["cur"]:
                    holder = a
                p.emit("acq %d %d" % (a if a is not None else 999999, 1 if ev["cur"] else 0), ev)
            elif op == "clear":
                holder = None
                hx = p.snap_after(i)
                if hx is None:
                    p.emit("rel-without-snapshot", ev)
                    continue
                c = t3.Log.snap_int(hx, o_cnt, s_cnt)
                nw = t3.Log.snap_int(hx, o_nw, s_nw)
                head = t3.Log.snap_int(hx, o_wl + o_head, s_head)
                p.emit("rel %d %d %d %d" % (a if a is not None else 999999, c, nw, 1 if head == 0 else 0), ev)
            elif op == "load":
                p.emit("obsLock %d" % (1 if ev["cur"] else 0), ev)
            else:
                p.emit("unexpected-op-on-lock %s" % op, ev)
    return p.out, p.src


def project_xbarrier(log, name="X0"):
    p = _Proj(log, name)
    p.out.append("init %s" % log.objs.get(name, {}).get("nw", "1"))
    p.src.append(0)
    for ev in log.events:
        if p.freed(ev):
            break
        if p.track(ev):
            continue
        if ev["t"] == "S":
            txt = ev["txt"]
            if txt[0] in ("apiCall", "apiRet") and len(txt) >= 3 and txt[2] == name:
                a = p.actor_of(ev)
                if a is None:
                    continue
                if txt[0] == "apiRet" and txt[3] != "ok":
                    p.emit("ret-with-error %s" % txt[3], ev)
                else:
                    p.emit("%s %d" % ("call" if txt[0] == "apiCall" else "ret", a), ev)
    return p.out, p.src


def project_eventual(log, name="E0"):
    p = _Proj(log, name)
    o_lock = log.off("ABTI_eventual", "lock")
    o_ready, s_ready = log.offs[("ABTI_eventual", "ready")]
    o_wl = log.off("ABTI_eventual", "waitlist")
    o_head, s_head = log.offs[("ABTI_waitlist", "p_head")]
    wl_loc = "%s+%d" % (name, o_wl)
    attrs = log.objs.get(name, {})
    p.out.append("init %s %s %s" % (attrs.get("nbytes", "0"), attrs.get("v0", "-"), p.kinds()))
    p.src.append(0)
    done = False
    for i, ev in enumerate(log.events):
        if done:
            break
        done = p.gone(ev)      # ABT_*_free returned: the `ret` below is the last event of this object
        if p.track(ev):
            continue
        t = ev["t"]
        if t == "S":
            txt = ev["txt"]
            if txt[0] in ("apiCall", "apiRet") and len(txt) >= 3 and txt[2] == name:
                a = p.actor_of(ev)
                if a is None:
                    continue
                op = txt[1]
                if txt[0] == "apiCall":
                    p.emit("call %d %s %s" % (a, op, txt[3] if len(txt) > 3 else "-"), ev)
                elif op == "test":
                    p.emit("ret %d test %s %s %s" % (a, txt[3], txt[4], txt[5]), ev)
                else:
                    p.emit("ret %d %s %s 0 %s" % (a, op, txt[3], txt[4] if len(txt) > 4 else "-"), ev)
        elif t == "E":
            p.waitlist(ev, wl_loc)
        elif t == "A":
            oname, off = t3.split_loc(ev["loc"])
            if oname != name:
                continue
            if off != o_lock:
                # a store inside the critical section (futex word of the broadcast): its snapshot shows `ready`
                hx = p.snap_after(i) if ev["op"] != "load" else None
                if hx is not None:
                    r = t3.Log.snap_int(hx, o_ready, s_ready)
                    p.emit("obs %d" % r if r in (0, 1) else "ready-flag-is-%d" % r, ev)
                continue
            a = p.actor_of(ev)
            a = a if a is not None else 999999
            op = ev["op"]
            if op == "tas":
                p.emit("acq %d %d" % (a, 1 if ev["cur"] else 0), ev)
            elif op == "clear":
                hx = p.snap_after(i)
                if hx is None:
                    p.emit("rel-without-snapshot", ev)
                    continue
                r = t3.Log.snap_int(hx, o_ready, s_ready)
                head = t3.Log.snap_int(hx, o_wl + o_head, s_head)
                if r not in (0, 1):
                    p.emit("ready-flag-is-%d" % r, ev)
                    continue
                p.emit("rel %d %d %d" % (a, r, 1 if head == 0 else 0), ev)
            elif op == "load":
                p.emit("obsLock %d" % (1 if ev["cur"] else 0), ev)
            else:
                p.emit("unexpected-op-on-lock %s" % op, ev)
    return p.out, p.src


def project_future(log, name="F0"):
    p = _Proj(log, name)
    o_lock = log.off("ABTI_future", "lock")
    o_cnt, s_cnt = log.offs[("ABTI_future", "counter")]
    o_n, s_n = log.offs[("ABTI_future", "num_compartments")]
    o_wl = log.off("ABTI_future", "waitlist")
    o_head, s_head = log.offs[("ABTI_waitlist", "p_head")]
    wl_loc = "%s+%d" % (name, o_wl)
    attrs = log.objs.get(name, {})
    p.out.append("init %s %s %s" % (attrs.get("n", "0"), attrs.get("cb", "1"), p.kinds()))
    p.src.append(0)
    done = False
    for i, ev in enumerate(log.events):
        if done:
            break
        done = p.gone(ev)      # ABT_*_free returned: the `ret` below is the last event of this object
        if p.track(ev):
            continue
        t = ev["t"]
        if t == "S":
            txt = ev["txt"]
            if txt[0] in ("apiCall", "apiRet") and len(txt) >= 3 and txt[2] == name:
                a = p.actor_of(ev)
                if a is None:
                    continue
                op = txt[1]
                if txt[0] == "apiCall":
                    p.cur_op[a] = op
                    p.emit("call %d %s %s" % (a, op, txt[3] if len(txt) > 3 else "-"), ev)
                else:
                    p.cur_op.pop(a, None)
                    p.emit("ret %d %s %s %s" % (a, op, txt[3], txt[4] if op == "test" else "0"), ev)
            elif txt[0] == "cbBegin" and len(txt) >= 2 and txt[1] == name:
                a = p.actor_of(ev)
                p.emit("cbBegin %d" % (a if a is not None else 999999), ev)
            elif txt[0] == "cb" and len(txt) >= 2 and txt[1] == name:
                a = p.actor_of(ev)
                p.emit("cb %d %s" % (a if a is not None else 999999, " ".join(txt[2:])), ev)
            elif txt[0] == "arr" and len(txt) >= 2 and txt[1] == name:
                p.emit(("arr " + " ".join(txt[2:])).strip(), ev)
        elif t == "E":
            p.waitlist(ev, wl_loc)
        elif t == "A":
            oname, off = t3.split_loc(ev["loc"])
            if oname != name:
                continue
            a = p.actor_of(ev)
            op = ev["op"]
            if off == o_lock:
                a = a if a is not None else 999999
                if op == "tas":
                    p.emit("acq %d %d" % (a, 1 if ev["cur"] else 0), ev)
                elif op == "clear":
                    hx = p.snap_after(i)
                    if hx is None:
                        p.emit("rel-without-snapshot", ev)
                        continue
                    c = t3.Log.snap_int(hx, o_cnt, s_cnt)
                    n = t3.Log.snap_int(hx, o_n, s_n)
                    head = t3.Log.snap_int(hx, o_wl + o_head, s_head)
                    p.emit("rel %d %d %d %d" % (a, c, n, 1 if head == 0 else 0), ev)
                elif op == "load":
                    p.emit("obsLock %d" % (1 if ev["cur"] else 0), ev)
                else:
                    p.emit("unexpected-op-on-lock %s" % op, ev)
            elif off == o_cnt:
                if op == "load":
                    cur = p.cur_op.get(a) if a is not None else None
                    if cur == "test":
                        p.emit("tload %d %d" % (a, ev["cur"]), ev)
                    elif cur in ("set", "wait"):
                        p.emit("ldCnt %d %d" % (a, ev["cur"]), ev)
                    else:
                        p.emit("obsCnt %d" % ev["cur"], ev)
                elif op == "store":
                    p.emit("obsCnt %d" % ev["cur"], ev)     # the value the store overwrites
                    p.emit("stCnt %d %d" % (a if a is not None else 999999, ev["a"]), ev)
                else:
                    p.emit("unexpected-op-on-counter %s" % op, ev)
            elif op != "load":
                # futex word of the broadcast, inside the critical section: the counter has been stored by now
                hx = p.snap_after(i)
                if hx is not None:
                    p.emit("obsCnt %d" % t3.Log.snap_int(hx, o_cnt, s_cnt), ev)
    return p.out, p.src


def validate_with(model, project, lg, name):
    """-> (rejects, transitions, nlines) for vs.campaign"""
    lines, src = project(lg, name)
    rej, tr, drc = t3.run_driver(model, lines)
    rejects = []
    if rej or drc != 0 or not tr:
        idx = 0
        if rej:
            try:
                idx = int(rej.split()[1]) + 1      # +1: the init line is not counted by the driver
            except ValueError:
                idx = 0
        rejects.append({"model": "Model." + model.capitalize(), "object": name,
                        "reject": rej or ("driver rc=%d" % drc if drc else "driver printed no END line"),
                        "log_line": src[idx] if idx < len(src) else None,
                        "projected_context": lines[max(0, idx - 14): idx + 2]})
    return rejects, set(tr), len(lines)
