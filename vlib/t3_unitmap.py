"""T3 projection for C14 (bucket-lock discipline): vsched log of harness/sc_unitmap.c -> event lines of
`driver unitmaplock` (Model.UnitMapLock).  Every test-and-set / clear on a bucket spinlock of the runtime's unit table
(named UT) is an event; the actor is the OS thread (an operation on the table never changes threads)."""
import time
from . import t3


def project(log):
    out, src = ["init"], []
    geo = None
    for ev in log.events:
        if ev["t"] == "S":
            x = ev["txt"]
            if len(x) >= 2 and x[0] == "ut" and x[1] == "table":
                geo = {k: int(v) for k, v in (w.split("=") for w in x[2:])}
        elif ev["t"] == "A" and geo:
            name, off = t3.split_loc(ev["loc"])
            if name != "UT":
                continue
            b, rel = off // geo["entry"], off % geo["entry"]
            if rel != geo["lock"]:
                continue
            op, a = ev["op"], ev["tid"]
            if op == "tas":
                out.append("%s %d %d" % ("acquire" if ev["cur"] == 0 else "spin", a, b))
            elif op == "clear":
                out.append("release %d %d" % (a, b))
            elif op == "load":
                continue
            else:
                out.append("%s-on-bucket-lock %d %d" % (op, a, b))
            src.append(ev["ln"])
    return out, src


def validate(lg, params):
    lines, src = project(lg)
    for attempt in range(60):
        try:
            rej, trans, drc = t3.run_driver("unitmaplock", lines)
            break
        except FileNotFoundError:
            time.sleep(2)
    else:
        rej, trans, drc = t3.run_driver("unitmaplock", lines)
    rejects = []
    if rej or drc != 0:
        idx = int(rej.split()[1]) + 1 if rej else 0
        rejects.append({"model": "Model.UnitMapLock", "object": "unit table bucket locks", "reject": rej or "driver rc=%d" % drc,
                        "log_line": src[idx - 1] if 0 < idx <= len(src) else None,
                        "projected_context": lines[max(0, idx - 10): idx + 2]})
    return rejects, set(trans), len(lines)
