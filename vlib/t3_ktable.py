"""T3 projection for C16 (concurrent half): vsched log of harness/sc_ktable.c -> event lines of `driver ktableconc`
(Model.KTableConc).

What is in the log: `kt ...` notes of the scenario (table geometry, element names with raw addresses, begin/end of
every set/get call with actor, key, value) and the atomic operations on the named objects KT (bucket heads, table
spinlock) and KE<n> (chain links).  Under vsched the plain `value` store / read executes atomically with the atomic
operation that precedes it, so `storeVal` / `readVal` are emitted right after the load that found the key (or after
the lock release for a key found under the lock)."""
from . import t3


def kv(words):
    return dict(w.split("=", 1) for w in words if "=" in w)


def project(log):
    """Returns (lines, src) where src[i] is the log line number of event line i (after the init line)."""
    out, src = [], []
    tbl = None
    keydt = {}
    elem_raw, raw_elem, raw_key = {}, {}, {}
    pos = {}                 # raw element address -> (bucket, position)
    pre = []
    cur = {}                 # actor -> state of the call in progress
    tid_actor = {}

    def emit(line, ev):
        out.append(line)
        src.append(ev["ln"])

    for ev in log.events:
        t = ev["t"]
        if t == "S":
            x = ev["txt"]
            if len(x) < 2 or x[0] != "kt":
                continue
            if x[1] == "table":
                d = kv(x[2:])
                tbl = {k: int(v) for k, v in d.items()}
            elif x[1] == "key":
                d = kv(x[3:])
                keydt[int(d["id"])] = int(d["dtor"])
            elif x[1] == "elem":
                d = kv(x[3:])
                elem_raw[x[2]] = int(d["raw"])
                raw_elem[int(d["raw"])] = x[2]
                raw_key[int(d["raw"])] = int(d["key"])
            elif x[1] == "pre":
                d = kv(x[3:])
                pre.append((x[2], int(d["key"]), int(d["b"]), int(d["j"]), int(d["dtor"]), ev))
                keydt[int(d["key"])] = int(d["dtor"])
            elif x[1] == "begin":
                a = int(x[2][1:])
                d = kv(x[4:])
                # elements that existed before the log started: built by the non-safe variant on the private table
                for (name, key, b, j, dt, pev) in pre:
                    if name in elem_raw:
                        pos[elem_raw[name]] = (b, j)
                    emit("startSet 99 %d %d 1 0" % (key, dt), pev)
                    for jj in range(j + 1):
                        emit("load 99 %d %d %d" % (b, jj, 1 if jj < j else 0), pev)
                    emit("load 99 %d %d 0" % (b, j), pev)
                    emit("storeLink 99 %d %d" % (b, j), pev)
                    emit("endSet 99 1", pev)
                pre = []
                tid_actor[ev["tid"]] = a
                if x[3] == "set":
                    key = int(d["key"])
                    cur[a] = {"op": "set", "key": key, "locked": False, "pending": False}
                    emit("startSet %d %d %d %s 1" % (a, key, keydt.get(key, 0), d["v"]), ev)
                else:
                    key = int(d["key"])
                    cur[a] = {"op": "get", "key": key}
                    emit("startGet %d %d" % (a, key), ev)
            elif x[1] == "end":
                a = int(x[2][1:])
                d = kv(x[4:])
                if x[3] == "set":
                    emit("endSet %d %d" % (a, 1 if d.get("rc") == "0" else 0), ev)
                else:
                    emit("endGet %d %s" % (a, d["v"]), ev)
                cur.pop(a, None)
                tid_actor.pop(ev["tid"], None)
            elif x[1] == "freed":
                emit("free", ev)
        elif t == "A" and tbl is not None:
            name, off = t3.split_loc(ev["loc"])
            if name != "KT" and not name.startswith("KE"):
                continue
            a = tid_actor.get(ev["tid"])
            st = cur.get(a) if a is not None else None
            op = ev["op"]
            if st is None:
                if op not in ("load",):
                    emit("foreign-%s %s" % (op, ev["loc"]), ev)   # nobody is inside a call, yet the table is written
                continue
            if name == "KT" and off == tbl["lock"]:
                if op == "tas":
                    if ev["cur"] == 0:
                        st["locked"] = True
                        emit("acquire %d" % a, ev)
                elif op == "clear":
                    st["locked"] = False
                    emit("release %d" % a, ev)
                    if st.get("pending"):
                        st["pending"] = False
                        emit("storeVal %d" % a, ev)
                elif op != "load":
                    emit("lock-%s %d" % (op, a), ev)
                continue
            # a chain link
            if name == "KT":
                rel = off - tbl["elems"]
                if rel < 0 or rel % 8 or rel // 8 >= tbl["size"]:
                    emit("strange-access %d %s %s" % (a, op, ev["loc"]), ev)
                    continue
                b, j = rel // 8, 0
            else:
                if off != tbl["next"] or name not in elem_raw:
                    emit("strange-access %d %s %s" % (a, op, ev["loc"]), ev)
                    continue
                raw = elem_raw[name]
                if raw not in pos:
                    if op == "store" and ev["a"] == 0:
                        continue            # initialisation of the still private element's p_next
                    emit("unpublished-access %d %s %s" % (a, op, ev["loc"]), ev)
                    continue
                b, j = pos[raw][0], pos[raw][1] + 1
            if op == "load":
                nn = ev["cur"] != 0
                emit("load %d %d %d %d" % (a, b, j, 1 if nn else 0), ev)
                if nn:
                    if pos.get(ev["cur"]) != (b, j):
                        emit("link-mismatch %d %d %d holds %s" % (a, b, j, raw_elem.get(ev["cur"], "?")), ev)
                        continue
                    if raw_key.get(ev["cur"]) == st["key"]:
                        if st["op"] == "get":
                            emit("readVal %d" % a, ev)
                        elif st["locked"]:
                            st["pending"] = True
                        else:
                            emit("storeVal %d" % a, ev)
            elif op == "store":
                if ev["a"] == 0:
                    emit("null-store %d %d %d" % (a, b, j), ev)
                    continue
                emit("storeLink %d %d %d" % (a, b, j), ev)
                # whatever the model says, remember where the implementation put the element
                pos[ev["a"]] = (b, j)
            else:
                emit("link-%s %d %d %d" % (op, a, b, j), ev)
    size = tbl["size"] if tbl else 1
    init = "init %d %s" % (size, " ".join("%d:%d" % (k, d) for k, d in sorted(keydt.items())))
    return [init] + out, src


def project_keyid(log):
    """Event lines for `driver keyid` (Model.KeyId): calls of ABT_key_create and every atomic access to the id counter."""
    out, src = [], []
    start = 2
    tid_actor = {}
    for ev in log.events:
        t = ev["t"]
        if t == "S":
            x = ev["txt"]
            if len(x) < 2 or x[0] != "kc":
                continue
            if x[1] == "idend":
                start = int(x[2])
            elif x[1] == "begin":
                a = int(x[2][1:])
                tid_actor[ev["tid"]] = a
                out.append("call %d" % a); src.append(ev["ln"])
            elif x[1] == "end":
                a = int(x[2][1:])
                d = kv(x[3:])
                tid_actor.pop(ev["tid"], None)
                out.append("ret %d %s" % (a, d["id"])); src.append(ev["ln"])
        elif t == "A" and ev["loc"] == "GKEYID":
            a = tid_actor.get(ev["tid"])
            if ev["op"] == "fadd" and a is not None:
                out.append("fetchAdd %d %d" % (a, ev["cur"]))
            else:
                # any other access to the counter (separate load / store / access outside ABT_key_create)
                out.append("%s-of-counter %s value=%d arg=%d" % (ev["op"], a, ev["cur"], ev["a"]))
            src.append(ev["ln"])
    return ["init %d" % start] + out, src


def _drive(model, lines):
    import time
    for attempt in range(60):
        try:
            return t3.run_driver(model, lines)
        except FileNotFoundError:       # the shared `driver` binary is being relinked by somebody
            time.sleep(2)
    return t3.run_driver(model, lines)


def validate(lg, params):
    rejects, trans, n = [], set(), 0
    klines, ksrc = project_keyid(lg)
    rej, tr, drc = _drive("keyid", klines)
    n += len(klines)
    trans.update("keyid:" + x for x in tr)
    if rej or drc != 0:
        idx = int(rej.split()[1]) + 1 if rej else 0
        rejects.append({"model": "Model.KeyId", "object": "g_key_id", "reject": rej or "driver rc=%d" % drc,
                        "log_line": ksrc[idx - 1] if 0 < idx <= len(ksrc) else None,
                        "projected_context": klines[max(0, idx - 10): idx + 2]})
    r2, t2, n2 = validate_table(lg, params)
    return rejects + r2, trans | t2, n + n2


def validate_table(lg, params):
    lines, src = project(lg)
    import time
    for attempt in range(60):
        try:
            rej, trans, drc = t3.run_driver("ktableconc", lines)
            break
        except FileNotFoundError:       # the shared `driver` binary is being relinked by somebody
            time.sleep(2)
    else:
        rej, trans, drc = t3.run_driver("ktableconc", lines)
    rejects = []
    if rej or drc != 0:
        idx = int(rej.split()[1]) + 1 if rej else 0
        rejects.append({"model": "Model.KTableConc", "object": "KT", "reject": rej or "driver rc=%d" % drc,
                        "log_line": src[idx - 1] if 0 < idx <= len(src) else None,
                        "projected_context": lines[max(0, idx - 14): idx + 2]})
    return rejects, set(trans), len(lines)
