"""Run the source->Lean translators (T0/T1); files are rewritten only on change."""
import os
from . import common as C


def generate_all():
    info = {}
    with C.Lock("gen"):
        from tools import constgen
        info["consts"] = constgen.generate()
    return info
