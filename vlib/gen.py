"""Run the source->Lean translators (T0/T1); files are rewritten only on change."""
import os
from . import common as C


def generate_all():
    info = {}
    with C.Lock("gen"):
        from tools import constgen
        info["consts"] = constgen.generate()
        from tools import envgen
        info["envtable"] = envgen.generate()
        from tools import asmgen
        info["fcontext"] = asmgen.generate()
        from tools import poolgen
        info["poolends"] = poolgen.generate()
        from tools import laddergen
        info["ladders"] = laddergen.generate()
    return info
