"""Run the source->Lean translators (T0/T1); files are rewritten only on change."""
import os, traceback
from . import common as C


def generate_all():
    """Returns the per-translator summaries.  A translator that cannot translate the current source (a construct
    outside the subset it understands) leaves its previous output in place and is reported under info["errors"]:
    the check treats that as a broken tie and goes on to the failing-input search."""
    info = {}
    errors = []
    with C.Lock("gen"):
        for key, modname in (("consts", "constgen"), ("envtable", "envgen"), ("fcontext", "asmgen"), ("poolends", "poolgen"),
                             ("ladders", "laddergen")):
            try:
                mod = __import__("tools." + modname, fromlist=["generate"])
                info[key] = mod.generate()
            except Exception as ex:      # the source left the translator's subset
                info[key] = {"error": repr(ex)}
                errors.append({"translator": "tools/%s.py" % modname, "error": repr(ex), "trace": traceback.format_exc()[-1200:]})
    if errors:
        info["errors"] = errors
    return info
