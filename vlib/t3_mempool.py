"""T3 projection for C15 (concurrent half): vsched log of harness/sc_mempool.c -> event lines of `driver mempoolconc`
(Model.MemPoolConc).

What is in the log: `mp ...` notes of the scenario.  The scenario interprets every atomic operation on the four shared
words of the global pool while it holds the token, right before the operation executes (names of headers `page.slot`
and of pages by order of allocation; outcome of a tagged-pointer CAS = pointer and tag still are what the thread
loaded), brackets every pool call, and reports page allocations / releases from its own `posix_memalign` / `free`.

Projection rules (the trusted part):
  call / ret notes                      -> call* / ret* events, the `loc` note after a ret -> checkLoc (real chains)
  successful CAS on bucket_lifo         -> pushBucket / popBucket with the first header of the bucket
  successful CAS on mem_page_lifo       -> pushPage (carve + push) / popPage
  load of NULL from a LIFO              -> the empty pop (popBucket a - / popPage a -) unless the same thread's next
                                           operation on that LIFO is a push CAS (then it was the push's own load)
  successful CAS on p_mem_page_empty    -> pushEmpty (carve + push on the empty-page list)
  page obtained / refused               -> allocPage a 1 / 0
  tas (free) / clear of the partial lock-> lockPart / unlockPart + checkPart (real partial_bucket at the release)
  `lifo` notes (real LIFO before a successful update, and at quiescence) -> checkBucketLifo / checkPageLifo
  tear-down: destroyGlobal call -> destroyStart; pop_unsafe store + release of that page -> relLifo p; the load of
  p_mem_page_empty (the code leaves its first loop) -> lifoEmpty; every later release -> relEmpty p; return -> destroyEnd
"""
from . import t3


def actor(w):
    return int(w[1:])


def project(log):
    notes = [ev for ev in log.events if ev["t"] == "S" and ev["txt"] and ev["txt"][0] == "mp"]
    out, src = [], []
    params = {}
    stats = {"lifoAtDestroy": None, "maxPageLifo": 0, "allocfail": 0}

    def emit(line, ev):
        out.append(line)
        src.append(ev["ln"])

    pending_pop = None
    walking = False
    destroying = False
    for i, ev in enumerate(notes):
        x = ev["txt"]
        k = x[1]
        if k == "params":
            params = dict(w.split("=", 1) for w in x[2:])
        elif k == "call":
            a, op = actor(x[2]), x[3]
            if op == "init":
                emit("callInit %d" % a, ev)
            elif op == "alloc":
                emit("callAlloc %d" % a, ev)
            elif op == "free":
                emit("callFree %d %s" % (a, x[4]), ev)
            elif op == "destroy":
                emit("callDestroy %d" % a, ev)
            elif op == "destroyGlobal":
                destroying = True
                emit("destroyStart", ev)
            else:
                emit("unknown-call %s" % op, ev)
        elif k == "ret":
            a, op = actor(x[2]), x[3]
            if op == "init":
                emit("retInit %d %s" % (a, x[4]), ev)
            elif op == "alloc":
                emit("retAlloc %d %s" % (a, x[4]), ev)
            elif op == "free":
                emit("retFree %d" % a, ev)
            elif op == "destroy":
                emit("retDestroy %d" % a, ev)
            elif op == "destroyGlobal":
                if pending_pop is not None:
                    emit("popped-page-not-released %s" % pending_pop, ev)
                emit("destroyEnd", ev)
            else:
                emit("unknown-ret %s" % op, ev)
        elif k == "loc":
            emit("checkLoc %d %s" % (actor(x[2]), " ".join(x[3:])), ev)
        elif k == "lifo":
            if x[2] == "B":
                emit("checkBucketLifo %s" % x[3], ev)
            else:
                emit("checkPageLifo %s" % x[3], ev)
                if x[3] != "-":
                    stats["maxPageLifo"] = max(stats["maxPageLifo"], len(x[3].split(",")))
        elif k == "ld":
            L, a, ptr = x[2], actor(x[3]), x[4]
            if ptr != "-":
                continue
            if destroying:
                continue            # tear-down leaves its first loop: projected at the load of p_mem_page_empty
            nxt = None
            for ev2 in notes[i + 1:]:
                y = ev2["txt"]
                if y[1] in ("ld", "cas", "st") and len(y) > 3 and y[3] == x[3] and y[2] == L:
                    nxt = y
                    break
                if len(y) > 2 and y[2] == x[3] and y[1] in ("ret", "call", "tas", "clear", "page", "ecas"):
                    nxt = y
                    break
            if nxt is not None and nxt[1] == "cas" and nxt[2] == L and nxt[5] == "push":
                continue            # the load of a push
            emit(("popBucket %d -" if L == "B" else "popPage %d -") % a, ev)
        elif k == "cas":
            L, a, ok, kind, elem = x[2], actor(x[3]), x[4], x[5], x[6]
            if ok != "ok":
                continue
            if L == "B":
                emit("%s %d %s" % ("pushBucket" if kind == "push" else "popBucket", a, elem), ev)
            else:
                emit("%s %d %s" % ("pushPage" if kind == "push" else "popPage", a, elem), ev)
        elif k == "st":
            L, a, kind, elem = x[2], actor(x[3]), x[4], x[5]
            if destroying and L == "P" and kind == "pop":
                if pending_pop is not None:
                    emit("popped-page-not-released %s" % pending_pop, ev)
                pending_pop = elem
            else:
                emit("plain-store-on-lifo %s %d %s %s" % (L, a, kind, elem), ev)
        elif k == "relpage":
            p = x[2]
            if pending_pop == p:
                pending_pop = None
                emit("relLifo %s" % p, ev)
            elif walking:
                emit("relEmpty %s" % p, ev)
            else:
                emit("release-of-a-page-not-taken-from-a-list %s" % p, ev)
        elif k == "eld":
            if not walking:
                walking = True
                emit("lifoEmpty", ev)
        elif k == "ecas":
            a, ok, p = actor(x[2]), x[3], x[4]
            if ok == "ok":
                emit("pushEmpty %d %s" % (a, p), ev)
        elif k == "tas":
            if x[3] == "ok":
                emit("lockPart %d" % actor(x[2]), ev)
        elif k == "clear":
            emit("unlockPart %d" % actor(x[2]), ev)
            emit("checkPart %s" % x[3], ev)
        elif k == "page":
            a = actor(x[2])
            if x[3] == "ok":
                emit("allocPage %d 1" % a, ev)
            else:
                stats["allocfail"] += 1
                emit("allocPage %d 0" % a, ev)
        elif k == "lifoAtDestroy":
            stats["lifoAtDestroy"] = int(x[2])
    init = "init %s %s" % (params.get("per", "1"), params.get("slots", "1"))
    return [init] + out, src, stats


def validate(lg, params):
    lines, src, stats = project(lg)
    import time
    for attempt in range(60):
        try:
            rej, trans, drc = t3.run_driver("mempoolconc", lines)
            break
        except FileNotFoundError:       # the shared `driver` binary is being relinked by somebody
            time.sleep(2)
    else:
        rej, trans, drc = t3.run_driver("mempoolconc", lines)
    rejects = []
    if rej or drc != 0:
        idx = int(rej.split()[1]) + 1 if rej else 0
        rejects.append({"model": "Model.MemPoolConc", "object": "global memory pool", "reject": rej or "driver rc=%d" % drc,
                        "log_line": src[idx - 1] if 0 < idx <= len(src) else None,
                        "projected_context": lines[max(0, idx - 14): idx + 2]})
    trans = set(trans)
    if stats["lifoAtDestroy"] is not None:
        trans.add("teardown:pageLifo=%s" % ("0" if stats["lifoAtDestroy"] == 0 else "1" if stats["lifoAtDestroy"] == 1 else ">=2"))
    if stats["allocfail"]:
        trans.add("env:page-allocation-failed")
    validate.last_stats = stats
    return rejects, trans, len(lines)


validate.last_stats = {}
