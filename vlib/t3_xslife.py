"""T3 projection for C17 (life cycle): vsched trace of harness/sc_xslife.c (REAL library, native threads of the secondary
streams controlled too) -> lines of `driver xslife` (Lean Model.XsLife over Model.XsCtx), one model run per stream life.

Which log line is which model event (stream X<i>, its main scheduler X<i>.sched, the scheduler's ULT X<i>.schedU, pool
P<i>; N = the OS thread created inside the `create` call of this life; C = the actor whose life-cycle call is in flight):

  S xl life X<i> ..                                  init                        S xl call/ret a join|revive|free   call / ret
  A for   X.sched+request   FINISH   by C in join    jFin                        by N                               nSetFin
  A for   X.sched+request   EXIT     by N            nSetExit
  A load  X.schedU+state             by C in join    jLoadM 0|1                  by C in revive                     rLoadM 0|1
  A for   X.schedU+request  JOIN     by C in join    jSetJ       (by N, when the scheduler's ULT terminates without a
                                                                  joiner: Model.Join's subject, not projected)
  A for   X.schedU+request  CANCEL   by N in a unit  nRunExit                    by anybody else                    cancel
  A load  X.schedU+request  != 0     by N, directly followed by its fetch_or on X.sched+request      nLoadReq j c
                                     (the same load in thread_main_sched_func posts nothing and is not projected; loads
                                      of 0 are no-ops of the model)
  A store X.sched+request   0        by C in revive  rReset
  A store X.schedU+state    READY    by C in revive  rReady                      TERMINATED by N                    nMTerm
  A store X.schedU+request  0        by C in revive  rClear
  E 20    <root pool> X.schedU       by C in revive  rPush                       E 20 P<i> <unit>                   push
  A store X+state           RUNNING  by C in revive  rPub                        TERMINATED by N                    nPubTerm
  A load  X+state                    by C after the context join of its join     jPub 0|1     any other             getState 0|1
  A load  X.schedU+request           by N on the root ULT (ABTI_ythread_schedule's request check)   nRoot <CANCEL bit>
  E 6 X.schedU (the main scheduler's function returned)  nFinish
  S xl unit X<i> k                   nRun
  M lock / R condwait / R condret + M lock / M unlock / W cond on X+ctx.state_lock / state_cond
                                     lock / wait / relock / unlock / signal  <T|C>  with the context state word logged
                                     right after the line (`xl ctx X<i> <state>`); the `M unlock` inside a condwait belongs
                                     to the wait
  S xl ret a free                    pjoin, ret free   (pthread_join of the native thread returned inside the call)
Once the join inside ABT_xstream_free is complete (its jPub), ABTI_xstream_free releases X.sched / X.schedU / X.rootU / P;
their memory can be recycled by other threads before the names are dropped at the return of the call, so from that point
only the context lines of the life are projected (the model has no other step there either).
The model (and the driver's insertion rules, see Driver/XsLife.lean) decide whether the sequence is a behaviour."""
import collections, re
from . import t3

MAIN_ID, EXT_ID = 99, 0
FINISH, EXIT = 1, 2
JOIN, CANCEL = 1, 2
READY, TERMINATED_T = 0, 3
X_RUNNING, X_TERMINATED = 0, 1


class Proj:
    def __init__(self):
        self.lines, self.src, self.stream = [], [], []
        self.stats = collections.Counter()


def _loc(loc):
    if "+" in loc:
        n, o = loc.rsplit("+", 1)
        if o.isdigit():
            return n, int(o)
    return loc, 0


def project(path):
    raw = []
    offs = {}
    with open(path, errors="replace") as f:
        for ln, line in enumerate(f):
            w = line.rstrip("\n").split(" ")
            if w[0] == "S" and len(w) >= 8 and w[3] == "O":
                offs[(w[4], w[5])] = int(w[6])
                continue
            raw.append((ln, w))
    pr = Proj()
    need = [("ABTI_xstream", "state"), ("ABTI_xstream", "ctx"), ("ABTD_xstream_context", "state_lock"),
            ("ABTD_xstream_context", "state_cond"), ("ABTI_sched", "request"), ("ABTI_thread", "state"), ("ABTI_thread", "request")]
    for k in need:
        if k not in offs:
            pr.lines.append("missing-offset %s.%s" % k)
            pr.src.append(0)
            pr.stream.append("?")
            return pr
    o_pub = offs[("ABTI_xstream", "state")]
    o_lock = offs[("ABTI_xstream", "ctx")] + offs[("ABTD_xstream_context", "state_lock")]
    o_cond = offs[("ABTI_xstream", "ctx")] + offs[("ABTD_xstream_context", "state_cond")]
    o_sreq = offs[("ABTI_sched", "request")]
    o_tst = offs[("ABTI_thread", "state")]
    o_treq = offs[("ABTI_thread", "request")]

    per = collections.defaultdict(list)      # stream name -> [(line, src ln)]
    ext_tid = None
    tid_actor = {0: MAIN_ID}                  # OS thread -> API actor (for lines without a unit column)
    inflight = {}                             # actor -> [stream, op, phase]
    creating = {}                             # tid of a creating actor -> [native tids created since its call line]
    S = {}                                    # stream -> state of the current life

    def emit(x, line, ln):
        per[x].append((line, ln))

    def actor_of(tid, unit):
        if unit == "A%d" % MAIN_ID:
            return MAIN_ID
        if unit == "-" and tid == ext_tid:
            return EXT_ID
        return None

    def next_of_tid(i, tid):
        for ln2, w2 in raw[i + 1:]:
            if len(w2) > 1 and w2[1] == str(tid) and w2[0] in ("A", "E", "S", "M", "R", "W"):
                return w2
        return None

    def ctx_word(i, x):
        for ln2, w2 in raw[i + 1: i + 3]:
            if w2[0] == "S" and len(w2) >= 7 and w2[3] == "xl" and w2[4] == "ctx" and w2[5] == x:
                return w2[6]
        return "UNLOGGED"

    for i, (ln, w) in enumerate(raw):
        t = w[0]
        if t == "T" and len(w) >= 5 and w[2] == "create":
            m = int(w[4])
            if m in creating:
                creating[m].append(int(w[1]))
            continue
        if t == "S" and len(w) >= 4:
            tid, unit, txt = int(w[1]), w[2], w[3:]
            if txt[0] == "userStart" and unit == "-":
                ext_tid = tid
                tid_actor[tid] = EXT_ID
                continue
            if txt[0] != "xl":
                continue
            k = txt[1]
            if k == "call":
                a, op, x = int(txt[2]), txt[3], txt[4]
                inflight[a] = [x, op, "start"]
                if op == "create":
                    creating[tid] = []
                elif op in ("join", "revive", "free") and x in S:
                    st = S[x]
                    emit(x, "call " + op, ln)
                    pr.stats["call_" + op] += 1
                    if op == "join":
                        if st["pubterm"] and not st["parked"]:
                            pr.stats["joins_issued_between_TERMINATED_visible_and_native_thread_parked"] += 1
                        if st["joined"]:
                            pr.stats["joins_of_an_already_joined_stream"] += 1
                        if st["parked"]:
                            pr.stats["joins_after_the_native_thread_parked"] += 1
            elif k == "life":
                x = txt[2]
                nt = creating.pop(tid, [])
                S[x] = {"ntid": nt[-1] if nt else None, "exitunit": False, "pubterm": False, "parked": False, "joined": False,
                        "skip_unlock": set(), "condret": set(), "cause": None, "closing": False}
                emit(x, "init", ln)
                pr.stats["lives"] += 1
                # the native thread may have popped and started the main scheduler before the stream had a name in the
                # trace: then no request check of ABTI_ythread_schedule (load of X.schedU+request on the root ULT) follows
                # before the next revive (a start after a revive is always logged)
                seen = False
                for ln2, w2 in raw[i + 1:]:
                    if (w2[0] == "A" and len(w2) >= 8 and w2[2] == x + ".rootU" and w2[3] == "load"
                            and w2[4] == "%s.schedU+%d" % (x, o_treq)):
                        seen = S[x]["ntid"] is not None and int(w2[1]) == S[x]["ntid"]
                        break
                    if w2[0] == "S" and len(w2) >= 7 and w2[3] == "xl" and w2[4] == "call" and w2[6] == "revive" and w2[7] == x:
                        break
                    if w2[0] == "U" and len(w2) >= 2 and w2[1] == x:
                        break
                if not seen:
                    emit(x, "nRoot 0", ln)
                    pr.stats["main_scheduler_started_before_the_stream_was_named"] += 1
            elif k == "ret":
                a, op, x = int(txt[2]), txt[3], txt[4]
                inflight.pop(a, None)
                if x not in S:
                    continue
                if op == "join":
                    emit(x, "ret join", ln)
                    S[x]["joined"] = True
                elif op == "revive":
                    emit(x, "ret revive", ln)
                    st = S[x]
                    st["pubterm"] = st["parked"] = st["joined"] = False
                    pr.stats["revives_after_" + (st["cause"] or "join-request")] += 1
                    st["cause"] = None
                elif op == "free":
                    emit(x, "pjoin", ln)
                    emit(x, "ret free", ln)
                    del S[x]
            elif k == "unit":
                x = txt[2]
                if x in S and tid == S[x]["ntid"]:
                    emit(x, "nRun", ln)
                elif x in S:
                    emit(x, "unit-ran-on-foreign-thread tid=%d" % tid, ln)
            elif k == "exitunit":
                x = txt[2]
                if x in S:
                    S[x]["exitunit"] = True
            continue
        if t == "A" and len(w) >= 8:
            tid, unit, op, loc, cur, a_, b_ = int(w[1]), w[2], w[3], w[4], int(w[5]), int(w[6]), int(w[7])
            name, off = _loc(loc)
            x = name.split(".")[0]
            if x not in S or not x.startswith("X") or x == "X0":
                continue
            st = S[x]
            if st["closing"]:
                continue
            isN = tid == st["ntid"]
            act = actor_of(tid, unit)
            fl = inflight.get(act) if act is not None else None
            mine = fl is not None and fl[0] == x
            if name == x and off == o_pub:
                if op == "load":
                    if mine and fl[1] in ("join", "free") and fl[2] == "ctxdone":
                        fl[2] = "pubdone"
                        emit(x, "jPub %d" % (1 if cur == X_TERMINATED else 0), ln)
                        if fl[1] == "free":
                            # ABT_xstream_free has finished its join: ABTI_xstream_free now releases the scheduler, its
                            # ULT, the root ULT and the pool.  Their memory may be handed out again (e.g. to a stream another
                            # actor is creating) while the names X.sched / X.schedU / X.rootU / P are still in the table, so
                            # from here on only the context inside the xstream structure (released last, no schedule point
                            # before the call returns and the names are dropped) is projected.
                            st["closing"] = True
                    else:
                        emit(x, "getState %d" % (1 if cur == X_TERMINATED else 0), ln)
                        pr.stats["get_state_" + ("TERMINATED" if cur == X_TERMINATED else "RUNNING")] += 1
                elif op == "store":
                    if isN and a_ == X_TERMINATED:
                        emit(x, "nPubTerm", ln)
                        st["pubterm"] = True
                    elif mine and fl[1] == "revive" and a_ == X_RUNNING:
                        emit(x, "rPub", ln)
                    else:
                        emit(x, "unexpected-store-to-public-state %d by tid %d" % (a_, tid), ln)
                else:
                    emit(x, "unexpected-%s-on-public-state" % op, ln)
            elif name == x + ".sched" and off == o_sreq:
                if op == "for":
                    if isN and a_ == FINISH:
                        emit(x, "nSetFin", ln)
                    elif isN and a_ == EXIT:
                        emit(x, "nSetExit", ln)
                    elif mine and fl[1] in ("join", "free") and a_ == FINISH:
                        emit(x, "jFin", ln)
                        fl[2] = "tj"
                    else:
                        emit(x, "unexpected-fetch_or-on-sched-request %d by tid %d" % (a_, tid), ln)
                elif op == "store":
                    if mine and fl[1] == "revive" and a_ == 0:
                        emit(x, "rReset", ln)
                    else:
                        emit(x, "unexpected-store-to-sched-request %d by tid %d" % (a_, tid), ln)
                elif op != "load":
                    emit(x, "unexpected-%s-on-sched-request" % op, ln)
            elif name == x + ".schedU" and off == o_tst:
                if op == "load":
                    if mine and fl[1] in ("join", "free") and fl[2] == "tj":
                        t1 = cur == TERMINATED_T
                        emit(x, "jLoadM %d" % (1 if t1 else 0), ln)
                        if t1:
                            fl[2] = "ctx"
                    elif mine and fl[1] == "revive" and fl[2] == "start":
                        emit(x, "rLoadM %d" % (1 if cur == TERMINATED_T else 0), ln)
                        fl[2] = "reset"
                elif op == "store":
                    if isN and a_ == TERMINATED_T:
                        emit(x, "nMTerm", ln)
                    elif mine and fl[1] == "revive" and a_ == READY:
                        emit(x, "rReady", ln)
                    elif not isN:
                        emit(x, "unexpected-store-to-main-scheduler-state %d by tid %d" % (a_, tid), ln)
            elif name == x + ".schedU" and off == o_treq:
                if op == "for":
                    if a_ & CANCEL:
                        if isN and st["exitunit"]:
                            st["exitunit"] = False
                            st["cause"] = st["cause"] or "exit"
                            emit(x, "nRunExit", ln)
                            pr.stats["exit_by_a_ULT"] += 1
                        else:
                            st["cause"] = st["cause"] or "cancel"
                            emit(x, "cancel", ln)
                            pr.stats["cancel"] += 1
                    elif a_ & JOIN:
                        if mine and fl[1] in ("join", "free"):
                            emit(x, "jSetJ", ln)
                        elif not isN:
                            emit(x, "unexpected-JOIN-request by tid %d" % tid, ln)
                elif op == "store":
                    if mine and fl[1] == "revive" and a_ == 0:
                        emit(x, "rClear", ln)
                    else:
                        emit(x, "unexpected-store-to-main-scheduler-request %d by tid %d" % (a_, tid), ln)
                elif op == "load" and isN and unit == x + ".rootU":
                    # ABTI_ythread_schedule -> ABTI_thread_handle_request: the root thread decides to run or cancel the ULT
                    emit(x, "nRoot %d" % (1 if cur & CANCEL else 0), ln)
                    if cur & CANCEL:
                        pr.stats["main_scheduler_cancelled_before_it_started"] += 1
                elif op == "load" and isN and cur != 0:
                    nx = next_of_tid(i, tid)
                    if nx and nx[0] == "A" and nx[3] == "for" and _loc(nx[4]) == (x + ".sched", o_sreq):
                        emit(x, "nLoadReq %d %d" % (1 if cur & JOIN else 0, 1 if cur & CANCEL else 0), ln)
            continue
        if t == "E" and len(w) >= 7:
            tid, unit, kind, p1, p2 = int(w[1]), w[2], int(w[3]), w[4], w[5]
            if kind == 20:
                if p1.startswith("P") and p1[1:].isdigit():
                    x = "X" + p1[1:]
                    if x in S and not S[x]["closing"]:
                        emit(x, "push", ln)
                        pr.stats["push"] += 1
                else:
                    n2, _ = _loc(p2)
                    if n2.endswith(".schedU"):
                        x = n2.split(".")[0]
                        act = actor_of(tid, unit)
                        fl = inflight.get(act) if act is not None else None
                        if x in S and fl and fl[0] == x and fl[1] == "revive":
                            emit(x, "rPush", ln)
            elif kind == 6 and p1.endswith(".schedU"):
                x = p1.split(".")[0]
                if x in S and x != "X0" and tid == S[x]["ntid"] and not S[x]["closing"]:
                    emit(x, "nFinish", ln)
            continue
        if t in ("M", "R", "W") and len(w) >= 4:
            tid, what, obj = int(w[1]), w[2], w[3]
            name, off = _loc(obj)
            if name not in S or off not in (o_lock, o_cond):
                continue
            x = name
            st = S[x]
            word = ctx_word(i, x)
            if tid == st["ntid"]:
                who = "T"
            else:
                act = tid_actor.get(tid)
                fl = inflight.get(act) if act is not None else None
                if not fl or fl[0] != x or fl[1] not in ("join", "revive", "free"):
                    emit(x, "unattributed-context-operation %s %s by tid %d" % (t, what, tid), ln)
                    continue
                who = "C"
            if t == "M" and what == "lock":
                if tid in st["condret"]:
                    st["condret"].discard(tid)
                    emit(x, "relock %s %s" % (who, word), ln)
                else:
                    emit(x, "lock %s %s" % (who, word), ln)
            elif t == "M" and what == "unlock":
                if tid in st["skip_unlock"]:
                    st["skip_unlock"].discard(tid)
                else:
                    emit(x, "unlock %s %s" % (who, word), ln)
                    if who == "C":
                        fl = inflight.get(tid_actor.get(tid))
                        if fl and fl[1] in ("join", "free") and fl[2] == "ctx":
                            fl[2] = "ctxdone"
            elif t == "R" and what == "condwait":
                st["skip_unlock"].add(tid)
                emit(x, "wait %s %s" % (who, word), ln)
                if who == "T" and word == "WAITING":
                    st["parked"] = True
                if who == "C":
                    pr.stats["context_joins_that_slept"] += 1
            elif t == "R" and what == "condret":
                st["condret"].add(tid)
            elif t == "W":
                woke = "none"
                m = re.search(r"woke=(\d+)", " ".join(w[4:]))
                if m:
                    woke = "T" if int(m.group(1)) == st["ntid"] else "C"
                emit(x, "signal %s %s %s" % (who, woke, word), ln)
            continue
    for x in sorted(per):
        for line, ln in per[x]:
            pr.lines.append(line)
            pr.src.append(ln)
            pr.stream.append(x)
    pr.stats["lives_not_freed_in_trace"] += len(S)
    return pr


def validate(log, params, stats=None, path=None):
    """for vs.campaign: log is a t3.Log made from `path`"""
    p = path or getattr(log, "path", None)
    pr = project(p)
    if stats is not None:
        stats.update(pr.stats)
    rej, trans, drc = t3.run_driver("xslife", pr.lines)
    rejects = []
    if rej or drc != 0:
        try:
            idx = int(rej.split()[1]) if rej else 0
        except ValueError:
            idx = 0
        rejects.append({"model": "Model.XsLife", "object": pr.stream[idx] if idx < len(pr.stream) else "",
                        "reject": rej or "driver rc=%d" % drc,
                        "projected_context": pr.lines[max(0, idx - 18): idx + 2],
                        "log_line": pr.src[idx] if idx < len(pr.src) else None})
    return rejects, set("xslife:" + x for x in trans), len(pr.lines)
