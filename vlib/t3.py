"""T3: trace validation.  Parse a vsched log, project it onto the event vocabulary of one Lean
model, and let the model driver accept or reject it."""
import re, subprocess
from . import common as C

READY, RUNNING, BLOCKED, TERMINATED = 0, 1, 2, 3


class Log:
    def __init__(self, path):
        self.offs = {}      # (struct, field) -> (off, size)
        self.events = []    # dicts
        self.status = None  # 'done' | 'deadlock' | 'step-budget-exhausted'
        self.meta = {}
        self.actors = {}    # id -> {'kind':..., 'es':...}
        self.objs = {}      # name -> attrs
        with open(path, errors="replace") as f:
            for ln, line in enumerate(f):
                w = line.rstrip("\n").split(" ")
                t = w[0]
                if t == "A" and len(w) >= 8:
                    self.events.append({"t": "A", "tid": int(w[1]), "unit": w[2], "op": w[3], "loc": w[4],
                                        "cur": int(w[5]), "a": int(w[6]), "b": int(w[7]), "ln": ln})
                elif t == "E" and len(w) >= 7:
                    self.events.append({"t": "E", "tid": int(w[1]), "unit": w[2], "kind": int(w[3]), "p1": w[4],
                                        "p2": w[5], "v": int(w[6]), "ln": ln})
                elif t == "S":
                    txt = w[3:]
                    if txt and txt[0] == "O" and len(txt) >= 5:
                        self.offs[(txt[1], txt[2])] = (int(txt[3]), int(txt[4]))
                    elif txt and txt[0] == "actor":
                        kv = dict(x.split("=") for x in txt[2:])
                        self.actors[int(txt[1][1:])] = kv
                    elif txt and txt[0] == "obj":
                        self.objs[txt[1]] = dict(x.split("=") for x in txt[2:])
                    else:
                        self.events.append({"t": "S", "tid": int(w[1]), "unit": w[2], "txt": txt, "ln": ln})
                elif t == "F":
                    self.events.append({"t": "F", "tid": int(w[1]), "unit": w[2], "txt": w[3:], "ln": ln})
                elif t == "X" and self.status is None and len(w) > 1 and w[1] in ("done", "deadlock", "step-budget-exhausted"):
                    self.status = w[1]
                    self.meta = dict(x.split("=") for x in w[2:] if "=" in x)
                elif t == "K" and len(w) >= 4:
                    self.events.append({"t": "K", "tid": int(w[1]), "unit": w[2], "time": float(w[3]), "ln": ln})
                elif t == "P" and len(w) >= 3:
                    self.events.append({"t": "P", "name": w[1], "hex": w[2], "ln": ln})
                elif t == "B":
                    self.events.append({"t": "B", "tid": int(w[1]), "kind": w[2], "obj": w[3] if len(w) > 3 else "", "ln": ln})
                elif t == "W" and len(w) >= 4 and w[1].isdigit():
                    self.events.append({"t": "W", "tid": int(w[1]), "kind": w[2], "obj": w[3], "ln": ln})

    def off(self, struct, field):
        return self.offs[(struct, field)][0]

    @staticmethod
    def snap_int(hexs, off, size):
        """little-endian unsigned integer field out of a `P` snapshot"""
        b = bytes.fromhex(hexs[2 * off: 2 * (off + size)])
        return int.from_bytes(b, "little")


def split_loc(loc):
    if "+" in loc:
        n, o = loc.rsplit("+", 1)
        return n, int(o)
    return loc, 0


def run_driver(model, lines, timeout=120):
    p = subprocess.run([C.driver_exe(), model], input=("\n".join(lines) + "\nend\n").encode(), stdout=subprocess.PIPE,
                       stderr=subprocess.PIPE, timeout=timeout)
    out = p.stdout.decode("utf-8", "replace").strip().split("\n")
    rej = [l for l in out if l.startswith("REJECT")]
    end = [l for l in out if l.startswith("END")]
    trans = []
    if end:
        m = re.search(r"\[(.*)\]", end[0])
        if m:
            trans = [x.strip() for x in m.group(1).split(",") if x.strip()]
    return (rej[0] if rej else None), trans, p.returncode


# --------------------------------------------------------------------------------------------
# projection onto Model.Mutex
# --------------------------------------------------------------------------------------------
def project_mutex(log, mname):
    """Event lines for `driver mutex` describing everything that touches mutex object `mname`."""
    o_lock = log.off("ABTI_mutex", "lock")
    o_w = log.off("ABTI_mutex", "waiter_lock")
    o_wl = log.off("ABTI_mutex", "waitlist")
    o_state = log.off("ABTI_thread", "state")
    rec = log.objs.get(mname, {}).get("recursive", "0")
    ults = [str(i) for i, a in log.actors.items() if a.get("kind") == "ult"]
    out = ["init %s %s" % (rec, " ".join(ults))]
    src = []                  # parallel list: log line numbers
    ext_actor = {}            # tid -> actor id for external threads
    susp_on_tid = {}          # tid -> actor whose suspension callback runs on the scheduler context
    node_actor = {}           # wait-list node name -> actor (while queued on this mutex)
    waiting = set()           # actors enqueued on this mutex whose BLOCKED store is still to come
    bcaster_pending = {}      # actor -> node it just dequeued
    in_wait = {}              # non-ULT actor -> node name while it is inside the wait loop on this mutex
    wl_loc = "%s+%d" % (mname, o_wl)

    def actor_of(ev):
        u = ev.get("unit", "-")
        if u.startswith("A") and u[1:].isdigit():
            return int(u[1:])
        tid = ev["tid"]
        if u == "-" and tid in ext_actor:
            return ext_actor[tid]
        if tid in susp_on_tid:
            return susp_on_tid[tid]
        return None

    def emit(line, ev):
        out.append(line)
        src.append(ev["ln"])

    for ev in log.events:
        t = ev["t"]
        if t == "S":
            txt = ev["txt"]
            if txt[0] == "userStart" and ev["unit"] == "-":
                ext_actor[ev["tid"]] = int(txt[1][1:])
            elif txt[0] in ("apiCall", "apiRet") and len(txt) >= 3 and txt[2] == mname:
                a = actor_of(ev)
                if a is None:
                    continue
                if txt[0] == "apiCall":
                    emit("call %d %s" % (a, txt[1]), ev)
                else:
                    emit("ret %d %s %s" % (a, txt[1], txt[3]), ev)
        elif t == "E":
            k = ev["kind"]
            if k == 9 and ev["p1"].startswith("A"):       # ythread suspend: callbacks follow on this tid
                susp_on_tid[ev["tid"]] = int(ev["p1"][1:])
            elif k == 5 and ev["tid"] in susp_on_tid:       # scheduler runs something else: callback over
                susp_on_tid.pop(ev["tid"], None)
            if k == 50 and ev["p1"] == wl_loc:
                a = actor_of(ev)
                node_actor[ev["p2"]] = a
                waiting.add(a)
                if not ev["p2"].startswith("A"):
                    in_wait[a] = ev["p2"]
                emit("enq %d" % a, ev)
            elif k == 52 and ev["p1"] == wl_loc:
                a = actor_of(ev)
                n = node_actor.get(ev["p2"])
                if n is None:
                    emit("deq %d 999999" % a, ev)
                else:
                    bcaster_pending[a] = ev["p2"]
                    emit("deq %d %d" % (a, n), ev)
        elif t == "A":
            name, off = split_loc(ev["loc"])
            op = ev["op"]
            if name == mname:
                a = actor_of(ev)
                if off == o_lock:
                    if op == "tas" and a is not None:
                        in_wait.pop(a, None)
                        emit("tasLock %d %d" % (a, 1 if ev["cur"] else 0), ev)
                    elif op == "clear" and a is not None:
                        emit("clearLock %d" % a, ev)
                    elif op == "load":
                        emit("obsLock %d" % (1 if ev["cur"] else 0), ev)
                elif off == o_w:
                    if op == "tas" and a is not None:
                        emit("tasW %d %d" % (a, 1 if ev["cur"] else 0), ev)
                    elif op == "clear" and a is not None:
                        emit("clearW %d" % a, ev)
                    elif op == "load":
                        emit("obsW %d" % (1 if ev["cur"] else 0), ev)
            elif off == o_state and name in node_actor:
                n = node_actor[name]
                a = actor_of(ev)
                if op == "store" and ev["a"] == BLOCKED and n in waiting and a == n:
                    waiting.discard(n)
                    emit("storeBlocked %d" % n, ev)
                elif op == "store" and ev["a"] == READY and a is not None and bcaster_pending.get(a) == name:
                    bcaster_pending.pop(a)
                    waiting.discard(n)
                    emit("storeReady %d %d" % (a, n), ev)
                    if name.startswith("A"):
                        node_actor.pop(name, None)   # a ULT node leaves this mutex's protocol here
                elif op == "load" and a == n and in_wait.get(a) == name:
                    emit("loadState %d %d" % (n, 1 if ev["cur"] == READY else 0), ev)
    return out, src


# --------------------------------------------------------------------------------------------
# projection onto Model.WaitList (generic) and Model.Cond
# --------------------------------------------------------------------------------------------
class ActorMap:
    """who performs an event: the work unit A<i>, an external thread running actor A<i>, or the
    scheduler context finishing A<i>'s suspension on that OS thread"""

    def __init__(self):
        self.ext_actor = {}
        self.susp_on_tid = {}

    def feed(self, ev):
        t = ev["t"]
        if t == "S" and ev["txt"][0] == "userStart" and ev["unit"] == "-":
            self.ext_actor[ev["tid"]] = int(ev["txt"][1][1:])
        elif t == "E":
            if ev["kind"] == 9 and ev["p1"].startswith("A") and ev["p1"][1:].isdigit():
                self.susp_on_tid[ev["tid"]] = int(ev["p1"][1:])
            elif ev["kind"] == 5:
                self.susp_on_tid.pop(ev["tid"], None)

    def actor(self, ev):
        u = ev.get("unit", "-")
        if u.startswith("A") and u[1:].isdigit():
            return int(u[1:])
        tid = ev["tid"]
        if u == "-" and tid in self.ext_actor:
            return self.ext_actor[tid]
        return self.susp_on_tid.get(tid)


def project_waitlist(log, oname, o_lock, o_wl, cond=None):
    """Events of object `oname` (spinlock at offset o_lock, ABTI_waitlist at o_wl) for `driver waitlist`.
    With cond = {"mutexes": {"CM0": 0, ...}} the cond-level events for `driver cond` are added."""
    o_state = log.off("ABTI_thread", "state")
    o_mlock = log.off("ABTI_mutex", "lock")
    ults = [str(i) for i, a in log.actors.items() if a.get("kind") == "ult"]
    out = ["init %s" % " ".join(ults)]
    am = ActorMap()
    wl_loc = "%s+%d" % (oname, o_wl) if o_wl else oname
    node_actor = {}       # node name -> actor, while queued / being woken
    in_wait = {}          # actor -> node name from enqueue until its wait is over
    susp = set()          # ULT actors enqueued, BLOCKED store still to come
    spinning = set()      # actors whose last tas on L failed
    pending = {}          # waker -> node it dequeued
    deadline = {}         # actor -> absolute deadline of its timed wait
    mutexes = (cond or {}).get("mutexes", {})

    def emit(line):
        out.append(line)

    for ev in log.events:
        am.feed(ev)
        t = ev["t"]
        if t == "S":
            txt = ev["txt"]
            if txt[0] == "Q" and len(txt) >= 4 and txt[1] == oname:
                # the real list at the lock release: node names -> actors
                nodes = [x.split(":")[0] for x in txt[5:]] if len(txt) > 5 else []
                emit("checkQ " + " ".join(str(node_actor.get(nd, nd)) for nd in nodes))
                continue
            if txt[0] in ("apiCall", "apiRet") and len(txt) >= 3 and txt[2] == oname:
                a = am.actor(ev)
                if a is None:
                    continue
                op = txt[1]
                if txt[0] == "apiCall":
                    if op == "timedwait":
                        deadline[a] = float(txt[4])
                    if cond is not None:
                        if op in ("wait", "timedwait"):
                            emit("call %d %s %d" % (a, op, mutexes[txt[3]]))
                        else:
                            emit("call %d %s" % (a, op))
                else:
                    rc = int(txt[3])
                    in_wait.pop(a, None)
                    deadline.pop(a, None)
                    if cond is not None:
                        emit("ret %d %s" % (a, {0: "ok"}.get(rc, "timedout" if rc == cond["rc_timedout"] else
                                                              ("invMutex" if rc == cond["rc_inv_mutex"] else "rc%d" % rc))))
        elif t == "K":
            a = am.actor(ev)
            if a is not None and a in in_wait and a in deadline:
                emit("timeCheck %d %d" % (a, 1 if ev["time"] >= deadline[a] else 0))
        elif t == "E":
            k = ev["kind"]
            if k == 50 and ev["p1"] == wl_loc:
                a = am.actor(ev)
                node_actor[ev["p2"]] = a
                in_wait[a] = ev["p2"]
                if ev["p2"].startswith("A"):
                    susp.add(a)
                emit("enq %d %d" % (a, ev["v"]))
            elif k == 52 and ev["p1"] == wl_loc:
                a = am.actor(ev)
                n = node_actor.get(ev["p2"], 999999)
                pending[a] = ev["p2"]
                emit("deq %d %d" % (a, n))
            elif k == 51 and ev["p1"] == wl_loc:
                a = am.actor(ev)
                node_actor.pop(ev["p2"], None)
                emit("rm %d" % a)
        elif t == "A":
            name, off = split_loc(ev["loc"])
            op = ev["op"]
            if name == oname and off == o_lock:
                a = am.actor(ev)
                if op == "tas" and a is not None:
                    if a not in spinning and a not in in_wait:
                        emit("begin %d" % a)
                    if ev["cur"]:
                        spinning.add(a)
                    else:
                        spinning.discard(a)
                    emit("tasL %d %d" % (a, 1 if ev["cur"] else 0))
                elif op == "clear" and a is not None:
                    emit("clearL %d" % a)
                elif op == "load":
                    emit("obsL %d" % (1 if ev["cur"] else 0))
            elif cond is not None and name in mutexes and off == o_mlock:
                a = am.actor(ev)
                if a is None:
                    continue
                if op == "tas" and ev["cur"] == 0:
                    emit("mutexLock %d %d" % (a, mutexes[name]))
                elif op == "clear":
                    emit("mutexUnlock %d %d" % (a, mutexes[name]))
            elif off == o_state and name in node_actor:
                n = node_actor[name]
                a = am.actor(ev)
                if op == "store" and ev["a"] == BLOCKED and n in susp and a == n:
                    susp.discard(n)
                    emit("storeBlocked %d" % n)
                elif op == "store" and ev["a"] == READY and a is not None and pending.get(a) == name:
                    pending.pop(a)
                    emit("storeReady %d %d" % (a, n))
                    if name.startswith("A"):
                        node_actor.pop(name, None)
                        in_wait.pop(n, None)
                elif op == "load" and a == n and in_wait.get(a) == name:
                    emit("loadState %d %d" % (n, 1 if ev["cur"] == READY else 0))
    return out
