"""T3 projections for C19's pointer-level models.

project_wlptr:   vsched log -> `driver wlptr` lines (Model.WLPtr): one wait-list operation per line in the order
                 the real code executed them, and after every release of the object's lock the real pointer list
                 (`Q` line written by harness/vs_abt.c waitlist_snap) for comparison with the model heap.
project_popwait: vsched log -> `driver popwait` lines (Model.PopWait), see below."""
import re
from . import t3


class Ids:
    """pointer names -> node numbers by first appearance (0 = NULL)"""

    def __init__(self):
        self.m = {"null": 0}

    def __call__(self, name):
        if name not in self.m:
            self.m[name] = len(self.m)
        return self.m[name]


def project_wlptr(log, oname, o_wl):
    """E 50 v=0/1 -> enqU/enqT node; E 52 v=0 -> pop node; the E 52 v=1 of one critical section -> bcast nodes..;
    E 51 -> rm node; `Q` line -> snap head tail node:next:prev ..."""
    wl_loc = "%s+%d" % (oname, o_wl) if o_wl else oname
    ids = Ids()
    out = []
    bc = []          # nodes dequeued by the broadcast in progress

    def flush():
        if bc:
            out.append("bcast " + " ".join(str(x) for x in bc))
            del bc[:]

    for ev in log.events:
        t = ev["t"]
        if t == "E" and ev["p1"] == wl_loc:
            k = ev["kind"]
            if k == 52 and ev["v"] == 1:
                bc.append(ids(ev["p2"]))
                continue
            flush()
            if k == 50:
                out.append("%s %d" % ("enqT" if ev["v"] else "enqU", ids(ev["p2"])))
            elif k == 52:
                out.append("pop %d" % ids(ev["p2"]))
            elif k == 51:
                out.append("rm %d" % ids(ev["p2"]))
        elif t == "S":
            txt = ev["txt"]
            if txt[0] == "Q" and len(txt) >= 4 and txt[1] == oname:
                flush()
                head = txt[2].split("=", 1)[1]
                tail = txt[3].split("=", 1)[1]
                nodes = []
                for x in txt[5:]:
                    f = x.split(":")
                    if len(f) < 3:      # "...CYCLE-OR-TOO-LONG"
                        nodes.append("999999:999999:999999")
                        continue
                    nodes.append("%d:%d:%d" % (ids(f[0]), ids(f[1]), ids(f[2])))
                out.append("snap %d %d %s" % (ids(head), ids(tail), " ".join(nodes)))
    flush()
    return out


# ---------------------------------------------------------------------------------------------
# projection onto Model.PopWait (blocking pool pops), one pool at a time
# ---------------------------------------------------------------------------------------------
class PathLog(t3.Log):
    """t3.Log that remembers where it came from: project_popwait also needs the raw lines (`M`/`R`/`W`/`C` tags)"""

    def __init__(self, path):
        super().__init__(path)
        self.path = path


def ns(x):
    return int(round(float(x) * 1e9))


def project_popwait(log, pname):
    """Lines for `driver popwait` describing everything that happens to pool `pname` (named by harness/sc_popwait.c:
    pool object `PWk`, queue object `PWk.q` with the lock / mutex at offset 0).

    S apiCall/apiRet            -> call / ret
    A tas|load|clear PWk.q+0    -> tas / loadLock / clear        (polling pools: spinlock word)
    A load PWk.q+is_empty       -> loadEmpty
    first atomic store of a critical section (is_empty := 0/1, else is_in_pool := 1/0) -> link / take <unit>;
        a pop section that ends without any store found the queue empty -> take none
    K (clock read)              -> clock a v for a blocking pop of this pool, else advance v
    C (controller moves time)   -> advance
    B sleep ... next line of that thread -> sleepDone
    M lock|unlock PWk.q         -> mlock / munlock               (FIFO_WAIT: virtual pthread mutex)
    R condwait dl=.. / condret  -> condWait a dl / timeout a (emitted when the consumer runs again, or earlier, just
                                   before a signal that found nobody waiting: vsched had timed it out by then)
    W cond .. woke=<tid>        -> signal a w | signal a none"""
    kind = log.objs.get(pname, {}).get("kind", "fifo")
    fw = kind == "fifo_wait"
    st = "PWfwait" if fw else "PWpoll"
    o_empty = log.off(st, "is_empty")
    o_cond = log.off("PWfwait", "cond")
    o_inpool = log.off("ABTI_thread", "is_in_pool")
    qname = pname + ".q"
    loc_lock, loc_empty, loc_cond = qname, "%s+%d" % (qname, o_empty), "%s+%d" % (qname, o_cond)
    out = ["init " + ("fwait" if fw else "poll")]
    with open(log.path, errors="replace") as f:
        raw = [l.rstrip("\n").split(" ") for l in f]

    ext_actor, cur_unit = {}, {}
    cur = {}            # actor -> state of its call in progress on this pool
    asleep = {}         # tid -> True while in nanosleep
    skip_unlock = {}    # tid -> the next `M unlock` is the one inside pthread_cond_(timed)wait
    waiting = {}        # actor -> deadline (ns) while asleep on the condition variable
    clock = [0]

    def actor(tid, unit=None):
        u = unit if unit is not None else cur_unit.get(tid, "-")
        if u.startswith("A") and u[1:].isdigit():
            return int(u[1:])
        if u == "-":
            return ext_actor.get(tid)
        return None

    def advance(v):
        v = max(v, clock[0])
        if v > clock[0]:
            out.append("advance %d" % v)
            clock[0] = v

    def need(x):
        """a step that vsched evidently performed requires time >= x: the logged clock values are truncated to whole
        ns (and deadlines converted through a timespec), so up to 2 ns may be missing; more is left to the model to reject"""
        if clock[0] < x <= clock[0] + 2:
            advance(x)

    def timed_out(a):
        dl = waiting.pop(a, None)
        if dl is not None:
            need(dl)
            out.append("timeout %d" % a)

    def unit_after(i, tid):
        """unit whose is_in_pool is cleared next by this thread (the pop in progress)"""
        for w in raw[i + 1: i + 400]:
            if w[0] == "A" and len(w) >= 8 and w[1] == tid and w[3] == "store":
                n, o = t3.split_loc(w[4])
                if n.startswith("U") and o == o_inpool:
                    return int(n[1:])
        return None

    for i, w in enumerate(raw):
        t = w[0]
        if t in ("A", "E", "K", "S", "F") and len(w) >= 3:
            tid, unit = w[1], w[2]
            cur_unit[tid] = unit
            if t == "S" and len(w) >= 5 and w[3] == "userStart" and unit == "-":
                ext_actor[tid] = int(w[4][1:])
        elif t in ("M", "R", "W", "B") and len(w) >= 2:
            tid, unit = w[1], None
        elif t == "C" and len(w) >= 2:
            advance(ns(w[1]))
            continue
        else:
            continue
        a = actor(tid, unit)
        c = cur.get(a) if a is not None else None
        if t == "B":
            if len(w) >= 3 and w[2] == "sleep" and c is not None:
                asleep[tid] = True
            continue
        if asleep.pop(tid, None) and c is not None:
            need(c.get("wake", 0))
            out.append("sleepDone %d" % a)
        if t == "K":
            v = ns(w[3])
            if c is not None and c["op"] in ("popWait", "popTimedwait") and not (fw and c["op"] == "popTimedwait"):
                vv = max(v, clock[0])
                out.append("clock %d %d" % (a, vv))
                clock[0] = vv
                c["wake"] = vv + 100          # pop_wait: nanosleep(100) follows the read
            else:
                advance(v)
        elif t == "S":
            txt = w[3:]
            if len(txt) >= 3 and txt[0] in ("apiCall", "apiRet") and txt[2] == pname and a is not None:
                op = txt[1]
                if txt[0] == "apiCall":
                    cur[a] = {"op": op, "cs": False, "acted": False}
                    if op == "push":
                        cur[a]["unit"] = int(txt[3])
                        out.append("call %d push %s" % (a, txt[3]))
                    elif op == "pop":
                        out.append("call %d pop %s" % (a, txt[3]))
                    elif op == "popWait":
                        out.append("call %d popWait %s %s" % (a, txt[3], txt[4]))
                    elif op == "popTimedwait":
                        out.append("call %d popTimedwait %s" % (a, txt[3]))
                    else:
                        out.append("call %d %s" % (a, op))     # rejected as bad-op
                else:
                    r = int(txt[3])
                    out.append("ret %d %s" % (a, "none" if (op == "push" or r < 0) else str(r)))
                    cur.pop(a, None)
        elif t == "A" and len(w) >= 8 and c is not None:
            op, loc, curv, va = w[3], w[4], int(w[5]), int(w[6])
            name, off = t3.split_loc(loc)
            pusher = c["op"] == "push"
            if loc == loc_lock and not fw:
                if op == "tas":
                    out.append("tas %d %d" % (a, 1 if curv else 0))
                    if not curv:
                        c["cs"], c["acted"] = True, False
                elif op == "load":
                    out.append("loadLock %d %d" % (a, 1 if curv else 0))
                elif op == "clear":
                    if not pusher and c["cs"] and not c["acted"]:
                        out.append("take %d none" % a)
                        if c["op"] == "popTimedwait":
                            c["wake"] = clock[0] + 100
                    c["cs"] = False
                    out.append("clear %d" % a)
            elif loc == loc_empty:
                if op == "load":
                    out.append("loadEmpty %d %d" % (a, 1 if curv else 0))
                    if curv and c["op"] == "popTimedwait":
                        c["wake"] = clock[0] + 100     # pop_timedwait: nanosleep(100) follows the failed attempt
                elif op == "store" and c["cs"] and not c["acted"]:
                    c["acted"] = True
                    if pusher:
                        out.append("link %d" % a)
                    else:
                        u = unit_after(i, tid)
                        out.append("take %d %s" % (a, "none" if u is None else str(u)))
            elif name.startswith("U") and name[1:].isdigit() and off == o_inpool and op == "store" and c["cs"] and not c["acted"]:
                c["acted"] = True
                if pusher:
                    out.append("link %d" % a)
                else:
                    out.append("take %d %s" % (a, name[1:]))
        elif t == "M" and len(w) >= 4 and w[3] == loc_lock and fw and c is not None:
            if w[2] == "lock":
                out.append("mlock %d" % a)
                c["cs"], c["acted"] = True, False
            elif w[2] == "unlock":
                if skip_unlock.pop(tid, None):
                    c["cs"] = False
                    continue
                if c["op"] != "push" and c["cs"] and not c["acted"]:
                    out.append("take %d none" % a)
                c["cs"] = False
                out.append("munlock %d" % a)
        elif t == "R" and len(w) >= 5 and w[3] == loc_cond and c is not None:
            if w[2] == "condwait":
                dl = w[4].split("=", 1)[1]
                dl = 10 ** 15 if dl == "inf" else ns(dl)
                out.append("condWait %d %d" % (a, dl))
                skip_unlock[tid] = True
                waiting[a] = dl
            elif w[2] == "condret":
                if w[4] == "to=1":
                    timed_out(a)
                waiting.pop(a, None)
        elif t == "W" and len(w) >= 6 and w[2] == "cond" and w[3] == loc_cond and c is not None:
            ids = [x for x in w[5].split("=", 1)[1].split(",") if x]
            if not ids:
                # nobody was waiting any more: every consumer we still believe asleep has already been timed out by
                # vsched (its `condret to=1` line comes when it runs again)
                for x in sorted(waiting):
                    timed_out(x)
                out.append("signal %d none" % a)
            else:
                wa = actor(ids[0])
                waiting.pop(wa, None)
                out.append("signal %d %s" % (a, "none" if wa is None else str(wa)))
    return out
