"""T3 projections for C19's pointer-level models.

project_wlptr:   vsched log -> `driver wlptr` lines (Model.WLPtr): one wait-list operation per line in the order
                 the real code executed them, and after every release of the object's lock the real pointer list
                 (`Q` line written by harness/vs_abt.c waitlist_snap) for comparison with the model heap.
project_popwait: vsched log -> `driver popwait` lines (Model.PopWait), see below."""
import re
from . import t3


class Ids:
    """pointer names -> node numbers by first appearance (0 = NULL)"""

    def __init__(self):
        self.m = {"null": 0}

    def __call__(self, name):
        if name not in self.m:
            self.m[name] = len(self.m)
        return self.m[name]


def project_wlptr(log, oname, o_wl):
    """E 50 v=0/1 -> enqU/enqT node; E 52 v=0 -> pop node; the E 52 v=1 of one critical section -> bcast nodes..;
    E 51 -> rm node; `Q` line -> snap head tail node:next:prev ..."""
    wl_loc = "%s+%d" % (oname, o_wl) if o_wl else oname
    ids = Ids()
    out = []
    bc = []          # nodes dequeued by the broadcast in progress

    def flush():
        if bc:
            out.append("bcast " + " ".join(str(x) for x in bc))
            del bc[:]

    for ev in log.events:
        t = ev["t"]
        if t == "E" and ev["p1"] == wl_loc:
            k = ev["kind"]
            if k == 52 and ev["v"] == 1:
                bc.append(ids(ev["p2"]))
                continue
            flush()
            if k == 50:
                out.append("%s %d" % ("enqT" if ev["v"] else "enqU", ids(ev["p2"])))
            elif k == 52:
                out.append("pop %d" % ids(ev["p2"]))
            elif k == 51:
                out.append("rm %d" % ids(ev["p2"]))
        elif t == "S":
            txt = ev["txt"]
            if txt[0] == "Q" and len(txt) >= 4 and txt[1] == oname:
                flush()
                head = txt[2].split("=", 1)[1]
                tail = txt[3].split("=", 1)[1]
                nodes = []
                for x in txt[5:]:
                    f = x.split(":")
                    if len(f) < 3:      # "...CYCLE-OR-TOO-LONG"
                        nodes.append("999999:999999:999999")
                        continue
                    nodes.append("%d:%d:%d" % (ids(f[0]), ids(f[1]), ids(f[2])))
                out.append("snap %d %d %s" % (ids(head), ids(tail), " ".join(nodes)))
    flush()
    return out
