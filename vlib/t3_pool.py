"""T3 projection for C07 (concurrent half): a vsched log of harness/sc_pool.c -> event lines of `driver poolconc`
(Model.PoolConc), plus an independent history oracle.

Which log line is which model event (pool object `PW0`, its queue object `PW0.q`, units `U<j>` = model unit j+1):
  S apiCall/apiRet <op> PW0 ..      call / ret (values as the scenario saw them: handles mapped back to unit numbers)
  A tas|load|clear PW0.q+lock        tas / loadLock / clear                       (spin kinds)
  M lock|unlock PW0.q                mlock / munlock                              (FIFO_WAIT; logged by the virtual mutex)
  R condwait|condret PW0.q+cond      condWait / wake          W cond PW0.q+cond   signal
  A load|store PW0.q+is_empty        loadEmpty / storeEmpty
  A store U<j>+is_in_pool            storeIn           A load (FIFO_WAIT remove, before the mutex)   loadIn
  E 25|26|27 PW0.q+queue U<j>|null   link / take / unlink
  E 23 PW0 <units> <num>             cbPushMany: ABTI_pool_push_many invokes the pool's p_push_many with num units
  (no event) thread_queue_remove returning ABT_ERR_POOL under the lock: inferred when the lock is released (or a private
  remove returns) without hook 27 -> rmFail.  Loads of is_in_pool under the lock are part of that step (they may be
  suppressed by the logger's duplicate filter) and are not projected.
The actor of a line is the work unit A<i> in its unit column, or the external thread that logged `userStart A<i>`;
M/R/W lines carry no unit column: the actor is the one that last logged on that OS thread."""
import re, collections


class PLog:
    """the lines of a vsched log this projection needs, in order"""

    def __init__(self, path):
        self.offs = {}
        self.objs = {}
        self.actors = {}
        self.ev = []
        self.status = None
        self.fails = []
        self.stats = {}
        with open(path, errors="replace") as f:
            for ln, line in enumerate(f):
                w = line.rstrip("\n").split(" ")
                t = w[0]
                if t == "A" and len(w) >= 8:
                    self.ev.append(("A", int(w[1]), w[2], w[3], w[4], int(w[5]), int(w[6]), ln))
                elif t == "E" and len(w) >= 7:
                    self.ev.append(("E", int(w[1]), w[2], int(w[3]), w[4], w[5], int(w[6]), ln))
                elif t == "S" and len(w) >= 4:
                    txt = w[3:]
                    if txt[0] == "O" and len(txt) >= 5:
                        self.offs[(txt[1], txt[2])] = int(txt[3])
                    elif txt[0] == "actor":
                        self.actors[int(txt[1][1:])] = dict(x.split("=") for x in txt[2:])
                    elif txt[0] == "obj":
                        self.objs[txt[1]] = dict(x.split("=") for x in txt[2:])
                    elif txt[0] == "pool" and txt[1] == "stats":
                        self.stats = {k: int(v) for k, v in (x.split("=") for x in txt[2:])}
                    else:
                        self.ev.append(("S", int(w[1]), w[2], txt, ln))
                elif t in ("M", "R", "W") and len(w) >= 4:
                    self.ev.append((t, int(w[1]), w[2], w[3], ln))
                elif t == "F":
                    self.fails.append(" ".join(w[3:]))
                elif t == "X" and self.status is None and len(w) > 1:
                    self.status = w[1]


def _loc(loc):
    if "+" in loc:
        n, o = loc.rsplit("+", 1)
        return n, int(o)
    return loc, 0


def _unit(name):
    m = re.match(r"U(\d+)$", name)
    if m:
        return int(m.group(1)) + 1
    if name == "null":
        return 0
    return 999999      # an address that is none of the scenario's units: no model unit has this number


def model_cfg(kind, access):
    """the configuration the *property* demands: every access mode but PRIV is shared (FIFO_WAIT: always locked)"""
    lk = "mutex" if kind == "fifo_wait" else "spin"
    shared = 1 if (kind == "fifo_wait" or access != "priv") else 0
    return lk, shared


def project(lg, pool="PW0"):
    """-> (lines, info).  info: ops per kind, overlap / precheck-preemption counters"""
    q = pool + ".q"
    attrs = lg.objs.get(pool, {})
    kind, access = attrs.get("kind", "fifo"), attrs.get("access", "mpmc")
    tag = "PWfwait" if kind == "fifo_wait" else "PWpoll"
    o_lock, o_empty, o_queue = lg.offs[(tag, "lock")], lg.offs[(tag, "is_empty")], lg.offs[(tag, "queue")]
    o_cond = lg.offs.get((tag, "cond"), -1)
    o_inpool = lg.offs[("ABTI_thread", "is_in_pool")]
    lk, shared = model_cfg(kind, access)
    out = ["cfg %s %d" % (lk, shared)]
    ext_actor, tid_actor = {}, {}
    incall = {}         # actor -> op name while inside an API call on this pool
    locked = set()      # actors between lock acquisition and release
    rm_pending = set()  # actors inside a remove whose outcome has not been seen yet
    pre = {}            # actor -> True after an unlocked emptiness pre-check that let it go on
    waiting = set()     # actors inside pthread_cond_timedwait (its internal unlock is part of `condWait`)
    info = collections.Counter()
    opk = collections.Counter()

    def actor(tid, unit):
        a = None
        if unit.startswith("A") and unit[1:].isdigit():
            a = int(unit[1:])
        elif unit == "-":
            a = ext_actor.get(tid)
        if a is not None:
            tid_actor[tid] = a
        return a

    def own_event(a, mutation=False):
        # coverage: did somebody else act on the pool between a's lock-free pre-check and its next step?
        for b in list(pre):
            if b != a and mutation:
                pre[b] = 2
        if a in pre:
            if pre[a] == 2:
                info["preempted_after_precheck"] += 1
            del pre[a]

    def emit(s):
        out.append(s)

    for e in lg.ev:
        t = e[0]
        if t == "S":
            _, tid, unit, txt, ln = e
            if txt[0] == "userStart" and unit == "-":
                ext_actor[tid] = int(txt[1][1:])
                tid_actor[tid] = ext_actor[tid]
                continue
            a = actor(tid, unit)
            if txt[0] not in ("apiCall", "apiRet") or len(txt) < 3 or txt[2] != pool or a is None:
                continue
            op, args = txt[1], txt[3:]
            if txt[0] == "apiCall":
                if incall:
                    info["calls_started_while_another_in_progress"] += 1
                incall[a] = op
                opk[op] += 1
                if op == "push":
                    emit("call %d push %d %s" % (a, int(args[0]) + 1, args[1]))
                elif op == "pushMany":
                    emit("call %d pushMany %s %s" % (a, args[0], " ".join(str(int(x) + 1) for x in args[1:])))
                elif op == "pop":
                    emit("call %d pop %s" % (a, args[0]))
                elif op == "popMany":
                    emit("call %d popMany %s %s" % (a, args[0], args[1]))
                elif op in ("popWait", "popTimedwait"):
                    emit("call %d popWait %s" % (a, args[0]))
                elif op == "remove":
                    emit("call %d remove %d" % (a, int(args[0]) + 1))
                    rm_pending.add(a)
                else:
                    emit("call %d %s" % (a, op))
            else:
                own_event(a)
                if a in rm_pending:          # private remove: no lock release to hang the failure on
                    rm_pending.discard(a)
                    emit("rmFail %d" % a)
                incall.pop(a, None)
                if op in ("push", "pushMany"):
                    emit("ret %d unit" % a)
                elif op in ("pop", "popWait", "popTimedwait"):
                    u = int(args[0])
                    emit("ret %d popped%s" % (a, "" if u == -1 else " %d" % (u + 1 if u >= 0 else 999999)))
                elif op == "popMany":
                    hs = [int(x) for x in args[1:]]
                    if len(hs) != int(args[0]):
                        hs = hs + [-2] * (int(args[0]) - len(hs))
                    emit("ret %d popped%s" % (a, "".join(" %d" % (h + 1 if h >= 0 else (0 if h == -1 else 999999)) for h in hs)))
                elif op == "remove":
                    emit("ret %d rc %s" % (a, args[0]))
        elif t == "A":
            _, tid, unit, op, loc, cur, newv, ln = e
            a = actor(tid, unit)
            name, off = _loc(loc)
            if a is None or a not in incall:
                continue
            if name == q:
                if lk == "spin" and off == o_lock:
                    if op == "tas":
                        own_event(a)
                        emit("tas %d %d" % (a, 1 if cur else 0))
                        if not cur:
                            locked.add(a)
                        else:
                            info["tas_failed"] += 1
                    elif op == "load":
                        emit("loadLock %d %d" % (a, 1 if cur else 0))
                    elif op == "clear":
                        if a in rm_pending:
                            rm_pending.discard(a)
                            emit("rmFail %d" % a)
                        locked.discard(a)
                        emit("clear %d" % a)
                elif off == o_empty:
                    if op == "load":
                        own_event(a)
                        emit("loadEmpty %d %d" % (a, 1 if cur else 0))
                        if a not in locked:
                            if cur:
                                rm_pending.discard(a)       # FIFO_WAIT remove: `!is_empty` failed
                                info["empty_seen_lock_free"] += 1
                            else:
                                pre[a] = 1
                    elif op == "store":
                        own_event(a, True)
                        emit("storeEmpty %d %d" % (a, 1 if newv else 0))
            elif off == o_inpool and re.match(r"U\d+$", name):
                if op == "store":
                    own_event(a, True)
                    emit("storeIn %d %d %d" % (a, _unit(name), 1 if newv else 0))
                elif op == "load" and lk == "mutex" and a not in locked and incall.get(a) == "remove":
                    emit("loadIn %d %d %d" % (a, _unit(name), 1 if cur else 0))
                    if not cur:
                        rm_pending.discard(a)
        elif t == "E":
            _, tid, unit, k, p1, p2, v, ln = e
            a = actor(tid, unit)
            if a is not None and k == 23 and p1 == pool and a in incall:
                emit("cbPushMany %d %d" % (a, v))
                info["push_many_callbacks"] += 1
                continue
            if a is None or k not in (25, 26, 27):
                continue
            name, off = _loc(p1)
            if name != q or off != o_queue:
                continue
            own_event(a, True)
            if k == 25:
                emit("link %d %d %d" % (a, _unit(p2), 1 if v else 0))
            elif k == 26:
                emit("take %d %d %d" % (a, _unit(p2), 1 if v else 0))
            else:
                rm_pending.discard(a)
                emit("unlink %d %d" % (a, _unit(p2)))
        elif t in ("M", "R", "W"):
            _, tid, what, obj, ln = e
            a = tid_actor.get(tid)
            name, off = _loc(obj)
            if a is None or name != q:
                continue
            if t == "M" and off == o_lock:
                if what == "lock":
                    own_event(a)
                    locked.add(a)
                    emit("mlock %d" % a)
                elif a in waiting:
                    pass                # the release that belongs to the condition wait
                else:
                    if a in rm_pending:
                        rm_pending.discard(a)
                        emit("rmFail %d" % a)
                    locked.discard(a)
                    emit("munlock %d" % a)
            elif t == "R" and off == o_cond:
                if what == "condwait":
                    locked.discard(a)
                    waiting.add(a)
                    emit("condWait %d" % a)
                else:
                    waiting.discard(a)
                    emit("wake %d" % a)
            elif t == "W" and off == o_cond and what == "cond":
                emit("signal %d" % a)
    info["ops"] = dict(opk)
    info["kind"], info["access"] = kind, access
    return out, info


# ---------------------------------------------------------------------------------------------
# independent oracle: the API-level history (call / return lines of the scenario only) against the
# property statement; knows nothing about locks or the model
# ---------------------------------------------------------------------------------------------
def history_oracle(lg, pool="PW0"):
    """None, or a sentence saying how the recorded call/return history contradicts "one atomic queue":
    a unit handed out that is not in the pool, num_popped disagreeing with the handles written, a pop that came back
    with fewer units than were in the pool during the whole call, FIFO order per (consumer, pusher)."""
    attrs = lg.objs.get(pool, {})
    fifo = attrs.get("kind", "fifo") != "randws"
    ext_actor = {}
    state = {}                      # unit -> 'in' | 'out'
    pushes_done = 0                 # units whose push has returned
    takes = 0                       # capacity of takes begun, corrected at return
    act = {}                        # actor -> [cap, minlb]   (pop-like calls in progress)
    pend = {}                       # actor -> (op, args) of the call in progress
    seq = collections.Counter()     # per pusher
    useq, uby = {}, {}
    last = collections.defaultdict(int)
    for e in lg.ev:
        if e[0] != "S":
            continue
        _, tid, unit, txt, ln = e
        if txt[0] == "userStart" and unit == "-":
            ext_actor[tid] = int(txt[1][1:])
            continue
        if txt[0] not in ("apiCall", "apiRet") or len(txt) < 3 or txt[2] != pool:
            continue
        a = int(unit[1:]) if unit.startswith("A") and unit[1:].isdigit() else ext_actor.get(tid)
        op, args = txt[1], txt[3:]
        if txt[0] == "apiCall":
            pend[a] = (op, args)
            if op in ("push", "pushMany"):
                us = [int(args[0])] if op == "push" else [int(x) for x in args[1:]]
                head = args[1] if op == "push" else args[0]
                for u in us:
                    if state.get(u) == "in":
                        return None     # the scenario itself broke the push contract: nothing to judge
                    state[u] = "in"
                    seq[a] += 1
                    useq[u], uby[u] = (seq[a] if head == "0" else None), a
            else:
                cap = int(args[0]) if op == "popMany" else 1
                for b, rec in act.items():
                    rec[1] = min(rec[1], pushes_done - (takes + cap - rec[0]))
                act[a] = [cap, pushes_done - takes]
                takes += cap
            continue
        cop, cargs = pend.pop(a, (op, []))
        if op == "push":
            pushes_done += 1
            continue
        if op == "pushMany":
            pushes_done += max(0, len(cargs) - 1)
            continue
        cap, minlb = act.pop(a, [1, 0])
        got = []
        if op in ("pop", "popWait", "popTimedwait"):
            if int(args[0]) != -1:
                got = [int(args[0])]
        elif op == "popMany":
            n = int(args[0])
            got = [int(x) for x in args[1:]]
            if len(got) != n or any(g == -1 for g in got):
                return "line %d: pop_many reported num_popped=%d but the handles written are %s (-1 = ABT_THREAD_NULL)" % (ln, n, got)
        elif op == "remove":
            if int(args[0]) == 1 and cargs:
                got = [int(cargs[0])]
        takes -= cap - len(got)
        for u in got:
            if u < 0:
                return "line %d: %s returned a handle that is no unit of the scenario" % (ln, op)
            if state.get(u) != "in":
                return "line %d: %s returned U%d which is not in the pool (%s)" % (
                    ln, op, u, "handed out before and not pushed since" if u in state else "never pushed")
            state[u] = "out"
            tail = cop in ("pop", "popMany", "popWait") and cargs and cargs[-1] == "1"
            if fifo and op != "remove" and not tail and useq.get(u) is not None:
                if useq[u] <= last[(a, uby[u])]:
                    return "line %d: FIFO order: A%s got U%d (push #%d of A%s) after a later push #%d of the same pusher" % (
                        ln, a, u, useq[u], uby[u], last[(a, uby[u])])
                last[(a, uby[u])] = useq[u]
        if op != "remove" and len(got) < cap and minlb > len(got):
            return "line %d: %s returned %d unit(s) although at least %d were in the pool during the whole call" % (ln, op, len(got), minlb)
    return None
