"""T1: static skeleton tie.  For every C function a model claims to describe, the
function's preprocessed token stream (macros expanded, comments/whitespace gone) is
extracted from /repo's current source and compared with the skeleton the model was
written against (skel/expected/<fn>.skel, committed).  A difference means the model's
program no longer provably follows the code: the proof obligation "model = code" for
that function is broken and the caller must search for a failing input."""
import os, re, hashlib
from . import common as C

EXPECTED = os.path.join(C.VERIF, "skel", "expected")
TOKEN = re.compile(r"""
    [A-Za-z_][A-Za-z_0-9]* | 0[xX][0-9a-fA-F]+[uUlL]* | \d+\.?\d*(?:[eE][-+]?\d+)?[uUlLfF]* |
    "(?:\\.|[^"\\])*" | '(?:\\.|[^'\\])*' |
    ->|\+\+|--|<<=|>>=|<<|>>|<=|>=|==|!=|&&|\|\||\+=|-=|\*=|/=|%=|&=|\|=|\^=|\.\.\.|
    [{}()\[\];,.:?~!%^&*+=|<>/\-#]
""", re.X)

_pp_cache = {}


def preprocess(relfile):
    """Token list of the preprocessed translation unit (headers included)."""
    if relfile in _pp_cache:
        return _pp_cache[relfile]
    path = os.path.join(C.SRC, relfile)
    rc, out = C.sh(["gcc", "-E", "-P", "-DHAVE_CONFIG_H", "-I" + os.path.join(C.SRC, "include"), path])
    if rc != 0:
        raise RuntimeError("preprocess failed for %s: %s" % (relfile, out[-1500:]))
    toks = TOKEN.findall(out)
    _pp_cache[relfile] = toks
    return toks


def extract(toks, fn):
    """Tokens of the definition of `fn` (from its name to the closing brace), or None."""
    n = len(toks)
    i = 0
    while i < n:
        if toks[i] == fn and i + 1 < n and toks[i + 1] == "(":
            # only at brace depth 0
            j = i + 1
            depth = 0
            while j < n:
                if toks[j] == "(":
                    depth += 1
                elif toks[j] == ")":
                    depth -= 1
                    if depth == 0:
                        break
                j += 1
            k = j + 1
            # skip attributes between ')' and '{'
            while k < n and toks[k] == "__attribute__":
                d = 0
                k += 1
                while k < n:
                    if toks[k] == "(":
                        d += 1
                    elif toks[k] == ")":
                        d -= 1
                        if d == 0:
                            k += 1
                            break
                    k += 1
            if k < n and toks[k] == "{" and _depth0(toks, i):
                d = 0
                m = k
                while m < n:
                    if toks[m] == "{":
                        d += 1
                    elif toks[m] == "}":
                        d -= 1
                        if d == 0:
                            return toks[i:m + 1]
                    m += 1
        i += 1
    return None


_depth_cache = {}


def _depth0(toks, i):
    key = id(toks)
    if key not in _depth_cache:
        depths = []
        d = 0
        for t in toks:
            depths.append(d)
            if t == "{":
                d += 1
            elif t == "}":
                d -= 1
        _depth_cache[key] = depths
    return _depth_cache[key][i] == 0


def skeleton(relfile, fn):
    toks = preprocess(relfile)
    body = extract(toks, fn)
    if body is None:
        return None
    # __FILE__/__LINE__ expansions (assert / error macros) are position noise
    out = []
    for k, t in enumerate(body):
        if t.startswith('"') and re.search(r'\.[chS]"$', t):
            out.append('"<file>"')
        elif t.isdigit() and k >= 2 and body[k - 1] == "," and out[-2:-1] == ['"<file>"']:
            out.append("<line>")
        else:
            out.append(t)
    return " ".join(out) + "\n"


def skel_name(relfile, fn):
    """static functions of the same name exist in several files (pool_pop_wait ...): qualify those"""
    if fn.startswith(("pool_", "sched_")) or fn in ("convert_timespec_to_sec",):
        return relfile.replace("/", "_").rsplit(".", 1)[0] + "__" + fn
    return fn


def check(funcs, bless=False, key=None):
    """funcs: list of (relfile, fn).  Returns (n_checked, [ {fn,file,reason} ... ])."""
    os.makedirs(EXPECTED, exist_ok=True)
    broken = []
    n = 0
    for relfile, fn in funcs:
        cur = skeleton(relfile, fn)
        path = os.path.join(EXPECTED, skel_name(relfile, fn) + ".skel")
        n += 1
        if cur is None:
            broken.append({"fn": fn, "file": relfile, "reason": "function not found in current source"})
            continue
        if bless:
            C.write_if_changed(path, cur)
            continue
        if not os.path.exists(path):
            broken.append({"fn": fn, "file": relfile, "reason": "no expected skeleton committed"})
            continue
        exp = open(path).read()
        if exp != cur:
            a, b = exp.split(), cur.split()
            k = 0
            while k < min(len(a), len(b)) and a[k] == b[k]:
                k += 1
            broken.append({"fn": fn, "file": relfile, "reason": "skeleton differs",
                           "at_token": k, "expected": " ".join(a[max(0, k - 8):k + 12]), "current": " ".join(b[max(0, k - 8):k + 12])})
    return n, broken
