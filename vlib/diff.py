"""T2: differential execution — same operation lines to the real code (C harness)
and to the Lean model driver; outputs compared line by line; failing op lists shrunk."""
import os, subprocess
from .common import sh, driver_exe


def run_lines(cmd, lines, timeout=120, env=None):
    data = ("\n".join(lines) + "\n").encode()
    e = dict(os.environ)
    e.setdefault("ASAN_OPTIONS", "detect_leaks=0:abort_on_error=0")
    e.setdefault("UBSAN_OPTIONS", "print_stacktrace=1")
    if env:
        e.update(env)
    try:
        p = subprocess.run(cmd, input=data, stdout=subprocess.PIPE, stderr=subprocess.PIPE, timeout=timeout, env=e)
    except subprocess.TimeoutExpired:
        return -999, [], "timeout"
    return p.returncode, p.stdout.decode("utf-8", "replace").split("\n"), p.stderr.decode("utf-8", "replace")


def model_lines(model, lines, timeout=300):
    return run_lines([driver_exe(), model], lines, timeout)


def first_diff(a, b):
    for i in range(max(len(a), len(b))):
        x = a[i] if i < len(a) else "<missing>"
        y = b[i] if i < len(b) else "<missing>"
        if x != y:
            return i, x, y
    return None


def compare(model, exe, lines, env=None):
    """Returns None when equal, else a dict describing the first disagreement."""
    rc_c, out_c, err_c = run_lines([exe] if isinstance(exe, str) else exe, lines, env=env)
    rc_m, out_m, err_m = model_lines(model, lines)
    if rc_m != 0:
        return {"kind": "model-driver-failed", "rc": rc_m, "stderr": err_m[-2000:]}
    if rc_c != 0:
        return {"kind": "impl-crash", "rc": rc_c, "stderr": err_c[-3000:], "impl_out_tail": out_c[-5:]}
    d = first_diff(out_c, out_m)
    if d is None:
        return None
    return {"kind": "output-differs", "line": d[0], "impl": d[1], "model": d[2]}


def ddmin(lines, still_fails, keep_prefix=0, budget=200):
    """Delta-debug a list of lines; the first keep_prefix lines are always kept."""
    head, body = lines[:keep_prefix], lines[keep_prefix:]
    n = 2
    calls = 0
    while len(body) >= 2 and calls < budget:
        chunk = max(1, len(body) // n)
        reduced = False
        for i in range(0, len(body), chunk):
            cand = body[:i] + body[i + chunk:]
            calls += 1
            if cand and still_fails(head + cand):
                body = cand
                n = max(n - 1, 2)
                reduced = True
                break
            if calls >= budget:
                break
        if not reduced:
            if chunk == 1:
                break
            n = min(n * 2, len(body))
    return head + body


def violating_history(lines, run_impl, oracle, keep_prefix=0, budget=200, legal=None):
    """When the correspondence with the model is broken on `lines`: does the implementation's OWN output on this
    history contradict the property (independent oracle), possibly later than the first point where it differs from
    the model?  run_impl(ls) -> (rc, out_lines, err); oracle(ls, out_lines) -> text|None.  Returns (minimised lines,
    description) or None.  A crash / sanitizer abort of the implementation counts (rc != 0, not a timeout)."""
    def why(ls):
        if legal is not None and not legal(ls):
            return None
        rc, out, err = run_impl(ls)
        if rc == -999:
            return None
        if rc != 0:
            return "implementation aborted (sanitizer / assertion / signal %s): %s" % (rc, (err or "")[-800:])
        return oracle(ls, out)
    w = why(lines)
    if not w:
        return None
    small = ddmin(lines, lambda ls: why(ls) is not None, keep_prefix=keep_prefix, budget=budget)
    return small, (why(small) or w)
