"""C16 — work-unit-local storage is an independent key->value map per work unit.
Proof: Props/C16.lean over Model.KTable (sequential core for every op sequence / table size / key count;
interleaving model of the lazy NULL->LOCKED->table creation) and Model.KTableConc (concurrent set/get on one
table by any number of actors, all interleavings: append-only chains, one element per key, linearizable get,
last-writer map, destructor once).
Correspondence: T1 skeletons of the key-table functions and of the callers that pick the safe / non-safe variant;
T2 differential, API level + white-box dumps (harness/api_keys.c vs `driver ktable`);
T3 controlled-scheduler traces of harness/sc_ktable.c (owner + other units / external threads setting and getting
colliding keys of one unit at the same time) validated event by event against Model.KTableConc
(vlib/t3_ktable.py, `driver ktableconc`), with native monitors for get results, final values, chain shape and
destructor counts."""
import collections, json
from vlib import common as C
from vlib import diff as D
from vlib import t1, vs, t3_ktable


def _retry(f, *a):
    """the shared `driver` executable disappears for a moment whenever somebody relinks it"""
    import time
    for _ in range(60):
        try:
            return f(*a)
        except FileNotFoundError:
            time.sleep(2)
    return f(*a)

ASSUMPTIONS = [
    "fewer than 2^32 - 2 keys are created in one process (g_key_id is a uint32 that is never reset, ids are unique until it wraps)",
    "ABT_KEY_TABLE_SIZE <= 2^30: the loader can produce 2^31, which does not fit the `int size` field of ABTI_ktable (would also need a 16 GiB table)",
    "a unit is not freed while others access its keys (thread_free asserts !LOCKED; Model.KTableConc's free event requires every actor idle); concurrent sets/gets of the same or of colliding keys of one unit ARE covered (Model.KTableConc, sc_ktable)",
    "interleaving models are sequentially consistent at the granularity of the C11 atomics used (acquire-load / weak CAS / release-store / spinlock); the plain accesses to `value` are single steps of their own (a data race on `value` between a set and a get/set of the same key is what the API documents as the caller's business; the model gives it last-writer / linearizable-read semantics)",
    "T3: under vsched a plain `value` access executes atomically with the preceding atomic operation of its thread, so the projection places storeVal/readVal there; finer placements are covered by the proof only",
    "T3: the table lock is the only lock observed; allocation of element storage (mem-pool internals) is not projected; the owner's table is created by ythread_create's non-safe variant (migration-callback attribute) before the trace starts and replayed as a synthesized prefix",
    "ktable_create_race excludes allocation failure: with it, a caller spinning on LOCKED dereferences NULL after the creator stores NULL (Props.C16.ktable_create_race_failure_path; reported to the lead, concerns C18)",
    "API harness runs on the `plain` build (ASan's __asan_handle_no_return rejects the fcontext switch at ULT exit); ABTI_ASSERT is active",
    "T2 drives one execution stream (deterministic); sets by another unit 'while the owner runs' are sets on an ancestor (the primary ULT) from inside a child unit; true parallel sets are covered by the interleaving proof only",
    "destructor call order is not part of the property (oracle compares multisets); the model predicts the exact order (bucket 0.., chain order) and the differential compares it",
]

SIZES = [1, 2, 4, 8, 64]
ODD_SIZES = [3, 5, 6, 7, 100]


class Sim:
    """Independent Python oracle state: per-unit dict, key table, unit lifecycle."""

    def __init__(self):
        self.inited = False
        self.keys = []          # (dtor, alive)
        self.units = [dict(st=0, kind=0, vals={})]

    def alive_keys(self):
        return [i for i, (d, a) in enumerate(self.keys) if a]


def gen_program(rng, target_lines, hist, cov):
    sim = Sim()
    lines = []

    def emit(l, kind):
        lines.append(l)
        hist[kind] += 1

    def gen_subs(self_w, n, allow_exit):
        subs = []
        ak = sim.alive_keys()
        hot = ak[:6] + ak[-3:]
        for _ in range(n):
            k = rng.choice(hot) if rng.chance(6, 10) else rng.choice(ak)
            v = 0 if rng.chance(1, 8) else 1 + rng.below(1000000)
            r = rng.below(100)
            others = [w for w, u in enumerate(sim.units) if u["st"] != 0 and w != self_w]
            if r < 30:
                subs.append("%s %d %d" % (rng.choice(["sset", "sset2"]), k, v)); hist["sub_sset"] += 1
            elif r < 60:
                subs.append("%s %d" % (rng.choice(["sget", "sget2"]), k)); hist["sub_sget"] += 1
            elif r < 80 and others:
                w = 0 if (self_w != 0 and rng.chance(1, 2)) else rng.choice(others)
                subs.append("oset %d %d %d" % (w, k, v)); hist["sub_oset"] += 1
                if self_w != 0 and w == 0:
                    hist["sub_oset_on_running_ancestor"] += 1
            elif others:
                subs.append("oget %d %d" % (rng.choice(others), k)); hist["sub_oget"] += 1
            else:
                subs.append("sget %d" % k); hist["sub_sget"] += 1
        ex = allow_exit and rng.chance(1, 4)
        if ex:
            subs.append("exit")
        return subs, ex

    def finish_cycle():
        for w, u in enumerate(sim.units):
            if w == 0:
                continue
            if u["st"] == 1:
                emit("in %d exit" % w, "in")
                u["st"] = 0 if u["kind"] >= 2 else 2
            if u["st"] == 2:
                emit("free %d" % w, "free")
                u["st"] = 0
        emit("fin", "fin")
        sim.inited = False
        sim.units[0]["st"] = 0

    while len(lines) < target_lines:
        size = rng.choice(ODD_SIZES) if rng.chance(1, 8) else rng.choice(SIZES)
        emit("init %d" % size, "init")
        cov["sizes"].add(size)
        sim.inited = True
        sim.units[0] = dict(st=1, kind=0, vals={})
        want = rng.choice([1, 2, 3, 5, 8, 16, 40, 120, 300])
        while len(sim.alive_keys()) < want and len(sim.keys) < 3900:
            d = rng.below(3)
            emit("key %d" % d, "key")
            sim.keys.append((d, True))
        cov["max_keys"] = max(cov["max_keys"], len(sim.alive_keys()))
        steps = 30 + rng.below(150)
        for _ in range(steps):
            if len(sim.units) > 3900:
                break
            r = rng.below(100)
            ready = [w for w, u in enumerate(sim.units) if u["st"] == 1]
            term = [w for w, u in enumerate(sim.units) if u["st"] == 2]
            live = [w for w, u in enumerate(sim.units) if u["st"] != 0]
            if r < 12 and len(live) < 9:
                k = rng.choice(["ult", "task", "uult", "utask"])
                emit("spawn " + k, "spawn_" + k)
                sim.units.append(dict(st=1, kind=["ult", "task", "uult", "utask"].index(k), vals={}))
            elif r < 70:
                w = rng.choice(ready) if not rng.chance(1, 3) else 0
                u = sim.units[w]
                subs, ex = gen_subs(w, 1 + rng.below(6), w != 0)
                emit("in %d " % w + " ; ".join(subs), "in_primary" if w == 0 else "in_" + ["ult", "task", "uult", "utask"][u["kind"]])
                if w != 0 and (ex or u["kind"] in (1, 3)):
                    u["st"] = 0 if u["kind"] >= 2 else 2
            elif r < 78 and term:
                w = rng.choice(term)
                emit("free %d" % w, "free")
                sim.units[w]["st"] = 0
            elif r < 84 and term:
                w = rng.choice(term)
                emit("revive %d" % w, "revive")
                sim.units[w]["st"] = 1
            elif r < 88 and len(live) > 1:
                w = rng.choice([x for x in live if x != 0])
                emit("mig %d" % w, "mig")
            elif r < 96:
                emit("dump %d" % rng.choice(live), "dump")
            elif r < 98 and len(sim.alive_keys()) > 2:
                # free a key while units still hold values for it (legal: their destructors still run at unit free);
                # often the most recently created one, and often followed by the creation of another key
                ak = sim.alive_keys()
                i = ak[-1] if rng.chance(1, 2) else rng.choice(ak)
                emit("keyfree %d" % i, "keyfree")
                sim.keys[i] = (sim.keys[i][0], False)
                if rng.chance(2, 3) and len(sim.keys) < 3900:
                    d = rng.below(3)
                    emit("key %d" % d, "key_late")
                    sim.keys.append((d, True))
            elif len(sim.keys) < 3900:
                d = rng.below(3)
                emit("key %d" % d, "key_late")
                sim.keys.append((d, True))
            else:
                emit("dump 0", "dump")
        finish_cycle()
    return lines


def oracle(lines, out):
    """Does the implementation's own output contradict the property?  Independent of the Lean model:
    per-unit dict; every get must return the last value set for (unit,key) (0 if none); every free must
    call exactly the destructors of the non-NULL values stored under keys that have one (as a multiset)."""
    keys = []                       # dtor kind per key index
    units = {0: dict(st=0, kind=0, vals={})}
    nunits = 1
    inited = False
    kinds = ["ult", "task", "uult", "utask"]

    def expected_dtors(vals):
        return sorted("d%d:%d" % (keys[k], v) for k, v in vals.items() if v != 0 and keys[k] != 0)

    def got_dtors(o):
        if " | dtor " not in o:
            return []
        return sorted(o.split(" | dtor ")[1].split())

    for i, l in enumerate(lines):
        if i >= len(out) or out[i] == "":
            return "missing output for line %d `%s`" % (i, l)
        o = out[i]
        if "bad-op" in o or "harness-error" in o:
            return None  # not a valid program for the oracle (only arises in shrunk inputs)
        w = l.split()
        if w[0] == "init":
            inited = True
            units[0] = dict(st=1, kind=0, vals={})
        elif w[0] == "key":
            keys.append(int(w[1]))
        elif w[0] == "spawn":
            units[nunits] = dict(st=1, kind=kinds.index(w[1]), vals={})
            nunits += 1
        elif w[0] == "in":
            me = int(w[1])
            body = l.split(None, 2)[2] if len(w) > 2 else ""
            subs = [s.split() for s in body.split(";") if s.split()]
            head = o.split(":", 1)[1]
            tail = ""
            for marker in (" | term", " | yield"):
                if marker in head:
                    head, tail = head.rsplit(marker, 1)
                    tail = marker + tail
            res = [r.strip() for r in head.split(" ;")]
            if len(res) != len(subs):
                return "line %d `%s`: %d results for %d sub-operations" % (i, l, len(res), len(subs))
            ex = False
            for s, r in zip(subs, res):
                r0 = r.split(" | ")[0].split()
                if s[0] in ("sset", "sset2"):
                    if r0 != ["set", "0"]:
                        return "line %d `%s`: set reported %s" % (i, l, r0)
                    units[me]["vals"][int(s[1])] = int(s[2])
                elif s[0] == "oset":
                    if r0 != ["set", "0"]:
                        return "line %d `%s`: set reported %s" % (i, l, r0)
                    units[int(s[1])]["vals"][int(s[2])] = int(s[3])
                elif s[0] in ("sget", "sget2", "oget"):
                    tgt, k = (me, int(s[1])) if s[0] != "oget" else (int(s[1]), int(s[2]))
                    exp = units[tgt]["vals"].get(k, 0)
                    if r0 != ["get", "0", str(exp)]:
                        return ("line %d `%s`: `%s` on unit %d returned %s, the last value set for that key on that "
                                "unit is %d" % (i, l, " ".join(s), tgt, r0, exp))
                elif s[0] == "exit":
                    ex = True
            u = units[me]
            if me != 0 and (ex or u["kind"] in (1, 3)):
                if u["kind"] >= 2:
                    exp = expected_dtors(u["vals"])
                    if got_dtors(o) != exp:
                        return "line %d `%s`: unnamed unit freed with destructor calls %s, expected %s" % (i, l, got_dtors(o), exp)
                    u["st"], u["vals"] = 0, {}
                else:
                    u["st"] = 2
                    if got_dtors(o):
                        return "line %d `%s`: destructors called before the unit was freed" % (i, l)
            elif got_dtors(o):
                return "line %d `%s`: destructors called while the unit is alive" % (i, l)
        elif w[0] in ("free", "fin"):
            me = int(w[1]) if w[0] == "free" else 0
            exp = expected_dtors(units[me]["vals"])
            if got_dtors(o) != exp:
                return "line %d `%s`: destructor calls %s, expected exactly %s" % (i, l, got_dtors(o), exp)
            units[me]["st"], units[me]["vals"] = 0, {}
        elif w[0] == "revive":
            units[int(w[1])]["st"] = 1
        elif w[0] in ("mig", "dump", "keyfree"):
            if got_dtors(o):
                return "line %d `%s`: unexpected destructor calls" % (i, l)
    return None


def _cmp(exe, lines):
    return _retry(D.compare, "ktable", exe, lines)


def t2_keys(res, tier, broken):
    exe = C.cc_harness("api_keys", ["api_keys.c"], "plain")
    rng = C.Rng(res.seed * 7919 + 16)
    if tier == "quick" and not broken:
        rounds, nlines = 5, 700
    elif tier == "quick":
        rounds, nlines = 20, 1500
    else:
        rounds, nlines = 60, 3000
    hist = collections.Counter()
    cov = {"sizes": set(), "max_keys": 0}
    total_lines = 0
    pending = None      # first disagreement without a property failure (reported if the search finds nothing better)
    r = -1
    while r + 1 < rounds:
        r += 1
        lines = gen_program(rng, nlines, hist, cov)
        total_lines += len(lines)
        if r == 0:
            res.sample({"api_keys_ops": lines[:14]})
        d = _cmp(exe, lines)
        if d is None:
            continue
        if pending is not None:
            # the tie is already known to be broken: only look for a history on which the property itself fails
            vh = D.violating_history(lines, lambda ls: D.run_lines([exe], ls), oracle, budget=250,
                                     legal=lambda ls: not any("bad-op" in x or "harness-error" in x for x in D.run_lines([exe], ls)[1]))
            if vh:
                small, why = vh
                rc, out_c, err = D.run_lines([exe], small)
                res.violation("work-unit-local storage does not behave as a per-unit map: " + why,
                              {"correspondence": "T2 keys (harness/api_keys.c vs Model.KTable via `driver ktable`)", "ops": small,
                               "disagreement": _cmp(exe, small) or d, "impl_output": out_c[:200], "oracle": why})
                pending = None
                break
            continue

        def still(ls):
            dd = _cmp(exe, ls)
            if dd is None:
                return False
            rc, oc, _ = D.run_lines([exe], ls)
            return not any("bad-op" in x or "harness-error" in x for x in oc)
        vh = D.violating_history(lines, lambda ls: D.run_lines([exe], ls), oracle, budget=250,
                                 legal=lambda ls: not any("bad-op" in x or "harness-error" in x for x in D.run_lines([exe], ls)[1]))
        if vh:
            small, why = vh
            rc, out_c, err = D.run_lines([exe], small)
            res.violation("work-unit-local storage does not behave as a per-unit map: " + why,
                          {"correspondence": "T2 keys (harness/api_keys.c vs Model.KTable via `driver ktable`)", "ops": small,
                           "disagreement": _cmp(exe, small) or d, "impl_output": out_c[:200], "oracle": why})
            break
        small = D.ddmin(lines, still, keep_prefix=0, budget=250)
        d2 = _cmp(exe, small) or d
        rc, out_c, err = D.run_lines([exe], small)
        why = oracle(small, out_c) if rc == 0 else "implementation aborted (assert/signal %s): %s" % (rc, err[-800:])
        rep = {"correspondence": "T2 keys (harness/api_keys.c vs Model.KTable via `driver ktable`)", "ops": small,
               "disagreement": d2, "impl_output": out_c[:200], "oracle": why}
        if why:
            res.violation("work-unit-local storage does not behave as a per-unit map: " + why, rep)
            break
        pending = rep
        rounds = max(rounds, 40)
    if pending is not None:
        res.violation("T2 key-table correspondence broken (implementation still map-like on every explored history: layout / "
                      "destructor order / block carving differs from the model)", pending, no_input=True)
    nsub = sum(v for k, v in hist.items() if k.startswith("sub_"))
    res.add_cov(programs=rounds, disagreements_checked=total_lines, key_ops=nsub + total_lines,
                key_op_histogram=dict(hist), key_table_sizes=sorted(cov["sizes"]), max_live_keys=cov["max_keys"])


T1_FUNCS = [("key.c", f) for f in [
    "ABTI_ktable_set_impl", "ABTI_ktable_set", "ABTI_ktable_set_unsafe", "ABTI_ktable_get", "ABTI_ktable_create",
    "ABTI_ktable_alloc_elem", "ABTI_ktable_get_idx", "ABTI_ktable_is_valid", "ABTI_ktable_free", "ABT_key_set",
    "ABT_key_get", "ABT_key_create", "ABT_key_free", "ABTI_key_get_ptr", "ABTI_key_get_handle", "ABTD_spinlock_acquire", "ABTD_spinlock_release"]] + [
    ("self.c", "ABT_self_set_specific"), ("self.c", "ABT_self_get_specific"),
    ("thread.c", "ABT_thread_set_specific"), ("thread.c", "ABT_thread_get_specific"),
    ("thread.c", "ABTI_thread_get_mig_data"), ("thread.c", "ythread_create"), ("thread.c", "thread_free")]


def scenario_params(rng):
    nes = 2 + rng.below(2)
    nact = 2 + rng.below(4)
    rounds = 3 + rng.below(5)
    nkeys = 2 + rng.below(4)
    size = rng.choice([1, 1, 2, 4])
    return [nes, nact, rounds, nkeys, size, rng.choice([0, 25, 50]), rng.choice([20, 35, 50])]


def t3_conc(res, tier, broken):
    n, tb = t1.check(T1_FUNCS)
    res.add_cov(t1_functions=n, t1_broken=len(tb))
    for b in tb:
        broken.append({"kind": "T1-skeleton", **b})
    vs.campaign(res, broken, tier, "C16", "sc_ktable", ["sc_ktable.c"], scenario_params, t3_ktable.validate,
                sizes={"quick": (16, 4), "thorough": (150, 8), "search": (150, 8)},
                reject_is_failure=vs.protocol_reject_is_failure)


def run(res, tier, broken):
    t3_conc(res, tier, broken)
    t2_keys(res, tier, broken)


def replay(res, path):
    rep = json.load(open(path))
    if rep.get("scenario") == "sc_ktable":
        return vs.replay("sc_ktable", ["sc_ktable.c"], path, t3_ktable.validate)
    exe = C.cc_harness("api_keys", ["api_keys.c"], "plain")
    if "ops" in rep:
        d = _cmp(exe, rep["ops"])
        rc, out_c, err = D.run_lines([exe], rep["ops"])
        print("disagreement:", d)
        print("oracle:", oracle(rep["ops"], out_c) if rc == 0 else err[-500:])
        return 1 if d else 0
    print("replay file names a broken obligation without a failing input:", rep.get("broken"))
    return 1
