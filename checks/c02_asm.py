"""C02, assembly half — "a ULT resumes with its stack contents, callee-saved registers and
floating-point control state exactly as it left them, on a 16-byte aligned stack".

Proof side (built by check.py before run() is called): tools/asmgen.py regenerates
lean/ArgoVerif/Gen/Fcontext.lean from the tree's fcontext_x86_64_sysv_elf_gas.S and
Props/C02.lean proves fctx_roundtrip_* / fctx_save_before_call* / fctx_init_aligned_* /
fctx_saved_sp_aligned_* / fctx_peek_restores about those lists in the machine model Model/X86.

This file is the tie of that machine model (and of asmgen) to the CPU:
  pass 1  every routine is run natively (harness/fctx_native: the tree's .S assembled as is,
          entered with a fully specified register file / stack windows / MXCSR / x87 CW,
          left through landing pads that capture the whole machine state, with a recording
          callback) and in the model (`driver x86` interpreting the generated lists) from the
          same random states; final states must be identical.
  pass 2  for every pass-1 run of a saving routine the context it saved is resumed (or peeked)
          natively by a random restoring routine from a fresh random register file, again
          compared with the model.
Independently of the model, canaries are evaluated on the NATIVE outputs (the property
itself: callee-saved registers / MXCSR / CW / rsp / return address / stack contents after the
round trip, entry alignment of fresh ULTs and callbacks, context saved before the callback).
A disagreement whose native run also breaks a canary is a concrete violation; otherwise it
is reported without a failing input.
"""
import collections, json, os
from vlib import common as C
from vlib import diff as D

ASSUMPTIONS = [
    "x86-64 SysV, fcontext back end (ABT_CONFIG_USE_FCONTEXT), assembly file fcontext_x86_64_sysv_elf_gas.S preprocessed "
    "with the tree's abt_config.h; the ucontext back end and other architectures are not covered",
    "machine model: registers/addresses are unbounded integers (no 64-bit wrap-around of rsp/stack-top arithmetic); "
    "memory is separated by access width, justified per routine by the proved check noMixedWidth; all 64-bit accesses "
    "are 8-byte aligned relative to each other (rsp is 8-aligned at every call site, fcontext_t is pointer-aligned); "
    "flags and caller-saved/vector registers are not modelled (not required to survive by the ABI)",
    "external callbacks (f_cb, f_peek) obey the SysV ABI: return to the caller, preserve rbx rbp r12-r15, rsp, the MXCSR "
    "control bits and the x87 control word, and do not write the 64 bytes of the caller's frame above their return "
    "address (hypothesis AbiEnv env 64 of the theorems; for peek additionally the peeking thread's own two stack words)",
    "the saved 0x40-byte frame and the context word are not modified between save and resume, and the context word "
    "does not lie inside the frame (hypotheses of fctx_roundtrip_*; disjointness of stacks is C15, publication order is "
    "the protocol half of C02)",
    "argument registers follow the prototypes in abtd_fcontext.h under the SysV convention (rdi rsi rdx rcx r8 r9); "
    "theorem fctx_ctx_args ties the context-pointer registers to the generated code",
    "instruction semantics of the model are tied to the CPU only by the native differential on the sampled states "
    "(MXCSR: rounding mode, FTZ, DAZ vary, exceptions masked; x87 CW: precision and rounding vary)",
]

BASE = 0x100000000000
WA, WB, WC = BASE + 0x1000, BASE + 0x3000, BASE + 0x5000
NW, NC = 48, 4
MARK_A, MARK_B, MARK_C, MARK_CB = 0xC0DE00000A, 0xC0DE00000B, 0xC0DE00000C, 0xC0DE0000CB
MARKS = (MARK_A, MARK_B, MARK_C, MARK_CB)
REGS = ["rax", "rbx", "rcx", "rdx", "rsi", "rdi", "rbp", "rsp", "r8", "r9", "r10", "r11", "r12", "r13", "r14", "r15"]
CALLEE_SAVED = ["rbx", "rbp", "r12", "r13", "r14", "r15"]

# argument registers, from the prototypes in src/include/abtd_fcontext.h
ARGS = {
    "switch_fcontext": dict(new="rdi", old="rsi"),
    "jump_fcontext": dict(new="rdi"),
    "init_and_switch_fcontext": dict(new="rdi", f="rsi", top="rdx", old="rcx"),
    "init_and_jump_fcontext": dict(new="rdi", f="rsi", top="rdx"),
    "switch_with_call_fcontext": dict(arg="rdi", cb="rsi", new="rdx", old="rcx"),
    "jump_with_call_fcontext": dict(arg="rdi", cb="rsi", new="rdx"),
    "init_and_switch_with_call_fcontext": dict(arg="rdi", cb="rsi", new="rdx", f="rcx", top="r8", old="r9"),
    "init_and_jump_with_call_fcontext": dict(arg="rdi", cb="rsi", new="rdx", f="rcx", top="r8"),
    "peek_fcontext": dict(arg="rdi", cb="rsi", new="rdx"),
}
SAVERS = [r for r in ARGS if "old" in ARGS[r]]
RESTORERS = ["switch_fcontext", "jump_fcontext", "switch_with_call_fcontext", "jump_with_call_fcontext"]
INITS = [r for r in ARGS if "top" in ARGS[r]]


def rnd64(rng):
    k = rng.below(8)
    if k == 0:
        return rng.below(4)
    if k == 1:
        return (1 << 64) - 1 - rng.below(4)
    v = rng.next()
    return v + 1 if v in MARKS else v


def rnd_mxcsr(rng):
    return 0x1F80 | (rng.below(4) << 13) | (rng.below(2) << 15) | (rng.below(2) << 6)


def rnd_fpucw(rng):
    return 0x007F | (rng.choice([0, 2, 3]) << 8) | (rng.below(4) << 10)


def rnd_window(rng, mem, base):
    for i in range(NW):
        mem[base + 8 * i] = rnd64(rng)


def put_frame(rng, mem, sp, ret):
    """a resumable context frame as the .S header documents it (needs valid FP control words)"""
    mem[sp] = rnd_mxcsr(rng) | (rnd_fpucw(rng) << 32) | (rng.below(1 << 16) << 48)
    for i in range(1, 7):
        mem[sp + 8 * i] = rnd64(rng)
    mem[sp + 56] = ret


def base_state(rng):
    st = {"regs": {r: rnd64(rng) for r in REGS}, "mxcsr": rnd_mxcsr(rng), "fpucw": rnd_fpucw(rng), "mem": {}}
    rnd_window(rng, st["mem"], WA)
    rnd_window(rng, st["mem"], WB)
    for i in range(NC):
        st["mem"][WC + 8 * i] = rnd64(rng)
    return st


def gen_pass1(rng, routine):
    a = ARGS[routine]
    st = base_state(rng)
    regs, mem = st["regs"], st["mem"]
    rsp = WA + 8 * (16 + rng.below(16))
    regs["rsp"] = rsp
    mem[rsp] = MARK_A
    slots = [WC + 8 * i for i in range(NC)]
    new = rng.choice(slots)
    old = rng.choice([s for s in slots if s != new])
    info = {"routine": routine, "kind": "pass1"}
    regs[a["new"]] = new
    if "old" in a:
        regs[a["old"]] = old
        info["old"] = old
    if "cb" in a:
        regs[a["cb"]] = MARK_CB
    if "top" in a:
        k = rng.below(3)
        off = 160 + rng.below(8 * 44 - 160)
        top = WB + (off & ~15 if k == 0 else off & ~7 if k == 1 else off)
        regs[a["top"]] = top
        regs[a["f"]] = MARK_C
        info["top"] = top
        info["top_align"] = "16" if top % 16 == 0 else "8" if top % 8 == 0 else "odd"
    else:
        if routine == "switch_fcontext" and rng.chance(1, 16):
            regs[a["new"]] = old            # switch to the context being saved: returns to the caller
            info["self_switch"] = True
        else:
            sp = WB + 8 * (8 + rng.below(22))
            mem[new] = sp
            put_frame(rng, mem, sp, MARK_B)
            info["target_sp"] = sp
    st["watch"] = info.get("old", new)
    info["new"] = regs[a["new"]]
    return st, info


def gen_pass2(rng, st1, info1, out1):
    """resume / peek the context that pass 1 saved, from a fresh register file on stack B"""
    st = {"regs": {r: rnd64(rng) for r in REGS}, "mxcsr": rnd_mxcsr(rng), "fpucw": rnd_fpucw(rng),
          "mem": dict(st1["mem"])}
    st["mem"].update(out1["diff"])
    routine = rng.choice(RESTORERS + ["peek_fcontext"])
    a = ARGS[routine]
    regs, mem = st["regs"], st["mem"]
    rsp = (out1["regs"]["rsp"] & ~7) - 8 * (2 + rng.below(4))
    regs["rsp"] = rsp
    mem[rsp] = MARK_B
    regs[a["new"]] = info1["old"]
    info = {"routine": routine, "kind": "pass2", "saver": info1["routine"], "new": info1["old"]}
    if "old" in a:
        info["old"] = rng.choice([WC + 8 * i for i in range(NC) if WC + 8 * i != info1["old"]])
        regs[a["old"]] = info["old"]
    if "cb" in a:
        regs[a["cb"]] = MARK_CB
    st["watch"] = info1["old"]
    return st, info


def line_of(st, info):
    toks = [info["routine"]]
    toks += ["%s=%d" % (r, st["regs"][r]) for r in REGS]
    toks += ["mxcsr=%d" % st["mxcsr"], "fpucw=%d" % st["fpucw"],
             "win=%d,%d" % (WA, NW), "win=%d,%d" % (WB, NW), "win=%d,%d" % (WC, NC), "watch=%d" % st["watch"]]
    toks += ["m%d=%d" % (a, v) for a, v in sorted(st["mem"].items()) if v != 0]
    return " ".join(toks)


def parse_out(line):
    """-> dict or None (crash / bad-op / missing)"""
    if not line or not line.startswith("pc="):
        return None
    o = {"regs": {}, "calls": [], "diff": {}}
    for tok in line.split():
        k, v = tok.split("=", 1)
        if k == "pc":
            o["pc"] = None if v == "none" else int(v)
        elif k in REGS:
            o["regs"][k] = int(v)
        elif k in ("mxcsr", "fpucw"):
            o[k] = int(v)
        elif k == "calls":
            o["ncalls"] = int(v)
        elif k == "c":
            t, a, sp, w = [int(x) for x in v.split(",")]
            o["calls"].append({"target": t, "arg": a, "sp": sp, "watch": w})
        elif k.startswith("d"):
            o["diff"][int(k[1:])] = int(v)
    return o


# --------------------------------------------------------------------------
# canaries: the property, evaluated on native outputs only
# --------------------------------------------------------------------------
def stack_above_intact(st0, outs, lo, hi):
    """no word in [lo, hi) differs from st0 in any of the given outputs"""
    for o in outs:
        for a, v in o["diff"].items():
            if lo <= a < hi and v != st0["mem"].get(a, 0):
                return "stack word %#x changed from %#x to %#x" % (a, st0["mem"].get(a, 0), v)
    return None


def canary_pass1(st, info, out):
    r = info["routine"]
    a = ARGS[r]
    regs0 = st["regs"]
    bad = []
    if out is None:
        return ["native run crashed"]
    if "top" in a:
        top = info["top"]
        sp = out["regs"]["rsp"]
        if out["pc"] != MARK_C:
            bad.append("fresh ULT did not enter f_thread")
        if (sp + 8) % 16 != 0:
            bad.append("f_thread entered with (rsp+8)%%16 = %d" % ((sp + 8) % 16))
        if not (top - 16 < sp + 8 <= top):
            bad.append("f_thread rsp+8 = %#x not in (p_stacktop-16, p_stacktop] (p_stacktop=%#x)" % (sp + 8, top))
        if out["regs"]["rdi"] != regs0[a["new"]]:
            bad.append("f_thread did not receive p_new_ctx")
        if "cb" in a:
            if out["ncalls"] != 1:
                bad.append("callback called %d times" % out["ncalls"])
            else:
                c = out["calls"][0]
                if c["sp"] % 16 != 0:
                    bad.append("callback called with rsp%%16 = %d" % (c["sp"] % 16))
                if not (top - 16 < c["sp"] <= top):
                    bad.append("callback rsp %#x above/below p_stacktop %#x" % (c["sp"], top))
                if c["arg"] != regs0[a["arg"]]:
                    bad.append("callback did not receive cb_arg")
        for ad, v in out["diff"].items():
            if WB <= ad < WB + 8 * NW and ad + 8 > top:
                bad.append("wrote %#x at or above p_stacktop %#x" % (ad, top))
    if "old" in a:
        saved = out["diff"].get(info["old"], st["mem"].get(info["old"], 0))
        if (regs0["rsp"] + 8) % 16 == 0 and saved % 16 != 0:
            bad.append("saved stack pointer %#x not 16-byte aligned although the call site was" % saved)
        if "cb" in a and out["ncalls"] >= 1 and out["calls"][0]["watch"] != saved:
            bad.append("*p_old_ctx was %#x when the callback ran, %#x afterwards: context not saved before the callback"
                       % (out["calls"][0]["watch"], saved))
        w = stack_above_intact(st, [out], regs0["rsp"], WA + 8 * NW)
        if w:
            bad.append("caller's stack above rsp modified: " + w)
    if r == "peek_fcontext":
        bad += canary_peek(st, info, out)
    return bad


def canary_peek(st, info, out):
    bad = []
    regs0 = st["regs"]
    if out["pc"] != st["mem"].get(regs0["rsp"]):
        bad.append("peek did not return to its caller")
    if out["regs"]["rsp"] != regs0["rsp"] + 8:
        bad.append("peek returned with rsp %#x, expected %#x" % (out["regs"]["rsp"], regs0["rsp"] + 8))
    for r in CALLEE_SAVED:
        if out["regs"][r] != regs0[r]:
            bad.append("peek clobbered %s" % r)
    if out["mxcsr"] != st["mxcsr"] or out["fpucw"] != st["fpucw"]:
        bad.append("peek changed FP control state")
    tsp = st["mem"].get(info["new"], 0)
    if out["ncalls"] != 1 or out["calls"][0]["sp"] != tsp:
        bad.append("f_peek not called exactly once on the target's saved stack pointer")
    w = stack_above_intact(st, [out], tsp, tsp + 64)
    if w:
        bad.append("target frame modified by peek: " + w)
    return bad


def canary_pass2(st0, info0, out0, st1, info1, out1):
    """round trip: state st0 saved by info0['routine'], resumed by info1['routine'] (native out1)"""
    if out1 is None:
        return ["native resume crashed"]
    if info1["routine"] == "peek_fcontext":
        bad = canary_peek(st1, info1, out1)
        if (st0["regs"]["rsp"] + 8) % 16 == 0 and out1["calls"] and out1["calls"][0]["sp"] % 16 != 0:
            bad.append("f_peek called with unaligned rsp on a context saved from an aligned call site")
        return bad
    bad = []
    regs0 = st0["regs"]
    if out1["pc"] != MARK_A:
        bad.append("resumed at %r, not at the saved return address" % (out1["pc"],))
    if out1["regs"]["rsp"] != regs0["rsp"] + 8:
        bad.append("resumed with rsp %#x, expected %#x" % (out1["regs"]["rsp"], regs0["rsp"] + 8))
    for r in CALLEE_SAVED:
        if out1["regs"][r] != regs0[r]:
            bad.append("%s = %#x after resume, %#x at save" % (r, out1["regs"][r], regs0[r]))
    if out1["mxcsr"] != st0["mxcsr"]:
        bad.append("MXCSR = %#x after resume, %#x at save" % (out1["mxcsr"], st0["mxcsr"]))
    if out1["fpucw"] != st0["fpucw"]:
        bad.append("x87 CW = %#x after resume, %#x at save" % (out1["fpucw"], st0["fpucw"]))
    w = stack_above_intact(st0, [out0, out1], regs0["rsp"], WA + 8 * NW)
    if w:
        bad.append("stack contents above the saved rsp not as left: " + w)
    if "cb" in ARGS[info1["routine"]] and out1["calls"]:
        if (regs0["rsp"] + 8) % 16 == 0 and out1["calls"][0]["sp"] % 16 != 0:
            bad.append("callback on the resumed stack called with unaligned rsp")
    return bad


# --------------------------------------------------------------------------
def harness():
    """fctx_native = harness/fctx_native.c + harness/fctx_tramp.S + the tree's own .S, preprocessed with the
    tree's abt_config.h exactly as the library build does (C.INC).  Built into build/fctx/<hash>/ (it does not
    need libabt, so the repo library cache is not touched)."""
    import hashlib
    srcs = [os.path.join(C.VERIF, "harness", "fctx_native.c"), os.path.join(C.VERIF, "harness", "fctx_tramp.S"),
            C.fcontext_asm()]
    h = hashlib.sha256()
    for s in srcs + [os.path.join(C.SRC, "include", "abt_config.h")]:
        with open(s, "rb") as f:
            h.update(f.read())
    cc, flags = C.VARIANTS["plain"]
    h.update((cc + flags + C.INC).encode())
    d = os.path.join(C.BUILD, "fctx", h.hexdigest()[:16])
    exe = os.path.join(d, "fctx_native")
    with C.Lock("cc-fctx_native"):
        if os.path.exists(exe):
            return exe
        base = os.path.dirname(d)
        if os.path.isdir(base):                      # keep the cache small: only the newest few
            olds = sorted((os.path.join(base, x) for x in os.listdir(base)), key=os.path.getmtime)
            for o in olds[:-4]:
                import shutil
                shutil.rmtree(o, ignore_errors=True)
        os.makedirs(d, exist_ok=True)
        tmp = exe + ".tmp%d" % os.getpid()
        C.sh("%s %s %s %s -o %s" % (cc, flags, C.INC, " ".join(srcs), tmp), check=True)
        os.rename(tmp, exe)
    return exe


def run_both(exe, lines, driver=None):
    """-> (native output lines, model output lines or None when no usable driver)"""
    if not lines:
        return [], ([] if driver else None)
    rc_c, out_c, err_c = D.run_lines([exe], lines, timeout=900)
    if rc_c != 0:
        raise RuntimeError("fctx_native failed rc=%s: %s" % (rc_c, err_c[-1500:]))
    out_m = None
    if driver:
        rc_m, out_m, err_m = D.run_lines([driver, "x86"], lines, timeout=900)
        if rc_m != 0:
            out_m = None
    return out_c, out_m


def private_driver():
    """A private copy of the model driver for the duration of this run (other checks may relink
    lean/.lake/build/bin/driver concurrently).  None if there is no working driver."""
    import shutil, time
    src = C.driver_exe()
    dst = os.path.join(C.BUILD, "fctx", "driver-%d" % os.getpid())
    os.makedirs(os.path.dirname(dst), exist_ok=True)
    for _ in range(5):
        try:
            shutil.copy2(src, dst)
            rc, out, _ = D.run_lines([dst, "x86"], ["jump_fcontext rsp=0"], timeout=60)
            if rc == 0 and out and out[0].startswith("pc="):
                return dst
        except OSError:
            pass
        time.sleep(1)
    try:
        os.unlink(dst)
    except OSError:
        pass
    return None


def process_chunk(job):
    """One independent slice of the differential (own PRNG stream): pass 1, pass 2, comparison,
    canaries.  Returns counters and findings only (states are dropped: memory stays bounded)."""
    seed, idx, n1, exe, driver = job
    rng = C.Rng((seed * 7919 + 2) * 1000003 + idx)
    routines = list(ARGS)
    cov, pairs = collections.Counter(), collections.Counter()
    findings = []
    mxs, cws = set(), set()

    def report(what, concrete, rep):
        crashed = any("crashed" in b for b in rep.get("canaries_broken") or [])
        # failing inputs first: mere disagreements must not crowd them out
        nconc = sum(1 for f in findings if f[2])
        if (concrete and nconc < 12) or (not concrete and len(findings) - nconc < 6):
            findings.append((0 if concrete and not crashed else 1 if concrete else 2, what, concrete, rep))

    # ---- pass 1
    cases1 = []
    for i in range(n1):
        st, info = gen_pass1(rng, routines[(idx + i) % len(routines)])
        cases1.append((st, info, line_of(st, info)))
        mxs.add(st["mxcsr"])
        cws.add(st["fpucw"])
    nat1, mod1 = run_both(exe, [c[2] for c in cases1], driver)
    # ---- pass 2 (built from the native pass-1 results)
    cases2 = []
    for i, (st, info, _) in enumerate(cases1):
        o = parse_out(nat1[i] if i < len(nat1) else "")
        cov["p1:" + info["routine"]] += 1
        if "top_align" in info:
            cov["stacktop_align_" + info["top_align"]] += 1
        if info.get("self_switch"):
            cov["self_switch"] += 1
        if o is None:
            cov["native_crash"] += 1
        if o is None or "old" not in info or info.get("self_switch"):
            continue
        st2, info2 = gen_pass2(rng, st, info, o)
        cases2.append((i, st2, info2, line_of(st2, info2)))
    nat2, mod2 = run_both(exe, [c[3] for c in cases2], driver)
    model_ok = mod1 is not None and mod2 is not None
    ndis = ncan = 0
    # ---- compare + canaries, pass 1
    for i, (st, info, line) in enumerate(cases1):
        nl = nat1[i] if i < len(nat1) else "<missing>"
        o = parse_out(nl)
        bad = canary_pass1(st, info, o)
        dis = mod1 is not None and (i >= len(mod1) or mod1[i] != nl)
        if bad or dis:
            ndis += dis
            ncan += bool(bad)
            rep = {"correspondence": "C02 asm pass 1 (harness/fctx_native vs driver x86)", "lines": [line],
                   "infos": [info], "routine": info["routine"], "native": nl,
                   "model": mod1[i] if mod1 and i < len(mod1) else None, "canaries_broken": bad}
            if bad:
                report("%s breaks the context-switch contract natively: %s" % (info["routine"], "; ".join(bad[:3])), True, rep)
            else:
                report("machine model and CPU disagree on %s (no canary broken on this state)" % info["routine"], False, rep)
    # ---- pass 2
    for j, (i, st2, info2, line2) in enumerate(cases2):
        st, info, line = cases1[i]
        o1 = parse_out(nat1[i])
        nl = nat2[j] if j < len(nat2) else "<missing>"
        o2 = parse_out(nl)
        pairs["%s->%s" % (info["routine"], info2["routine"])] += 1
        if o2 is None:
            cov["native_crash"] += 1
        bad = canary_pass2(st, info, o1, st2, info2, o2)
        dis = mod2 is not None and (j >= len(mod2) or mod2[j] != nl)
        if bad or dis:
            ndis += dis
            ncan += bool(bad)
            rep = {"correspondence": "C02 asm pass 2: context saved by %s resumed by %s" % (info["routine"], info2["routine"]),
                   "lines": [line, line2], "infos": [info, info2], "routine": info2["routine"], "saver": info["routine"],
                   "native": nl, "model": mod2[j] if mod2 and j < len(mod2) else None, "canaries_broken": bad}
            if bad:
                report("context saved by %s and resumed by %s is not restored: %s"
                       % (info["routine"], info2["routine"], "; ".join(bad[:3])), True, rep)
            else:
                report("machine model and CPU disagree on %s resuming a context of %s (no canary broken)"
                       % (info2["routine"], info["routine"]), False, rep)
    samples = []
    if idx == 0 and cases1:
        samples.append({"fctx_pass1_line": cases1[0][2][:600] + " ...", "native": nat1[0][:400]})
        if cases2:
            samples.append({"fctx_pass2": "%s -> %s" % (cases1[cases2[0][0]][1]["routine"], cases2[0][2]["routine"]),
                            "native": nat2[0][:400]})
    return {"n1": len(cases1), "n2": len(cases2), "cov": cov, "pairs": pairs, "findings": findings, "ndis": ndis,
            "ncan": ncan, "mxcsr": mxs, "fpucw": cws, "model_ok": model_ok, "samples": samples}


def run(res, tier, broken):
    import concurrent.futures
    exe = harness()
    n1 = 1400 if tier == "quick" else 140000
    if broken and tier == "quick":
        n1 = 14000          # something no longer checks: search harder for a concrete failing state
    driver = private_driver()
    chunk = 350 if n1 <= 1400 else 1750
    jobs = [(res.seed, k, min(chunk, n1 - k * chunk), exe, driver) for k in range((n1 + chunk - 1) // chunk)]
    try:
        with concurrent.futures.ProcessPoolExecutor(max_workers=max(1, min(C.NCPU, len(jobs)))) as ex:
            results = list(ex.map(process_chunk, jobs))
    finally:
        if driver:
            os.unlink(driver)
    cov, pairs = collections.Counter(), collections.Counter()
    findings, mxs, cws = [], set(), set()
    for r in results:
        cov.update(r["cov"])
        pairs.update(r["pairs"])
        findings += r["findings"]
        mxs |= r["mxcsr"]
        cws |= r["fpucw"]
        for s in r["samples"]:
            res.sample(s)
    model_ok = all(r["model_ok"] for r in results)
    if not model_ok:
        broken.append({"kind": "driver-x86-unavailable"})
    findings.sort(key=lambda f: f[0])
    for _, what, concrete, rep in findings[:3]:
        res.violation(what, rep, no_input=not concrete)
    if broken:
        res.add_cov(fctx_broken_obligations=[{"kind": b.get("kind"), "theorems": b.get("theorems"),
                                              "errors": (b.get("errors") or [])[:6]} for b in broken])
    n1d, n2d = sum(r["n1"] for r in results), sum(r["n2"] for r in results)
    res.add_cov(programs=n1d + n2d, disagreements_checked=n1d + n2d,
                fctx_states_pass1=n1d, fctx_roundtrips_pass2=n2d, fctx_disagreements=sum(r["ndis"] for r in results),
                fctx_canary_failures=sum(r["ncan"] for r in results), fctx_per_routine=dict(cov),
                fctx_save_resume_pairs=dict(pairs), fctx_distinct_mxcsr=len(mxs), fctx_distinct_fpucw=len(cws),
                fctx_model_compared=model_ok)


def parse_line(line):
    """inverse of line_of (states in replay files are stored as protocol lines)"""
    toks = line.split()
    st = {"regs": {r: 0 for r in REGS}, "mxcsr": 0, "fpucw": 0, "mem": {}, "watch": 0}
    for tok in toks[1:]:
        k, v = tok.split("=", 1)
        if k in REGS:
            st["regs"][k] = int(v)
        elif k in ("mxcsr", "fpucw", "watch"):
            st[k] = int(v)
        elif k.startswith("m"):
            st["mem"][int(k[1:])] = int(v)
    return toks[0], st


def replay(res, rep):
    """rep: parsed replay object with 'lines' (protocol lines: [pass-1 state] or [pass-1 state,
    pass-2 state]) and 'infos'.  Re-runs both sides and re-evaluates the canaries natively."""
    exe = harness()
    lines = rep.get("lines") or []
    if not lines:
        print("replay file names a broken obligation without a failing input:", rep.get("broken"))
        return 1
    driver = private_driver()
    try:
        nat, mod = run_both(exe, lines, driver)
    finally:
        if driver:
            os.unlink(driver)
    rc = 0
    for i, l in enumerate(lines):
        print("state   :", l[:300], "...")
        print("native  :", nat[i])
        print("model   :", mod[i] if mod else "<driver unavailable>")
        if mod is None or mod[i] != nat[i]:
            print("=> model and CPU disagree")
            rc = 1
    infos = rep.get("infos") or []
    if len(infos) == len(lines):
        sts = [parse_line(l)[1] for l in lines]
        outs = [parse_out(x) for x in nat[:len(lines)]]
        bad = canary_pass1(sts[0], infos[0], outs[0])
        if len(lines) == 2:
            bad += canary_pass2(sts[0], infos[0], outs[0], sts[1], infos[1], outs[1])
        print("canaries broken natively:", bad if bad else "none")
        if bad:
            rc = 1
    return rc
