"""C19 — timed waits respect their deadline and never damage the waiter queue.
Ties: T1 (timed wait-list / futex / pool pop_wait skeletons), T3 (vsched traces with a virtual clock validated
against Model.WaitList, the real pointer list compared with the model's list at every lock release)."""
from vlib import common as C
from vlib import t1, t3, t3_wlptr, vs

ASSUMPTIONS = [
    "sequentially consistent execution of the atomic primitives",
    "virtual clock: every clock read advances time by 1 us, sleeps and timed futex/cond waits block until the controller moves the clock to their deadline (a scheduling choice), so every enqueue / timeout / signal order can be produced",
    "`now >= deadline` is evaluated by the real code on the virtual clock value it read; the projection recomputes it from the logged value",
    "blocking pool pops (pop_wait / pop_timedwait): covered by T1 skeletons and the pool scenarios of C01/C06 under the virtual clock; their Lean model is work in progress (partial)",
]

T1_FUNCS = [("cond.c", f) for f in [
    "ABTI_waitlist_wait_timedout_and_unlock", "ABTI_waitlist_wait_and_unlock", "ABTI_waitlist_signal", "ABTI_waitlist_broadcast",
    "ABT_cond_timedwait", "convert_timespec_to_sec", "ABTI_get_wtime"]] + [
    ("arch/abtd_futex.c", "ABTD_futex_timedwait_and_unlock"), ("arch/abtd_futex.c", "ABTD_futex_broadcast"),
    ("arch/abtd_time.c", "ABTD_time_get"), ("arch/abtd_time.c", "ABTD_time_read_sec"),
    ("pool/fifo.c", "pool_pop_wait"), ("pool/fifo.c", "pool_pop_timedwait"),
    ("pool/randws.c", "pool_pop_wait"), ("pool/randws.c", "pool_pop_timedwait"),
    ("pool/fifo_wait.c", "pool_pop_wait"), ("pool/fifo_wait.c", "pool_pop_timedwait"),
    ("sched/basic_wait.c", "sched_run")]


def scenario_params(rng):
    if rng.below(5) < 2:
        return ["cond", 1 + rng.below(3), 3 + rng.below(5), 1 + rng.below(3), 35, 0]
    # long queues: 4-8 waiters, timed/untimed, ULT/external, staggered deadlines (head / middle / tail time-outs)
    return ["condq", 1 + rng.below(3), 5 + rng.below(5), 1 + rng.below(2), 20 + 10 * rng.below(4), 0]


def validate(lg, params):
    rejects, trans = [], set()
    lines = t3.project_waitlist(lg, "C0", lg.off("ABTI_cond", "lock"), lg.off("ABTI_cond", "waitlist"))
    rej, tr, drc = t3.run_driver("waitlist", lines)
    trans.update(tr)
    if rej or drc != 0:
        idx = int(rej.split()[1]) if rej else 0
        rejects.append({"model": "Model.WaitList", "object": "C0", "reject": rej or "driver rc=%d" % drc,
                        "projected_context": lines[max(0, idx - 14): idx + 2]})
    # the same trace on the pointer-level model: every wait-list operation replayed on Model.WLPtr, the model heap
    # compared with the real p_head / p_tail / p_next / (timed non-head) p_prev at every release of the cond's lock
    plines = t3_wlptr.project_wlptr(lg, "C0", lg.off("ABTI_cond", "waitlist"))
    rej, tr, drc = t3.run_driver("wlptr", plines)
    trans.update("wlptr:" + x for x in tr)
    if rej or drc != 0:
        idx = int(rej.split()[1]) if rej else 0
        rejects.append({"model": "Model.WLPtr", "object": "C0", "reject": rej or "driver rc=%d" % drc,
                        "projected_context": plines[max(0, idx - 14): idx + 2]})
    return rejects, trans, len(lines) + len(plines)


def run(res, tier, broken):
    n, tb = t1.check(T1_FUNCS, key="c19")
    res.add_cov(t1_functions=n, t1_broken=len(tb))
    for b in tb:
        broken.append({"kind": "T1-skeleton", **b})
    vs.campaign(res, broken, tier, "C19", "sc_sync", ["sc_sync.c"], scenario_params, validate,
                sizes={"quick": (20, 3), "thorough": (200, 8), "search": (150, 6)})


def replay(res, path):
    return vs.replay("sc_sync", ["sc_sync.c"], path, validate)
