"""C19 — timed waits respect their deadline and never damage the waiter queue; blocking pool pops lose nothing and return
in bounded time.
Ties: T1 (timed wait-list / futex / pool pop_wait / FIFO_WAIT push skeletons), T3 under the virtual clock:
  * cond scenarios (harness/sc_sync.c families cond, condq) validated against Model.WaitList (protocol) and Model.WLPtr
    (pointer level: the model heap compared with the real p_head / p_tail / p_next / p_prev at every lock release);
  * pool scenarios (harness/sc_popwait.c) validated against Model.PopWait (FIFO / RANDWS poll loops, FIFO_WAIT mutex +
    condition variable), one trace per pool."""
from vlib import common as C
from vlib import t1, t3, t3_wlptr, vs

ASSUMPTIONS = [
    "sequentially consistent execution of the atomic primitives",
    "virtual clock: every clock read advances time by 1 us, sleeps and timed futex/cond waits block until the controller moves the clock to their deadline (a scheduling choice), so every enqueue / timeout / signal order can be produced",
    "`now >= deadline` is evaluated by the real code on the virtual clock value it read; the projection recomputes it from the logged value",
    "pointer-level wait-list: a node that is enqueued is a valid object that is not queued; only a queued node that was enqueued by the timed function runs the removal code (the second is the protocol theorem timed_out_consumes_no_signal)",
    "blocking pops: inside a critical section the plain writes to the ring are invisible to the other actors (nobody reads them without the lock); the model performs them together with the section's first atomic store (is_empty, else is_in_pool)",
    "blocking pops: clock reads never go backwards and a nanosleep(100 ns) that starts after a read of v ends no earlier than v + 100 ns (vsched: exactly); pthread mutex / condition variable are the virtual ones of vsched (signal wakes exactly one waiter, no spurious wake-up; the model also admits spurious ones)",
    "blocking pops: logged clock values are truncated to whole ns and deadlines pass through a timespec: the projection tolerates 2 ns when a sleep or a condition wait evidently ended; scenario budgets keep 50 ns distance from every comparison the code makes in floating point",
    "blocking pops: pool_push_many (FIFO_WAIT broadcast) and the basic_wait scheduler loop are tied by T1 only; RANDWS push-to-head contexts are C07's",
]

T1_FUNCS = [("cond.c", f) for f in [
    "ABTI_waitlist_wait_timedout_and_unlock", "ABTI_waitlist_wait_and_unlock", "ABTI_waitlist_signal", "ABTI_waitlist_broadcast",
    "ABT_cond_timedwait", "convert_timespec_to_sec", "ABTI_get_wtime"]] + [
    ("arch/abtd_futex.c", "ABTD_futex_timedwait_and_unlock"), ("arch/abtd_futex.c", "ABTD_futex_broadcast"),
    ("arch/abtd_time.c", "ABTD_time_get"), ("arch/abtd_time.c", "ABTD_time_read_sec"),
    ("pool/fifo.c", "pool_pop_wait"), ("pool/fifo.c", "pool_pop_timedwait"),
    ("pool/randws.c", "pool_pop_wait"), ("pool/randws.c", "pool_pop_timedwait"),
    ("pool/fifo_wait.c", "pool_pop_wait"), ("pool/fifo_wait.c", "pool_pop_timedwait"),
    ("sched/basic_wait.c", "sched_run"),
    ("pool/fifo_wait.c", "pool_push"), ("pool/fifo.c", "pool_push_shared"), ("pool/randws.c", "pool_push_shared"),
    ("pool/fifo.c", "pool_pop_shared"), ("pool/randws.c", "pool_pop_shared"), ("pool/fifo_wait.c", "pool_pop")]

t3.Log = t3_wlptr.PathLog     # the popwait projection also reads the raw log (tags M / R / W / C)


def scenario_params(rng):
    if rng.below(5) < 2:
        return ["cond", 1 + rng.below(3), 3 + rng.below(5), 1 + rng.below(3), 35, 0, rng.below(2)]
    # long queues: 4-8 waiters, timed/untimed, ULT/external, staggered deadlines (head / middle / tail time-outs)
    return ["condq", 1 + rng.below(3), 5 + rng.below(5), 1 + rng.below(2), 20 + 10 * rng.below(4), 0, rng.below(2)]


def validate(lg, params):
    rejects, trans = [], set()
    lines = t3.project_waitlist(lg, "C0", lg.off("ABTI_cond", "lock"), lg.off("ABTI_cond", "waitlist"))
    rej, tr, drc = t3.run_driver("waitlist", lines)
    trans.update(tr)
    if rej or drc != 0:
        idx = int(rej.split()[1]) if rej else 0
        rejects.append({"model": "Model.WaitList", "object": "C0", "reject": rej or "driver rc=%d" % drc,
                        "projected_context": lines[max(0, idx - 14): idx + 2]})
    # the same trace on the pointer-level model: every wait-list operation replayed on Model.WLPtr, the model heap
    # compared with the real p_head / p_tail / p_next / (timed non-head) p_prev at every release of the cond's lock
    plines = t3_wlptr.project_wlptr(lg, "C0", lg.off("ABTI_cond", "waitlist"))
    rej, tr, drc = t3.run_driver("wlptr", plines)
    trans.update("wlptr:" + x for x in tr)
    if rej or drc != 0:
        idx = int(rej.split()[1]) if rej else 0
        rejects.append({"model": "Model.WLPtr", "object": "C0", "reject": rej or "driver rc=%d" % drc,
                        "projected_context": plines[max(0, idx - 14): idx + 2]})
    return rejects, trans, len(lines) + len(plines)


def popwait_params(rng):
    """<kinds> <access> <nprod> <ncons> <nunits> <ext%> <style>"""
    r = rng.below(10)
    ext = 20 + 15 * rng.below(5)
    if r < 3:      # solo consumer: the tight timing monitors apply (bounded time, FIFO_WAIT wake-up)
        return [rng.below(3), 0, 1 + rng.below(2), 1, 3 + rng.below(4), ext, 1]
    if r < 5:      # SPSC-compatible usage
        return [rng.below(3), 1, 1, 1, 3 + rng.below(4), ext, rng.below(2)]
    if r < 8:      # MPMC on one pool
        return [rng.below(3), 0, 1 + rng.below(3), 2 + rng.below(3), 4 + rng.below(6), ext, 0]
    return [3, 0, 1 + rng.below(3), 2 + rng.below(3), 5 + rng.below(6), ext, 0]     # one pool of each kind


def validate_popwait(lg, params):
    rejects, trans, total = [], set(), 0
    for pn in sorted(k for k in lg.objs if k.startswith("PW")):
        lines = t3_wlptr.project_popwait(lg, pn)
        total += len(lines)
        rej, tr, drc = t3.run_driver("popwait", lines)
        trans.update("popwait:" + x.replace("ArgoVerif.Model.PopWait.Pc.", "") for x in tr)
        if rej or drc != 0:
            idx = int(rej.split()[1]) if rej else 0
            rejects.append({"model": "Model.PopWait", "object": pn, "kind": lg.objs[pn].get("kind"), "reject": rej or "driver rc=%d" % drc,
                            "projected_context": lines[max(0, idx - 16): idx + 3]})
    return rejects, trans, total


def _campaign_cov(res, tag):
    """vs.campaign overwrites its non-numeric coverage keys: keep each campaign's own copy"""
    keys = ["programs_and_schedules", "outcomes", "model_transitions"]
    res.cov[tag] = {k: res.cov.get(k) for k in keys}
    return set(res.cov.get("model_transitions") or [])


def run(res, tier, broken):
    n, tb = t1.check(T1_FUNCS, key="c19")
    res.add_cov(t1_functions=n, t1_broken=len(tb))
    for b in tb:
        broken.append({"kind": "T1-skeleton", **b})
    vs.campaign(res, broken, tier, "C19", "sc_sync", ["sc_sync.c"], scenario_params, validate,
                sizes={"quick": (20, 3), "thorough": (200, 8), "search": (150, 6)}, reject_is_failure=vs.protocol_reject_is_failure)
    tr1 = _campaign_cov(res, "campaign_cond")
    vs.campaign(res, broken, tier, "C19pw", "sc_popwait", ["sc_popwait.c"], popwait_params, validate_popwait,
                sizes={"quick": (14, 3), "thorough": (120, 8), "search": (100, 5)}, reject_is_failure=vs.protocol_reject_is_failure)
    tr2 = _campaign_cov(res, "campaign_popwait")
    res.cov["model_transitions"] = sorted(tr1 | tr2)
    res.cov["model_transitions_exercised"] = len(tr1 | tr2)
    # the removal cases the pointer-level theorem is about must all have been produced by the real code
    want = ["wlptr:rm:head:tail", "wlptr:rm:head:nT", "wlptr:rm:head:nU", "wlptr:rm:pT:tail", "wlptr:rm:pU:tail", "wlptr:rm:pT:nT",
            "wlptr:rm:pT:nU", "wlptr:rm:pU:nT", "wlptr:rm:pU:nU"]
    res.add_cov(wlptr_removal_cases_seen=[w for w in want if w in tr1], wlptr_removal_cases_missing=[w for w in want if w not in tr1])
    native_timed(res, tier, broken)


def native_timed(res, tier, broken):
    """real clock / futex / pthread condition variables (the controlled scheduler virtualises them): harness/nat_timed.c"""
    import subprocess
    exe = C.cc_harness("nat_timed", ["nat_timed.c"], "plain")
    n = 0
    for mode in ("pools", "cond"):
        for _ in range(1 if tier == "quick" and not broken else 3):
            n += 1
            try:
                p = subprocess.run([exe, mode], stdout=subprocess.PIPE, stderr=subprocess.STDOUT, timeout=120)
                rc, out = p.returncode, p.stdout.decode("utf-8", "replace")
            except subprocess.TimeoutExpired:
                rc, out = -999, "timeout"
            if rc != 0:
                res.violation("timed wait against the real OS primitives (%s): %s" % (mode, out.strip().split("\n")[-1][:400] or "exit %s" % rc),
                              {"native": "nat_timed", "argv": [mode], "exit": rc, "output": out[-1500:]})
                break
    res.add_cov(native_timed_runs=n)


def replay(res, path):
    import json
    rep = json.load(open(path))
    if rep.get("native") == "nat_timed":
        import subprocess
        exe = C.cc_harness("nat_timed", ["nat_timed.c"], "plain")
        p = subprocess.run([exe] + rep.get("argv", []), stdout=subprocess.PIPE, stderr=subprocess.STDOUT, timeout=120)
        print(p.stdout.decode("utf-8", "replace")[-1500:])
        print("exit", p.returncode)
        return 1 if p.returncode != 0 else 0
    if rep.get("scenario") == "sc_popwait":
        return vs.replay("sc_popwait", ["sc_popwait.c"], path, validate_popwait)
    return vs.replay("sc_sync", ["sc_sync.c"], path, validate)
