"""C15 — descriptors and stacks: exclusive, conserved, any size.

Order of the dynamic part:
  0. corpus: the repro programs of the two repaired defects (F1 stack size, F4 partial bucket)
     are compiled against the current tree and run; a non-zero exit is a violation.
  1. T2 mem pool: harness/wb_mempool.c (real ABTI_mem_pool_* under ASan/UBSan, tiny buckets and
     pages, 2-4 local pools, injected page-allocation failures) vs Lean Model.MemPool.
  2. T2 stack geometry: harness/wb_stack.c (real ULTs through the public API with a malloc/free
     ledger linked in by --wrap) vs Lean Model.StackGeom.
  3. a few memory-pool configurations through the API (differential smoke).
  4. T1 + T3 who uses a local pool: sc_units traces vs Model.MemOwner.
  5. T1 + T3 the GLOBAL pool under concurrent callers and its tear-down: harness/sc_mempool.c (white box, 2-4 pthreads under
     the controlled scheduler, tiny buckets / pages, injected page-allocation failures, ledger of pages through the
     program's own posix_memalign / free) projected by vlib/t3_mempool.py onto Model.MemPoolConc (`driver mempoolconc`);
     native monitors: no block handed out twice, every page obtained released exactly once by the end of
     ABTI_mem_pool_destroy_global_pool, quiescent audit of the global pool.
"""
import collections, json, os, subprocess
from vlib import common as C
from vlib import diff as D

ASSUMPTIONS = [
    "mem pool, two models: (a) Model.MemPool, pointer level (p_next / num_headers chains, byte geometry of the carving), "
    "sequential: each ABTI_mem_pool_alloc/free/init_local/destroy_local with the take/return bucket calls inside is one atomic "
    "step; (b) Model.MemPoolConc, list level (a bucket is the list of its headers, a page its number of carved slots), "
    "concurrent: any number of callers interleaved at every atomic step of take_bucket (pop of bucket_lifo, pop of "
    "mem_page_lifo, ABTU_alloc_largepage succeeding or failing, carve + push on mem_page_lifo / the empty-page list), "
    "return_bucket, return_partial_bucket (lock, push of a completed bucket, unlock), plus the steps of "
    "destroy_global_pool; (b) is what covers several callers inside the global pool at once and the tear-down, (a) the chain "
    "and count fields; both are tied to the same C functions (T1) and (b) is validated on every controlled-scheduler trace of "
    "sc_mempool, including the real chains of the local pools, partial_bucket and both LIFOs",
    "a LOCAL pool is used by one execution stream at a time (or under mem_pool_*_lock): this usage discipline is Model.MemOwner "
    "(theorems local_pool_used_by_owner / local_pool_single_user), validated on every controlled-scheduler trace of the "
    "work-unit scenarios (hook events 80/81, monitor in harness/vs_abt.c: joins and frees by ULTs that block and come back on "
    "another stream, migration, stream create/join); in Model.MemPoolConc it is the identification actor = local pool",
    "in both pool models the two ABTI_sync_lifo are their sequential specification (each push/pop one step at its "
    "linearization point), justified by lifo_linearizable (Model.SyncLifo, interleaving model of the 128-bit-CAS branch); "
    "p_mem_page_empty is a push-only CAS-retry list, one step at the successful CAS; in Model.MemPoolConc the merge inside "
    "return_partial_bucket is placed at the lock acquisition (nobody else reads or writes partial_bucket until the release)",
    "Model.MemPoolConc: ABTI_mem_pool_destroy_global_pool runs when every local pool has been destroyed and nobody is inside "
    "the pool (its documented precondition; ABTI_mem_finalize_global is called by ABT_finalize after every stream is gone); "
    "pages are identified by their order of allocation (distinct regions: allocator contract)",
    "T3 sc_mempool: under vsched plain statements execute atomically with the preceding atomic operation of their thread; "
    "the outcome of a tagged-pointer CAS is computed by the scenario right before it executes (pointer and tag still what the "
    "thread loaded; x86 cmpxchg16b does not fail spuriously) and every projected event is cross-checked against the real "
    "structures (snapshots); lp type MALLOC only; the page ledger sits in the program's own posix_memalign / free",
    "ABTI_sync_lifo tag is an unbounded natural (the 64-bit tag wraps after 2^64 successful operations)",
    "pages returned by ABTU_alloc_largepage are pairwise disjoint, page_size bytes long and 64-byte aligned "
    "(posix_memalign / mmap contract); posix_memalign blocks are disjoint from each other and from user stacks",
    "OS effects of the configurations are not modelled: mmap vs malloc pages, huge pages, mprotect guard pages "
    "(ABT_STACK_OVERFLOW_CHECK) only change where pages come from / which bytes fault; they are exercised through the "
    "API (stack-geometry driver under several environments) but the guard page itself is not a theorem",
    "header ids are (page, segment offset); the constant header_offset shift inside a segment is not modelled "
    "(the harness subtracts it; the C asserts header_offset + sizeof(header) <= header_size)",
    "num_headers of a bucket on bucket_lifo is overwritten by the LIFO link (union); modelled as a write of 0, "
    "no theorem depends on the value",
    "user-supplied stack [a, a+S): 'at least that much usable stack' is read as: the ULT runs inside [a, a+S), "
    "its initial rsp is (a+S rounded down to 16) - 8, so at most 15 bytes at the top are lost to ABI alignment",
    "sizes in stack_geom theorems are mathematical integers (no size_t overflow: sizes <= 16 MiB in the quantifier)",
    "white-box pool driver: lp type MALLOC only, page_size / header_size / header_offset multiples of 8 (struct alignment, as in "
    "every real configuration: sizes are rounded to 64 or a power of two); mmap'ed pages and the mprotect slow path of "
    "take_bucket are reached only through the API-level driver",
    "ULT-running driver is built without sanitizers (ASan and fcontext switching do not mix); its own ledger "
    "(malloc/calloc/realloc/posix_memalign/free/mmap/munmap wrapped at link time) checks every free and the balance at finalize",
]

CORPUS = [
    # (name, source, argv lists, white-box?)
    ("f1_stack_size", "f1_stack_size.c", [["16400"], ["20000"], ["4097"], ["65537"]]),
    ("f4_partial_bucket", "f4_partial_bucket.c", [[]]),
]

_DRIVER = None


def private_driver():
    """The model driver binary is shared with everybody who runs `lake build driver`; relinking removes it for a
    moment.  Work from a private copy taken once per run (under the lake lock, with retries)."""
    global _DRIVER
    if _DRIVER:
        return _DRIVER
    import shutil, time
    d = os.path.join(C.BUILD, "c15")
    os.makedirs(d, exist_ok=True)
    dst = os.path.join(d, "driver.%d" % os.getpid())
    last = None
    for _ in range(120):
        try:
            with C.Lock("lake"):
                shutil.copy2(C.driver_exe(), dst)
            rc, out, err = D.run_lines([dst, "mempool"], ["new 1 16 72 0"])
            if rc == 0 and out and out[0] == "ok":
                _DRIVER = dst
                return dst
            last = "copied driver does not answer (rc %s)" % rc
        except OSError as ex:
            last = repr(ex)
        time.sleep(1)
    raise RuntimeError("model driver unavailable: %s" % last)


def drop_private_driver():
    global _DRIVER
    if _DRIVER and os.path.exists(_DRIVER):
        os.remove(_DRIVER)
    _DRIVER = None


def compare(model, exe, lines, timeout=20):
    """D.compare against the private driver copy (a run of these harnesses takes milliseconds: 20 s means it hangs)"""
    rc_c, out_c, err_c = D.run_lines([exe], lines, timeout)
    rc_m, out_m, err_m = D.run_lines([private_driver(), model], lines, 300)
    if rc_m != 0:
        return {"kind": "model-driver-failed", "rc": rc_m, "stderr": err_m[-2000:]}
    if rc_c != 0:
        return {"kind": "impl-crash", "rc": rc_c, "stderr": err_c[-3000:], "impl_out_tail": out_c[-5:]}
    d = D.first_diff(out_c, out_m)
    if d is None:
        return None
    return {"kind": "output-differs", "line": d[0], "impl": d[1], "model": d[2]}


MEMPOOL_WRAP = "-Wl,--wrap=posix_memalign"
STACK_WRAP = ("-Wl,--wrap=malloc,--wrap=calloc,--wrap=realloc,--wrap=free,--wrap=posix_memalign,"
              "--wrap=memalign,--wrap=aligned_alloc,--wrap=mmap,--wrap=munmap,--wrap=mprotect")


def _page_struct():
    """sizeof(ABTI_mem_pool_page) as generated from the current headers (Gen/Consts.lean)"""
    import re
    try:
        m = re.search(r"def sizeofMemPoolPage : Int := (\d+)", open(os.path.join(C.LEAN, "ArgoVerif", "Gen", "Consts.lean")).read())
        return int(m.group(1))
    except Exception:
        return 56


PAGE_STRUCT = _page_struct()


# ----------------------------------------------------------------------------------------------
# 0. corpus
# ----------------------------------------------------------------------------------------------
def run_corpus(res):
    n = 0
    for name, src, argvs in CORPUS:
        path = os.path.join(C.VERIF, "corpus", "findings", src)
        exe = C.cc_harness("corpus_" + name, [path], "plain")
        for argv in argvs:
            n += 1
            try:
                p = subprocess.run([exe] + argv, stdout=subprocess.PIPE, stderr=subprocess.STDOUT, timeout=60)
                rc, out = p.returncode, p.stdout.decode("utf-8", "replace")
            except subprocess.TimeoutExpired:
                rc, out = -999, "timeout"
            if rc != 0:
                res.violation("corpus program %s %s fails (exit %d; it is the repro of a repaired defect and must exit 0)" % (src, " ".join(argv), rc),
                              {"corpus": src, "argv": argv, "exit": rc, "output": out[-1500:]})
    res.add_cov(corpus_programs=n)


# ----------------------------------------------------------------------------------------------
# 1. mem pool
# ----------------------------------------------------------------------------------------------
def gen_mempool_ops(rng, nops):
    per = rng.choice([1, 2, 2, 3, 3, 4, 4, 5, 6, 8])
    hs = rng.choice([16, 24, 32, 48, 64, 64, 128, 192])
    ho = rng.choice([0, 0, hs - 16, ((hs - 16) // 2) // 8 * 8])
    slots = rng.choice([1, 2, 3, 3, 4, 5, 7, 9])
    slack = rng.choice([0, 0, 8, 8, hs - 8])   # page/header sizes stay multiples of 8 (struct alignment, as in every real configuration)
    ps = PAGE_STRUCT + hs * slots + slack
    lines = ["new %d %d %d %d" % (per, hs, ps, ho)]
    hist = collections.Counter()
    nloc = rng.choice([2, 3, 4])
    inited = [False] * nloc
    est_live = 0
    bias = 50
    low_budget = 0
    for _ in range(nops):
        if rng.below(40) == 0:
            bias = rng.choice([15, 30, 50, 70, 85])
        if low_budget > 0:
            low_budget -= 1
            if low_budget == 0:
                lines.append("budget 1000000")
                hist["budget"] += 1
                continue
        r = rng.below(1000)
        i = rng.below(nloc)
        if r < 12 and low_budget == 0:
            lines.append("budget %d" % rng.choice([0, 0, 1, 1, 2, 3]))
            hist["budget"] += 1
            low_budget = 2 + rng.below(12)
        elif not inited[i]:
            if rng.below(2) == 0:
                lines.append("init %d" % i)
                hist["init"] += 1
                inited[i] = True      # may fail under a low budget: later ops on it print `precondition` on both sides
        elif r < 40:
            lines.append("destroy %d" % i)
            hist["destroy"] += 1
            inited[i] = False
        elif r < 40 + bias * 9.6:
            lines.append("alloc %d" % i)
            hist["alloc"] += 1
            est_live += 1
        elif est_live > 0:
            k = rng.below(est_live)
            if rng.below(3) == 0:
                k = 0 if rng.below(2) == 0 else est_live - 1
            lines.append("free %d %d" % (i, k))
            hist["free"] += 1
            est_live -= 1
    return lines, hist


def parse_dump(out_line):
    """-> (result words, dict with local chains, partial, lifo chains) or None"""
    if " |" not in out_line:
        return None
    head, rest = out_line.split(" |", 1)
    return head.split(), rest


def mempool_oracle(lines, out):
    """Independent oracle on the implementation's own output: is the property statement violated?
    Tracks the set of handed-out blocks; after every op every header printed anywhere must appear exactly once
    among {live, local chains, partial, LIFO chains}; stored counts equal printed chain lengths; chains NULL-terminated;
    alloc returns a block that is not live; slots lie inside the page."""
    import re
    per = hs = ps = None
    live = []
    everseen = set()
    for i, l in enumerate(lines):
        if i >= len(out) or out[i] == "":
            return "no output for line %d `%s`" % (i, l)
        w = l.split()
        o = out[i]
        if w[0] == "new":
            per, hs, ps = int(w[1]), int(w[2]), int(w[3])
            live = []
            everseen = set()
            continue
        if o in ("bad-op", "precondition", "bad-params"):
            continue
        pd = parse_dump(o)
        if pd is None:
            return "line %d `%s`: unparsable output `%s`" % (i, l, o)
        resw, dump = pd
        if resw[0] == "alloc" and resw[1] != "err":
            if resw[1] in live:
                return "line %d `%s`: alloc returned %s which is still handed out" % (i, l, resw[1])
            live.append(resw[1])
        elif resw[0] == "free":
            k = int(w[2])
            if k < len(live):
                live.pop(k)
        chains = re.findall(r"\[(\d+):([^;\]]*);(.)\]", dump) + [(str(per), c, e) for c, e in re.findall(r"\{([^;}]*);(.)\}", dump)]
        seen = collections.Counter(live)
        for cnt, c, e in chains:
            hdrs = c.split()
            if int(cnt) != len(hdrs):
                return "line %d `%s`: a chain stores count %s but holds %d headers" % (i, l, cnt, len(hdrs))
            if e != "0":
                return "line %d `%s`: a chain is not NULL-terminated after its stored count (%s)" % (i, l, e)
            seen.update(hdrs)
        for h, n in seen.items():
            if n != 1:
                return "line %d `%s`: header %s appears %d times among live blocks and free chains" % (i, l, h, n)
            if "!" in h or "?" in h:
                return "line %d `%s`: header %s is not at a slot boundary of a known page" % (i, l, h)
            pg, slot = h.split(".")
            if (int(slot) + 1) * hs > ps - PAGE_STRUCT:
                return "line %d `%s`: header %s overlaps the page descriptor / next page" % (i, l, h)
        now = set(seen)
        if not everseen <= now:
            return "line %d `%s`: headers %s vanished (neither live nor in any chain)" % (i, l, sorted(everseen - now)[:4])
        everseen = now
    return None


def mempool_exe():
    return C.cc_harness("wb_mempool", ["wb_mempool.c"], "san", extra=MEMPOOL_WRAP)


def t2_mempool(res, tier, broken):
    exe = mempool_exe()
    rng = C.Rng(res.seed * 104729 + 15)
    if tier == "quick" and not broken:
        rounds, nops = 12, 600
    else:
        rounds, nops = 2400, 500     # > 10^6 operations
    total = collections.Counter()
    nl = 0
    handovers = 0

    def one(r_lines):
        return compare("mempool", exe, r_lines)

    jobs = []
    for r in range(rounds):
        lines, hist = gen_mempool_ops(rng, nops)
        total.update(hist)
        nl += len(lines)
        jobs.append(lines)
    if jobs:
        res.sample({"mempool_ops": jobs[0][:14]})
    import concurrent.futures as cf
    bad = None
    with cf.ThreadPoolExecutor(max_workers=min(C.NCPU, 12)) as ex:
        for i in range(0, len(jobs), 48):           # in chunks: the first disagreement ends the campaign
            chunk = jobs[i:i + 48]
            for lines, d in zip(chunk, ex.map(one, chunk)):
                if d is not None and bad is None:
                    bad = (lines, d)
            if bad:
                break
    if bad:
        lines, d = bad
        hangs = d.get("rc") == -999
        budget = 40 if hangs else 300                # every probe of a hanging implementation costs the full timeout
        # first: does the implementation's own output contradict C15 anywhere on this history (not only at the first
        # point where it differs from the model)?
        vh = None if hangs else D.violating_history(lines, lambda ls: D.run_lines([exe], ls, 20), mempool_oracle, keep_prefix=1, budget=budget)
        if vh:
            small, why = vh
            d2 = compare("mempool", exe, small) or d
            rc, out_c, err = D.run_lines([exe], small)
        else:
            small = D.ddmin(lines, lambda ls: compare("mempool", exe, ls) is not None, keep_prefix=1, budget=budget)
            d2 = compare("mempool", exe, small) or d
            rc, out_c, err = D.run_lines([exe], small, 20)
            if rc == -999:
                why = "the memory-pool routines do not return (no output within 20 s; a run takes milliseconds)"
            elif rc == 0:
                why = mempool_oracle(small, out_c)
            else:
                why = "implementation aborted (sanitizer / assertion / signal %d): %s" % (rc, err[-800:])
        rep = {"correspondence": "T2 mempool (harness/wb_mempool.c vs Model.MemPool)", "ops": small, "disagreement": d2,
               "impl_output": out_c[-12:], "oracle": why}
        if why:
            res.violation("memory pool violates C15: " + why, rep)
        else:
            res.violation("T2 mempool correspondence broken (implementation output still satisfies the partition oracle)",
                          rep, no_input=True)
    res.add_cov(programs=len(jobs), disagreements_checked=nl, mempool_op_histogram=dict(total))


# ----------------------------------------------------------------------------------------------
# 2. stack geometry
# ----------------------------------------------------------------------------------------------
KiB, MiB = 1024, 1024 * 1024


def stack_size_list(rng, thorough, lo):
    """sizes in lo..16 MiB: every residue mod 64, +-1 around powers of two, the default and neighbours"""
    sizes = []
    bases = [4096, 8192, 12288, 16384, 16384, 20000 // 64 * 64, 32768, 65536] + ([131072, 262144, 1 << 20] if thorough else [])
    bases = [b for b in bases if b >= lo] or [lo]
    for res64 in range(64):
        sizes.append(rng.choice(bases) + res64)
    e = 12
    while (1 << e) <= 16 * MiB:
        p = 1 << e
        if thorough or e <= 17 or e == 24:
            for dlt in (-1, 0, 1):
                if lo <= p + dlt <= 16 * MiB:
                    sizes.append(p + dlt)
        e += 1
    sizes += [s for s in (16384, 16400, 20000, 16384 + 8192, 16384 - 64, 16384 + 64) if s >= lo]
    return sizes


def gen_stack_ops(rng, n, thorough, env, defS, lo=4096):
    lines = ["env %s %s" % kv for kv in env] + ["init %d" % defS]
    hist = collections.Counter()
    items = [("rt", s) for s in stack_size_list(rng, thorough, lo)]
    # user stacks: every 8-byte offset within 64 bytes x sizes with every residue mod 16
    for off in range(8):
        for S in (max(lo, 16384), max(lo, 4096) + 8 * off + rng.below(8), 20000 + off, max(lo, 8192) + rng.below(16)):
            items.append(("us", (S, off)))
    if n < len(items):
        # keep a deterministic sample that still has every residue class represented over a few seeds
        for i in range(len(items) - 1, 0, -1):
            j = rng.below(i + 1)
            items[i], items[j] = items[j], items[i]
        items = items[:n]
    while len(items) < n:
        if rng.below(3) == 0:
            items.append(("us", (lo + rng.below(64 * KiB), rng.below(8))))
        else:
            top = rng.choice([64 * KiB, 64 * KiB, MiB, 16 * MiB])
            items.append(("rt", lo + rng.below(top - lo + 1)))
    for i in range(len(items) - 1, 0, -1):
        j = rng.below(i + 1)
        items[i], items[j] = items[j], items[i]
    for kind, v in items:
        who = rng.choice(["ee", "ee", "ee", "xe", "ex"])
        if kind == "rt":
            lines.append("rt %d %s" % (v, who))
            hist["rt:size%%64=%s" % ("0" if v % 64 == 0 else "nonzero")] += 1
            hist["rt:" + ("default" if v == defS else "<64K" if v < 64 * KiB else "<1M" if v < MiB else ">=1M")] += 1
            hist["who:" + who] += 1
        else:
            lines.append("us %d %d %s" % (v[0], v[1], who))
            hist["us:off8=%d" % v[1]] += 1
            hist["us:(a+S)%%16=%d" % ((8 * v[1] + v[0]) % 16)] += 1
            hist["who:" + who] += 1
    lines.append("fin")
    return lines, hist


def stack_exe():
    return C.cc_harness("wb_stack", ["wb_stack.c"], "plain", extra=STACK_WRAP)


def stack_oracle(lines, out, err):
    """Does the implementation's own output contradict C15?"""
    if "LEDGER-VIOLATION" in err or any("LEDGER-VIOLATION" in o for o in out):
        v = [x for x in (err.split("\n") + out) if "LEDGER-VIOLATION" in x]
        return v[0]
    for i, l in enumerate(lines):
        if i >= len(out) or out[i] == "":
            return "no output for line %d `%s` (crash?)" % (i, l)
        o = out[i]
        w = l.split()
        if w[0] in ("rt", "us"):
            if "in=1 gap=1 lo=1 hi=1" not in o:
                return "line %d `%s`: ULT did not run inside its stack region: %s" % (i, l, o)
            if "dm=0" not in o:
                return "line %d `%s`: descriptor not 64-byte aligned: %s" % (i, l, o)
            if " fr=0" not in o and " fr=pool" not in o:
                return "line %d `%s`: pointer freed is not the pointer allocated: %s" % (i, l, o)
            if "rspin=1" not in o:
                return "line %d `%s`: initial rsp outside the stack: %s" % (i, l, o)
        if w[0] == "fin" and o != "fin live=0":
            return "ABT_finalize left allocations behind: " + o
    return None


STACK_ENVS = [
    # (env pairs, default thread stack size under that env, smallest stack size generated)
    ([], 16384, 4096),
    ([("ABT_MEM_MAX_NUM_STACKS", "4"), ("ABT_MEM_MAX_NUM_DESCS", "4")], 16384, 4096),
    ([("ABT_MEM_LP_ALLOC", "malloc"), ("ABT_MEM_MAX_NUM_STACKS", "2")], 16384, 4096),
    ([("ABT_MEM_LP_ALLOC", "mmap_rp"), ("ABT_MEM_MAX_NUM_DESCS", "2")], 16384, 4096),
    ([("ABT_STACK_OVERFLOW_CHECK", "none")], 16384, 4096),
    # with a guard page the lowest page boundary of every stack is PROT_NONE: stacks of at least 4 pages
    ([("ABT_STACK_OVERFLOW_CHECK", "mprotect"), ("ABT_MEM_MAX_NUM_STACKS", "4")], 16384 + 2 * 4096, 4 * 4096),
    ([("ABT_THREAD_STACKSIZE", "20480"), ("ABT_MEM_LP_ALLOC", "malloc")], 20480, 4096),
]


def t2_stack(res, tier, broken):
    exe = stack_exe()
    rng = C.Rng(res.seed * 15485863 + 151)
    thorough = not (tier == "quick" and not broken)
    total = collections.Counter()
    nl = 0
    progs = 0
    for ei, (env, defS, lo) in enumerate(STACK_ENVS):
        n = (4000 if thorough else 120) if ei == 0 else (300 if thorough else 20)
        if any(k == "ABT_STACK_OVERFLOW_CHECK" and v != "none" for k, v in env):
            n = 2500 if thorough else 60   # guard placement depends on where malloc puts the block within a page
        lines, hist = gen_stack_ops(rng, n, thorough, env, defS, lo)
        total.update(hist)
        total["env:" + (",".join("%s=%s" % kv for kv in env) or "default")] += 1
        nl += len(lines)
        progs += 1
        if ei == 0:
            res.sample({"stack_ops": lines[:10]})
        d = compare("stackgeom", exe, lines)
        if d is None:
            continue
        k = len(env) + 1
        small = D.ddmin(lines[:-1], lambda ls: compare("stackgeom", exe, ls + ["fin"]) is not None,
                        keep_prefix=k, budget=120) + ["fin"]
        d2 = compare("stackgeom", exe, small) or d
        rc, out_c, err = D.run_lines([exe], small)
        why = stack_oracle(small, out_c, err)
        if why is None and rc != 0:
            why = "implementation aborted (rc %d): %s" % (rc, err[-600:])
        rep = {"correspondence": "T2 stack geometry (harness/wb_stack.c vs Model.StackGeom)", "ops": small,
               "disagreement": d2, "impl_output": out_c[-8:], "impl_stderr": err[-800:], "oracle": why}
        if why:
            res.violation("stack / descriptor provenance violates C15: " + why, rep)
        else:
            res.violation("T2 stack-geometry correspondence broken (implementation output still satisfies the oracle)",
                          rep, no_input=True)
        break
    res.add_cov(programs=progs, disagreements_checked=nl, stack_histogram=dict(total))


# ----------------------------------------------------------------------------------------------
# 4. T1 + T3: who uses a local pool (the atomicity assumption of Model.MemPool, Model.MemOwner)
# ----------------------------------------------------------------------------------------------
T1_FUNCS = [("thread.c", f) for f in [
    "thread_join", "thread_join_yield_thread", "thread_free", "ABT_thread_free", "ABT_thread_free_many", "ABT_thread_join",
    "ABT_thread_join_many", "ABTI_thread_free", "ABTI_ythread_free_root", "ABTI_ythread_free_primary", "ABTI_thread_join",
    "ABTI_mem_free_thread", "ABTI_mem_free_nythread_mempool_impl", "ABTI_mem_free_ythread_desc_mempool_impl", "ABTI_mem_alloc_ythread_desc_impl", "ABTI_mem_alloc_ythread_mempool_desc", "ABTI_mem_alloc_nythread", "ABTI_mem_alloc_ythread_default",
    "ABTI_mem_alloc_ythread_mempool_desc_stack", "ABTI_mem_alloc_ythread_mempool_desc_stack_impl",
    "ABTI_mem_free_ythread_mempool_stack", "ABTI_mem_alloc_ythread_mempool_stack", "ABTI_mem_alloc_desc", "ABTI_mem_free_desc",
    "ABTI_mem_pool_alloc", "ABTI_mem_pool_free", "ABTI_ythread_suspend_join", "ythread_create"]] + [("task.c", "task_create")] + [
    ("mem/malloc.c", f) for f in ["ABTI_mem_init_local", "ABTI_mem_finalize_local"]] + [
    ("mem/mem_pool.c", f) for f in ["ABTI_mem_pool_init_local_pool", "ABTI_mem_pool_destroy_local_pool",
                                     "ABTI_mem_pool_take_bucket", "ABTI_mem_pool_return_bucket"]]


def validate_memowner(lg, params):
    from vlib import t3, t3_sched
    lines = t3_sched.project_memowner(lg)
    rej, tr, drc = t3.run_driver("memowner", ["init"] + lines)
    rejects = []
    if rej or drc != 0:
        idx = int(rej.split()[1]) if rej else 0
        rejects.append({"model": "Model.MemOwner", "reject": rej or "driver rc=%d" % drc,
                        "projected_context": lines[max(0, idx - 8): idx + 2]})
    foreign = sum(1 for l in lines if l.startswith("use ") and l.split()[1] != l.split()[2])
    return rejects, set(["use"] + (["use-foreign-while-stopped"] if foreign else []) +
                        (["useExt"] if any(l.startswith("useExt") for l in lines) else [])), len(lines)


def t3_memowner(res, tier, broken):
    from vlib import t1, vs
    from checks import sched_common
    vs.campaign(res, broken, tier, "C15", "sc_units", ["sc_units.c"], sched_common.scenario_params, validate_memowner,
                sizes={"quick": (12, 3), "thorough": (150, 8), "search": (150, 6)})


# ----------------------------------------------------------------------------------------------
# 5. T1 + T3: the global pool under concurrent callers, and its tear-down (Model.MemPoolConc)
# ----------------------------------------------------------------------------------------------
T1_CONC = [("mem/mem_pool.c", f) for f in [
    "ABTI_mem_pool_init_global_pool", "ABTI_mem_pool_destroy_global_pool", "mem_pool_lifo_elem_to_page",
    "mem_pool_lifo_elem_to_header", "mem_pool_return_partial_bucket", "protect_memory", "ABTI_mem_pool_take_bucket",
    "ABTI_mem_pool_return_bucket", "ABTI_mem_pool_init_local_pool", "ABTI_mem_pool_destroy_local_pool", "ABTI_mem_pool_alloc",
    "ABTI_mem_pool_free", "ABTI_sync_lifo_init", "ABTI_sync_lifo_destroy", "ABTI_sync_lifo_push_unsafe",
    "ABTI_sync_lifo_pop_unsafe", "ABTI_sync_lifo_push", "ABTI_sync_lifo_pop", "ABTD_spinlock_acquire", "ABTD_spinlock_release",
    "ABTD_spinlock_clear"]] + [("util/largepage.c", f) for f in ["ABTU_alloc_largepage", "ABTU_free_largepage"]] + [
    ("mem/malloc.c", f) for f in ["ABTI_mem_init", "ABTI_mem_finalize"]]


def mempool_conc_params(rng):
    """nthreads, per_bucket, slots per page, header_size, header_offset, slack, rounds, fail%"""
    nthr = rng.choice([2, 2, 3, 3, 4])
    per = rng.choice([1, 2, 2, 3, 3, 4])
    slots = rng.choice([1, 2, 3, 3, 4, 5, 5, 7, 9])
    hs = rng.choice([16, 32, 48, 64])
    ho = rng.choice([0, 0, hs - 16])
    slack = rng.choice([0, 0, 8, hs - 8])
    rounds = 2 + rng.below(6)
    fail = rng.choice([0, 0, 0, 10, 25, 40])
    return [nthr, per, slots, hs, ho, slack, rounds, fail]


class _Cov:
    """collects the coverage of one vs.campaign separately (its keys would overwrite those of the sc_units campaign)"""

    def __init__(self, res):
        self.res, self.seed, self.cov = res, res.seed, {}

    def add_cov(self, **kw):
        self.cov.update(kw)

    def violation(self, *a, **kw):
        return self.res.violation(*a, **kw)

    def sample(self, s, cap=6):
        return self.res.sample(s, cap=8)


def t3_mempoolconc(res, tier, broken):
    from vlib import t1, vs, t3_mempool
    teardown = collections.Counter()
    maxlifo = [0]
    fails = [0]

    def validate(lg, params):
        r = t3_mempool.validate(lg, params)
        st = t3_mempool.validate.last_stats
        if st.get("lifoAtDestroy") is not None:
            teardown[min(st["lifoAtDestroy"], 2)] += 1
        maxlifo[0] = max(maxlifo[0], st.get("maxPageLifo", 0))
        fails[0] += st.get("allocfail", 0)
        return r

    cov = _Cov(res)
    vs.campaign(cov, broken, tier, "C15", "sc_mempool", ["sc_mempool.c"], mempool_conc_params, validate,
                sizes={"quick": (24, 4), "thorough": (400, 8), "search": (150, 6)},
                reject_is_failure=vs.protocol_reject_is_failure)
    c = cov.cov
    res.add_cov(mempoolconc={
        "t1_functions": len(T1_CONC), "programs_and_schedules": c.get("programs_and_schedules"), "runs": c.get("runs"),
        "outcomes": c.get("outcomes"), "traces_validated_against_impl": c.get("traces_validated_against_impl"),
        "projected_events": c.get("projected_events"), "model_transitions_exercised": c.get("model_transitions_exercised"),
        "model_transitions": c.get("model_transitions"),
        "teardown_runs_by_pages_on_mem_page_lifo": {"0": teardown[0], "1": teardown[1], ">=2": teardown[2]},
        "max_pages_on_mem_page_lifo": maxlifo[0], "injected_page_allocation_failures": fails[0]})
    res.add_cov(traces_validated_against_impl=c.get("traces_validated_against_impl") or 0,
                projected_events=c.get("projected_events") or 0, runs=c.get("runs") or 0)


def run(res, tier, broken):
    run_corpus(res)
    # the skeleton ties first: a difference there widens every search below (T2 included)
    from vlib import t1
    n, tb = t1.check(T1_FUNCS)
    n2, tb2 = t1.check(T1_CONC)
    res.add_cov(t1_functions=n + n2, t1_broken=len(tb) + len(tb2))
    for b in tb + tb2:
        broken.append({"kind": "T1-skeleton", **b})
    try:
        private_driver()
        t2_mempool(res, tier, broken)
        t2_stack(res, tier, broken)
    finally:
        drop_private_driver()
    t3_memowner(res, tier, broken)
    t3_mempoolconc(res, tier, broken)


def replay(res, path):
    try:
        return _replay(res, path)
    finally:
        drop_private_driver()


def _replay(res, path):
    rep = json.load(open(path))
    if rep.get("scenario") == "sc_mempool":
        from vlib import vs, t3_mempool
        return vs.replay("sc_mempool", ["sc_mempool.c"], path, t3_mempool.validate)
    if rep.get("scenario") == "sc_units":
        from vlib import vs
        return vs.replay("sc_units", ["sc_units.c"], path, validate_memowner)
    if "corpus" in rep:
        exe = C.cc_harness("corpus_" + rep["corpus"].rsplit(".", 1)[0], [os.path.join(C.VERIF, "corpus", "findings", rep["corpus"])], "plain")
        p = subprocess.run([exe] + rep.get("argv", []), stdout=subprocess.PIPE, stderr=subprocess.STDOUT)
        print(p.stdout.decode("utf-8", "replace")[-1500:])
        print("exit", p.returncode)
        return 1 if p.returncode != 0 else 0
    if "ops" in rep:
        if "mempool" in rep.get("correspondence", ""):
            exe, model, orc = mempool_exe(), "mempool", lambda ls, o, e: mempool_oracle(ls, o)
        else:
            exe, model, orc = stack_exe(), "stackgeom", stack_oracle
        d = compare(model, exe, rep["ops"])
        rc, out_c, err = D.run_lines([exe], rep["ops"])
        print("disagreement:", d)
        print("oracle:", orc(rep["ops"], out_c, err) if rc == 0 else "rc=%d %s" % (rc, err[-600:]))
        return 1 if d else 0
    print("replay file names a broken obligation without a failing input:", rep.get("broken"))
    return 1
